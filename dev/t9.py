import sys
from jstat.engine import *
from jstat.report import Result
from jstat.rules import axis_rules
tree=get_tree()
res=Result()
n=axis_rules.add_obligations(res,tree,'C07.R1','all')
for o in res.obligations:
    print({True:'ok ',False:'BAD',None:'?  '}[o.ok], o.site.split('/')[-2:], o.func.split('.')[-1], '|', o.construct[:70], '|', o.detail[:200])
print(n, res.extra)
