import sys
from jstat.engine import *
from jstat.rules.common import *
from jstat.rules.stale import *
tree=get_tree()
for ci in tree.environment_classes():
    if ci.name not in sys.argv[1:]: continue
    ea=analyse_env(tree,ci); v=ea.vfg
    for o in observation_leaves(ea,ea.step_ts):
        for path,val in flat_fields(v,o):
            print(ci.name,path,':',txt(val,6,700)); print()
