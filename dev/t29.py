from jstat.engine import *
from jstat.rules.common import txt
tree=get_tree()
ci=[c for c in tree.environment_classes() if c.name=='Connector'][0]
ea=analyse_env(tree,ci)
print(txt(ea.vfg.mk_attr(ea.reset_ts,'extras'),6,400))
print(ea.reset_ts.kind)
