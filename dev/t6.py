import sys
from jstat.engine import *
from jstat.rules.common import *
from jstat.rules.stale import *
from jstat.terms import children
tree=get_tree()
name,field=sys.argv[1],sys.argv[2]
ci=[c for c in tree.environment_classes() if c.name==name][0]
ea=analyse_env(tree,ci); v=ea.vfg; sf=StepFlow(ea)
# find path to stale read
if field.startswith('state.'):
    val=sf.new[field[6:]]; own={t.id for t in components(val,None,v)}
else:
    o=observation_leaves(ea,ea.step_ts)[int(sys.argv[3]) if len(sys.argv)>3 else 0]
    val=dict(flat_fields(v,o))[field]; own=set()
def path(n,seen,acc):
    if n.id in seen: return None
    seen.add(n.id)
    if n.id in sf.stop_ids and n.id not in own: return None
    if n.kind=='attr' and n.args[0] is ea.state and n.id not in sf.old_by_id: return None
    if n.id in sf.old_by_id: return acc+[n]
    for c in children(n):
        r=path(c,seen,acc+[n])
        if r: return r
r=path(val,set(),[])
for n in r or []: print(n.kind, '::', txt(n,3,200))
