from jstat.engine import *
from jstat.rules.common import *
from jstat.terms import contains
tree=get_tree()
for ci in tree.environment_classes():
    ea=analyse_env(tree,ci); v=ea.vfg
    rws=[]
    for l,_ in leaves(ea.step_ts):
        if l.kind=='construct':
            rw=v.mk_attr(l,'reward')
            for alt in (rw.args[0] if rw.kind=='phi' else (rw,)):
                if alt not in rws: rws.append(alt)
    print(ci.name,[contains(r,ea.action) for r in rws])
