from jstat.engine import *
from jstat.rules.common import *
from jstat.rules.stale import *
from jstat.terms import uncopy
tree=get_tree()
for ci in tree.environment_classes():
    ea=analyse_env(tree,ci); vfg=ea.vfg
    if ea.state_cls is None: continue
    reset=tree.find_method(ci,'reset'); step=tree.find_method(ci,'step')
    fields=tree.fields(ea.state_cls)
    R={f:uncopy(vfg.mk_attr(ea.reset_state,f)) for f in fields}
    N={f:uncopy(vfg.mk_attr(ea.step_state,f)) for f in fields}
    O={f:vfg.mk_attr(ea.state,f) for f in fields}
    rs={}; ss={}
    for f,vars_,caller,node in vfg.callsites:
        if caller is reset: rs.setdefault(f.qual,[]).append(vars_)
        if caller is step: ss.setdefault(f.qual,[]).append(vars_)
    for q in rs:
        if q not in ss: continue
        for a in rs[q]:
            for b in ss[q]:
                for pn in a:
                    if pn not in b: continue
                    ra=uncopy(a[pn]); sb=uncopy(b[pn])
                    flds=[f for f in fields if R[f] is ra]
                    for f in flds:
                        st='ok' if sb is N[f] else ('STALE' if sb is O[f] and N[f] is not O[f] else 'other')
                        print(ci.name,q.split('.')[-1],pn,'reset passes stored',f,'step:',st)
