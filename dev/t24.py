from jstat.engine import *
from jstat.rules.common import *
from jstat.model import Model
tree=get_tree()
v3=VFG(tree,Model(tree))
f=tree.functions['jumanji.registration.make']
idp=mk("param", f.qual, "id"); argsp, kwp = mk("param", f.qual, "args"), mk("param", f.qual, "kwargs")
r=v3.apply_func(f,None,None,[idp, mk("star", argsp)], {"**": kwp}, None, None)
for fn,node,path,exc in raise_exits(v3):
    print(fn.name, node.lineno, [(txt(t,3,60),pol,pf.name) for t,pol,pf in path], txt(exc,3,80) if exc is not None else None)
