from jstat.engine import *
from jstat.rules.common import *
from jstat.rules.stale import *
from jstat.rules import c01
from jstat.dtypes import dtype_cat, cat_of_dtype
tree=get_tree()
for ci in tree.environment_classes():
    ea=analyse_env(tree,ci); v=ea.vfg; st=step_types(v)
    rs=v.mk_attr(ea.self_t,'reward_spec'); info=c01.spec_args(rs)
    want=cat_of_dtype(info[1].get('dtype')) if info else None
    for l,_ in leaves(ea.step_ts):
        if l.kind=='construct':
            rw=v.mk_attr(l,'reward')
            alts=[x for x,_ in leaves(rw)]
            print(ci.name,'reward spec',want,'value',[dtype_cat(x) for x in alts], txt(rw,3,80)); break
    spec=v.mk_attr(ea.self_t,'observation_spec'); sp={}
    for p,leaf in c01.spec_paths(v,spec): sp.setdefault(p,[]).append(leaf)
    for which,ts in (('reset',ea.reset_ts),('step',ea.step_ts)):
        for o in observation_leaves(ea,ts):
            if o.kind!='construct': continue
            for path,val in flat_fields(v,o):
                for vv,_ in leaves(val):
                    c=dtype_cat(vv)
                    for leaf in sp.get(path,[]):
                        i2=c01.spec_args(leaf)
                        w=cat_of_dtype(i2[1].get('dtype')) if i2 else None
                        if i2 and i2[0] in('DiscreteArray','MultiDiscreteArray') and w is None: w='int'
                        if c and w and c!=w: print('   MISMATCH',which,path,'value',c,'spec',w, txt(vv,3,100))
