import sys
from jstat.engine import *
from jstat.terms import show
tree=get_tree()
for ci in tree.environment_classes():
    if sys.argv[1:] and ci.name not in sys.argv[1:]: continue
    ea=analyse_env(tree,ci)
    sp=ea.vfg.mk_attr(ea.self_t,'observation_spec')
    print('==',ci.name, show(sp,5)[:1500])
