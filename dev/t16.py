from jstat.engine import *
from jstat.rules.common import *
from jstat.rules.stale import *
from jstat.rules import c01
from jstat.normal import linear, strip_cast
tree=get_tree()
for ci in tree.environment_classes():
    ea=analyse_env(tree,ci); v=ea.vfg; sf=StepFlow(ea)
    spec=v.mk_attr(ea.self_t,'observation_spec'); sp={}
    for p,leaf in c01.spec_paths(v,spec): sp.setdefault(p,[]).append(leaf)
    olds={sf.old[f].id:f for f in sf.fields}
    for o in observation_leaves(ea,ea.step_ts):
        if o.kind!='construct': continue
        for path,val in flat_fields(v,o):
            for x,_ in leaves(val):
                b,k=linear(x)
                if b is not None and b.id in olds and k:
                    infos=[c01.spec_args(l) for l in sp.get(path,[])]
                    print(ci.name,path,'= old.%s %+d'%(olds[b.id],k),[ (i[0], txt(i[1].get('maximum',i[1].get('num_values')),3,40)) for i in infos if i])
