import sys
from jstat.engine import *
from jstat.rules.common import *
from jstat.rules.stale import *
tree=get_tree()
names=sys.argv[1:]
for ci in tree.environment_classes():
    if names and ci.name not in names: continue
    ea=analyse_env(tree,ci); v=ea.vfg
    sf=StepFlow(ea)
    print('==',ci.name,'superseded',sorted(sf.superseded),'unchanged',[f for f in sf.fields if f not in sf.superseded])
    for o in observation_leaves(ea, ea.step_ts):
        if o.kind!='construct': print('   OBS not construct', txt(o,3)); continue
        for path,val in flat_fields(v,o):
            st=sf.stale_reads(val)
            if st: print('   obs.%s stale reads %s :: %s'%(path,st,txt(val,4,160)))
    for f in sf.fields:
        if f=='action_mask':
            st=sf.stale_reads(sf.new[f], f)
            if st: print('   state.%s stale reads %s'%(f,st))
