from jstat.engine import *
from jstat.rules.common import *
from jstat.rules.stale import *
tree=get_tree()
ci=[c for c in tree.environment_classes() if c.name=='Connector'][0]
ea=analyse_env(tree,ci); sf=StepFlow(ea); vfg=ea.vfg
print(txt(sf.new['agents'],6,1500))
from jstat.terms import deps
for t in deps(sf.new['agents']):
    if t.kind in ('update','copy'): print(t.kind, txt(t,3,200))
am=[l for l in observation_leaves(ea, ea.step_ts)]
obs=vfg.mk_attr(ea.step_ts,'observation')
m=vfg.mk_attr(obs,'action_mask')
print(sf.stale_reads(m))
print(txt(m,9,3000))
print('----')
# find the offending path
def path(value):
    seen=set(); stack=[(value,[])]
    while stack:
        n,p=stack.pop()
        if n.id in seen: continue
        seen.add(n.id)
        if sf.covered(n): continue
        if n.kind=='attr' and n.args[0] is ea.state and n.id not in sf.old_by_id: continue
        if n.id in sf.old_by_id:
            for q in p[-16:]: print('   ', q.kind, txt(q,3,150), 'type', vfg.typeof(q).name if vfg.typeof(q) else None)
            return
        for c in children(n): stack.append((c,p+[n]))
path(m)
upd=[t for t in deps(sf.new['agents']) if t.kind=='update'][0]
print(upd.args[0].kind, vfg.typeof(upd), vfg.typeof(upd.args[0]))
print('=====')
e=[t for t in deps(m) if t.kind=='attr' and t.args[1]=='position' and t.args[0].kind=='elem' and t.args[0].args[0] is sf.old['agents']]
for n in e:
    print(n.id in sf.stop_ids, [ (s.kind, txt(s,2,80)) for s in vfg.projection_of.get(n.id,())])
e=[t for t in deps(m) if t.kind=='attr' and t.args[1]=='position' and t.args[0].kind=='elem']
for n in e:
    a=n.args[0]
    print(a.args[0].kind, a.args[0] is sf.old['agents'], a.args[1:], n.id in sf.stop_ids, sf.covered(n))
print("#####")
b=[t for t in deps(m) if t.kind=='batched' and t.args[0].kind=='bin']
for x in b: print(txt(x.args[0].args[2],8,1500)); print()
print("@@@@@")
na=sf.new['agents']
el=vfg.wrap('elem', na) if hasattr(vfg,'wrap') else None
print(el.kind, txt(el,4,400))
print(txt(vfg.mk_attr(el,'connected'),6,600))
print(txt(vfg.mk_attr(el,'position'),6,600))
