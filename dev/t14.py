from jstat.engine import *
from jstat.rules.common import *
from jstat.rules.stale import *
from jstat.rules.validity import *
from jstat.rules.c05 import identity_guards
import sys
tree=get_tree()
name=sys.argv[1]
ci=[c for c in tree.environment_classes() if c.name==name][0]
ea=analyse_env(tree,ci); v=ea.vfg; sf=StepFlow(ea)
m=[dict(flat_fields(v,o)).get('action_mask') for o in observation_leaves(ea,ea.step_ts)][0]
mo=old_mask(ea,sf,m)
em=erase_action_index(mo,ea.action)
print('mask_old erased:',txt(em,7,900))
A=conj_forms(em); print('A',A)
for f in sf.fields:
    for g in identity_guards(sf.new[f], sf.old[f]):
        eg=erase_action_index(g,ea.action)
        print('guard',f,':',txt(eg,7,600)); B=conj_forms(eg); print('B',B); print(compare(mo,g,ea.action))
