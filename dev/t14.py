from jstat.engine import *
from jstat.rules.common import *
from jstat.rules.stale import *
from jstat.rules.validity import *
tree=get_tree()
ci=[c for c in tree.environment_classes() if c.name=='Connector'][0]
ea=analyse_env(tree,ci); v=ea.vfg; sf=StepFlow(ea)
m=[dict(flat_fields(v,o)).get('action_mask') for o in observation_leaves(ea,ea.step_ts)][0]
mo=old_mask(ea,sf,m)
print('mask_old:',txt(erase_action_index(mo,ea.action),9,1500))
# step side validity: find cond preds inside new agents
from jstat.rules.c05 import identity_guards
for g in identity_guards(sf.new['agents'], sf.old['agents']):
    print('guard:',txt(erase_action_index(g,ea.action),9,1500))
    print(conj_forms(erase_action_index(g,ea.action)))
print(conj_forms(erase_action_index(mo,ea.action)))
