from jstat.engine import *
from jstat.rules.common import txt
from jstat.terms import deps, contains, uncopy
from jstat.normal import strip_cast
tree=get_tree()
ci=[c for c in tree.environment_classes() if c.name=='LevelBasedForaging'][0]
ea=analyse_env(tree,ci); vfg=ea.vfg
agents=vfg.mk_attr(ea.state,'agents')
allpos=vfg.mk_attr(agents,'position')
print('agents', txt(agents,2,40), 'allpos', txt(allpos,2,50))
for t in deps(ea.step_result):
    if t.kind=='choice' and t.args[0]=='where' and len(t.args[2])==2:
        a,b=[uncopy(strip_cast(x)) for x in t.args[2]]
        for x in (a,b):
            if x.kind=='attr' and x.args[1]=='position':
                print('where alt', txt(x,3,60), '| pred has all positions:', contains(t.args[1], allpos), '| pred', txt(t.args[1],3,120))
