from jstat.engine import *
from jstat.rules.axis_rules import env_axes
from jstat.rules.common import txt, analyses
from jstat.normal import strip_cast
from jstat.axis import Axes
tree=get_tree()
def comp(ax,t):
    """(V, i) if t is component i of some term V"""
    t=ax.core(t)
    if t.kind=='proj' and t.args[1] in (0,1): return ax.core(t.args[0]), t.args[1]
    if t.kind=='index':
        b,i=t.args
        if i.kind=='const' and i.args[0] in (0,1): return ax.core(b), i.args[0]
        if i.kind=='tuple' and len(i.args[0])==2 and i.args[0][0].kind=='slice' and i.args[0][1].kind=='const' and i.args[0][1].args[0] in (0,1):
            return ax.core(b), i.args[0][1].args[0]
        if i.kind=='tuple' and len(i.args[0])==2 and i.args[0][0].kind=='ext' and i.args[0][1].kind=='const' and i.args[0][1].args[0] in (0,1):
            return ax.core(b), i.args[0][1].args[0]
    if t.kind=='attr' and t.args[1] in ('row','col'): return ax.core(t.args[0]), 0 if t.args[1]=='row' else 1
    return None
for ea in analyses(tree):
    ax,roots=env_axes(ea)
    al=rev=0
    for t in list(ax.terms.values()):
        if t.kind=='index' and t.args[1].kind=='tuple':
            pos=Axes.spatial_positions(t.args[1].args[0])
            if pos is None: continue
            a,b=t.args[1].args[0][pos[0]], t.args[1].args[0][pos[1]]
            ca,cb=comp(ax,a),comp(ax,b)
            if ca and cb and ca[0] is cb[0] and {ca[1],cb[1]}=={0,1}:
                if ca[1]==0: al+=1
                else:
                    rev+=1; print('   REV', ea.cls.name, txt(t,4,100), (t.meta or {}).get('loc'), 'vec?', ca[0].id in ax.vec, ax.why.get((ca[0].id,-1)))
    print(ea.cls.name,'aligned',al,'reversed',rev)
