import sys,time
from jstat.engine import *
from jstat.terms import show
tree=get_tree()
names=sys.argv[1:]
for ci in tree.environment_classes():
    if names and ci.name not in names: continue
    t=time.time()
    try:
        ea=analyse_env(tree,ci)
    except Exception as e:
        import traceback; traceback.print_exc(); print('FAIL',ci.name); continue
    print('==',ci.name, round(time.time()-t,2), 'funcs',len(ea.reset_funcs),len(ea.step_funcs),'opaques',len(ea.vfg.opaques), 'terms', len(tm.TT.table))
    if names:
        print(' reset_ts:',show(ea.reset_ts,5)[:1500])
        print(' step_state:',show(ea.step_state,4)[:3000])
        print(' step_ts:',show(ea.step_ts,5)[:3000])
    for o in ea.vfg.opaques[:12]: print('   ',o)
