import sys
from jstat.engine import *
from jstat.terms import show
tree=get_tree()
vfg=VFG(tree,Model(tree))
for cn in sys.argv[1:]:
    ci=tree.classes['jumanji.wrappers.'+cn]
    self_t=mk('self',ci.qual)
    for m in ('reset','step','render','_auto_reset'):
        f=tree.find_method(ci,m)
        if not f: continue
        ps=[mk('param',f.qual,p) for p in f.params[1:]]
        r=vfg.apply_func(f,self_t,f.cls,ps,{},None,None)
        print(cn,m,'=>',show(r,9))
f=tree.functions['jumanji.wrappers.add_obs_to_extras']
print(show(vfg.apply_func(f,None,None,[mk('param',f.qual,'timestep')],{},None,None),8))
print(vfg.opaques)
