from jstat.engine import *
from jstat.rules.common import analyses, leaves, txt, step_types, timestep_kind
tree=get_tree()
for ea in analyses(tree):
    vfg=ea.vfg; st=step_types(vfg)
    print('==', ea.cls.name)
    for l,path in leaves(ea.step_ts):
        if l.kind=='construct':
            rw=vfg.mk_attr(l,'reward')
            print('   ', timestep_kind(vfg,l,st), txt(rw,5,300))
