from jstat.engine import *
from jstat.rules.common import *
from jstat.rules import c01
from jstat.shapes import dims_from_shape_arg, fmt
tree=get_tree()
for ci in tree.environment_classes():
    ea=analyse_env(tree,ci); v=ea.vfg
    spec=v.mk_attr(ea.self_t,'observation_spec'); sp={}
    for p,leaf in c01.spec_paths(v,spec): sp.setdefault(p,[]).append(leaf)
    asp=v.mk_attr(ea.self_t,'action_spec')
    ai=c01.spec_args(asp)
    masks=[(p,c01.spec_args(l)) for p,ls in sp.items() if p.endswith('action_mask') for l in ls]
    print(ci.name,'| action:',ai[0] if ai else txt(asp,3,60), txt(ai[1].get('num_values'),4,70) if ai and 'num_values' in ai[1] else (fmt(dims_from_shape_arg(ai[1].get('shape'),v)) if ai else ''),'| mask:',[fmt(dims_from_shape_arg(i[1].get('shape'),v)) for p,i in masks if i])
