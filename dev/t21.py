from jstat.engine import *
from jstat.rules.common import *
from jstat.rules.stale import *
from jstat.normal import ext_name
from jstat.terms import deps
tree=get_tree()
for ci in tree.environment_classes():
    ea=analyse_env(tree,ci); sf=StepFlow(ea)
    for t in deps(ea.step_result):
        if ext_name(t) in ('jax.random.choice','jax.random.categorical'):
            kw=dict(t.args[2]); p=kw.get('p')
            if p is None: continue
            print(ci.name, 'stale reads of p:', sf.stale_reads(p), txt(p,3,100))
