from jstat.engine import *
from jstat.terms import show
tree=get_tree(); v=VFG(tree,Model(tree))
for n in ('parse_env_id','get_env_id','register','make','_check_registration_is_allowed'):
    f=tree.functions['jumanji.registration.'+n]
    a=f.node.args
    ps=[mk('param',f.qual,p) for p in f.params]
    kw={}
    if a.kwarg: kw['**']=mk('param',f.qual,a.kwarg.arg)
    if a.vararg: ps.append(mk('star',mk('param',f.qual,a.vararg.arg)))
    r=v.apply_func(f,None,None,ps,kw,None,None)
    print(n,'=>',show(r,8))
for e in v.events: print(e.kind, e.func.name, e.name, show(e.target,4) if e.target is not None else None, '<-', show(e.value,4) if e.value is not None else None, show(e.extra,3) if e.extra is not None else '')
print(v.opaques)
