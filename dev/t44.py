from jstat.engine import *
from jstat.model import Model
from jstat.terms import mk, uncopy
from jstat.rules.common import txt
tree=get_tree()
ci=tree.classes['jumanji.specs.DiscreteArray']
eq=ci.methods['__eq__']
v=VFG(tree,Model(tree))
other=mk('param',eq.qual,eq.params[1])
r=v.apply_func(eq, mk('self',ci.qual), ci, [other], {}, None, None)
print(txt(uncopy(r),6,400))
