import sys
from jstat.engine import *
from jstat.rules.common import *
from jstat.rules.stale import *
from jstat.rules import c01
from jstat.shapes import Shapes, fmt, definitely_different, dims_from_shape_arg
tree=get_tree()
tot=known=0; mism=0
for ci in tree.environment_classes():
    if sys.argv[1:] and ci.name not in sys.argv[1:]: continue
    ea=analyse_env(tree,ci); v=ea.vfg
    sfields=tree.fields(ea.state_cls)
    # shapes of state fields from reset
    sh0=Shapes(v)
    given={}
    rs={}
    for f in sfields:
        val=v.mk_attr(ea.reset_state,f)
        s=sh0.of(val); rs[f]=s
        if s is not None: given[v.mk_attr(ea.state,f).id]=s
    # nested record fields
    sh=Shapes(v,given)
    # action shape
    spec=v.mk_attr(ea.self_t,'observation_spec'); sp={}
    for p,leaf in c01.spec_paths(v,spec): sp.setdefault(p,[]).append(leaf)
    for which,ts,S in (('reset',ea.reset_ts,sh0),('step',ea.step_ts,sh)):
        for o in observation_leaves(ea,ts):
            if o.kind!='construct': continue
            for path,val in flat_fields(v,o):
                s=S.of(val); tot+=1
                if s is not None: known+=1
                for leaf in sp.get(path,[]):
                    info=c01.spec_args(leaf)
                    if not info: continue
                    if info[0] in ('DiscreteArray',): ss=()
                    elif info[0]=='MultiDiscreteArray': ss=None
                    else: ss=dims_from_shape_arg(info[1].get('shape'), v)
                    dd=definitely_different(s,ss)
                    if dd: mism+=1; print('MISMATCH',ci.name,which,path,fmt(s),'spec',fmt(ss),dd)
    new={f:v.mk_attr(ea.step_state,f) for f in sfields}
    for f in sfields:
        s1=sh.of(new[f]); 
        dd=definitely_different(rs[f],s1)
        if dd: print('STATE-MISMATCH',ci.name,f,fmt(rs[f]),'step',fmt(s1),dd)
    print(ci.name,'state shapes:',{f:fmt(rs[f]) for f in sfields if rs[f] is not None}, 'unknown:',[f for f in sfields if rs[f] is None][:8])
print('obs leaves',tot,'shape known',known,'mismatches',mism)
