import sys
from jstat.engine import *
from jstat.terms import show, uncopy
tree=get_tree()
for cn in ('JumanjiToDMEnvWrapper','JumanjiToGymWrapper','MultiToSingleWrapper'):
    ci=tree.classes['jumanji.wrappers.'+cn]
    v=VFG(tree,Model(tree)); self_t=mk('self',ci.qual)
    init=tree.find_method(ci,'__init__')
    ps=[mk('param',init.qual,p) for p in init.params[1:]]
    v.apply_func(init,self_t,ci,ps,{},None,None)
    for e in v.events:
        if e.kind=='store_attr' and e.target is self_t: print(cn,'init store',e.name,'<-',show(e.value,4)[:120])
    attrs={e.name:e.value for e in v.events if e.kind=='store_attr' and e.target is self_t and e.value.kind in('fn','attr','param')}
    v2=VFG(tree,Model(tree)); v2.instance_attrs={k:val for k,val in attrs.items() if k not in ('_key','_state')}
    for m in ('reset','step','seed','_aggregate_timestep'):
        f=ci.methods.get(m)
        if not f: continue
        a=f.node.args
        ps=[mk('param',f.qual,p) for p in f.params[1:]]
        kw={x.arg:mk('param',f.qual,x.arg) for x in a.kwonlyargs}
        n0=len(v2.events)
        r=uncopy(v2.apply_func(f,self_t,ci,ps,kw,None,None))
        print(cn,m,'=>',show(r,7)[:900])
        for e in v2.events[n0:]:
            if e.kind=='store_attr': print('     store',e.name,'<-',show(uncopy(e.value),6)[:200])
