from jstat.engine import *
from jstat.rules.common import *
from jstat.rules.c15 import init_attrs
from jstat.model import Model
tree=get_tree()
for n in ["Spec","Array","BoundedArray","DiscreteArray","MultiDiscreteArray"]:
    ci=tree.classes["jumanji.specs."+n]
    v,ia,ip=init_attrs(tree,ci)
    print(n, {k:[txt(x,4,80) for x in vs] for k,vs in ia.items()}, list(ip))
    self_t=mk("self",ci.qual)
    for c in tree.mro(ci):
        for name,f in c.methods.items():
            if f.is_property:
                vv=VFG(tree,Model(tree))
                r=vv.apply_func(f,self_t,ci,[],{},None,None)
                print('   prop',c.name,name,txt(r,3,60))
    red=tree.find_method(ci,"__reduce__")
    if red:
        vv=VFG(tree,Model(tree)); print('   reduce', txt(vv.apply_func(red,self_t,ci,[],{},None,None),5,200))
