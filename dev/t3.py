import sys
from jstat.engine import *
from jstat.terms import show
from jstat.rules.common import *
tree=get_tree()
names=sys.argv[1:]
for ci in tree.environment_classes():
    if names and ci.name not in names: continue
    ea=analyse_env(tree,ci); v=ea.vfg
    st=step_types(v)
    print('==',ci.name)
    for which,ts in (('reset',ea.reset_ts),('step',ea.step_ts)):
        for l,path in leaves(ts):
            k=timestep_kind(v,l,st)
            if l.kind!='construct': print('  ',which,'NONCONSTRUCT',show(l,3)[:200]); continue
            print('  ',which,k,'reward=',show(v.mk_attr(l,'reward'),3)[:90],'| discount=',show(v.mk_attr(l,'discount'),4)[:120], '| extras=',show(v.mk_attr(l,'extras'),2)[:60])
