from jstat.engine import *
from jstat.rules.common import analyses, txt, leaves
from jstat.rules.stale import StepFlow, observation_leaves
from jstat.rules.views import flat_fields
from jstat.rules.validity import old_mask
from jstat.terms import uncopy, deps
from jstat.normal import strip_cast, ext_name
tree=get_tree()
def set_true_chain(new, old):
    """new is old after .at[..].set(True) (possibly under cond/where with old)"""
    t=uncopy(strip_cast(new))
    for _ in range(6):
        if t is old: return True
        if t.kind=='choice':
            alts=[uncopy(strip_cast(a)) for a in t.args[2]]
            if any(a is old for a in alts):
                others=[a for a in alts if a is not old]
                return all(set_true_chain(a, old) for a in others)
            return False
        if t.kind=='call' and t.args[0].kind=='attr' and t.args[0].args[1]=='set' and t.args[1] and strip_cast(t.args[1][0]).kind=='const' and strip_cast(t.args[1][0]).args[0] is True:
            b=t.args[0].args[0]
            if b.kind=='index' and b.args[0].kind=='attr' and b.args[0].args[1]=='at':
                t=uncopy(strip_cast(b.args[0].args[0])); continue
        return False
    return False
for ea in analyses(tree):
    try: sf=StepFlow(ea)
    except Exception as e: continue
    flags=[f for f in sf.fields if f in sf.superseded and set_true_chain(sf.new[f], sf.old[f]) and sf.new[f] is not sf.old[f]]
    if flags: print(ea.cls.name, flags)
print('----')
from jstat.rules import bounds_rules as B
class FakeAx:
    def __init__(self, terms): self.terms=terms
for ea in analyses(tree):
    if ea.cls.name not in ('BinPack','FlatPack','Knapsack','TSP'): continue
    sf=StepFlow(ea); vfg=ea.vfg
    flags=[f for f in sf.fields if f in sf.superseded and set_true_chain(sf.new[f], sf.old[f])]
    masks=[dict(flat_fields(vfg,o)).get('action_mask') for o in observation_leaves(ea, ea.step_ts)]
    masks=[old_mask(ea,sf,m) for m in masks if m is not None]
    for m in masks:
        universe={d.id:d for d in deps(m)}
        atoms={}
        for d in universe.values():
            d0=strip_cast(d)
            base=d0
            while base.kind in ('index','elem','copy') : base=base.args[0]
            if base.kind=='attr' and base.args[0] is ea.state and base.args[1] in flags and d0.kind in ('index','elem','attr'):
                # only maximal reads: skip if a parent read also in universe? keep all; formula detection decides
                atoms[d0.id]=(d0,'flag',None,False,True,txt(d0,3,50))
        ax=FakeAx(universe)
        Fs=B.formulas_with_atoms(ax, atoms)
        print(ea.cls.name, 'atoms', len(atoms), 'formulas', len(Fs))
        for F in Fs:
            print('   ', B.decisive(ax,F,atoms), '|', txt(F,4,150))
