from jstat.engine import *
from jstat import shapes
tree=get_tree()
vfg=VFG(tree, Model(tree)) if False else None
from jstat.model import Model
v=VFG(tree,Model(tree))
shapes.canon(v,'x')
al=shapes._ALIAS[id(tree)]
groups={}
for k,r in al.items(): groups.setdefault(r,[]).append(k)
for r,ks in sorted(groups.items()):
    if len(ks)>1: print(r, sorted(ks))
