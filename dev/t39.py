from jstat.engine import *
from jstat.rules.common import analyses, txt
from jstat.terms import deps
from jstat.normal import strip_cast, ext_name
from jstat.rules.axis_rules import site_of
tree=get_tree()
def lit_table(t):
    """nested list literal of ints in {-1,0,1} under jnp.array(...)"""
    t=strip_cast(t)
    if ext_name(t) in ('jax.numpy.array','jax.numpy.asarray','numpy.array') and t.args[1]:
        t=t.args[1][0]
    def rows(x):
        if x.kind in ('list','tuple'):
            return [rows(y) for y in x.args[0]]
        if x.kind=='const' and isinstance(x.args[0],int): return x.args[0]
        if x.kind=='un' and x.args[0]=='-' and x.args[1].kind=='const': return -x.args[1].args[0]
        raise ValueError
    try:
        r=rows(t)
    except Exception: return None
    if isinstance(r,list) and r and all(isinstance(x,list) and len(x)==2 and all(isinstance(v,int) and abs(v)<=1 for v in x) for x in r): return r
    return None
def from_table(t, depth=0):
    t=strip_cast(t)
    if depth>6: return None
    lt=lit_table(t)
    if lt: return lt
    if t.kind in ('index','elem','proj','copy','batched'): return from_table(t.args[0],depth+1)
    if t.kind=='call' and t.args[0].kind=='attr' and t.args[0].args[1] in ('squeeze','astype') : return from_table(t.args[0].args[0],depth+1)
    if ext_name(t) in ('jax.numpy.squeeze',) and t.args[1]: return from_table(t.args[1][0],depth+1)
    if t.kind=='choice': 
        for a in t.args[2]:
            r=from_table(a,depth+1)
            if r: return r
    return None
for ea in analyses(tree):
    seen=set()
    for root in (ea.reset_result, ea.step_result):
        for t in deps(root):
            if t.kind=='bin' and t.args[0] in ('+','-'):
                for side,x in (('L',t.args[1]),('R',t.args[2])):
                    tb=from_table(x)
                    if tb:
                        loc,fn,src=site_of(t)
                        if (fn,src) in seen: continue
                        seen.add((fn,src))
                        print(ea.cls.name, t.args[0], side, fn.split('.')[-1], '|', src[:70])
