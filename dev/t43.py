from jstat.engine import *
from jstat.rules.common import analyses, txt
from jstat.rules.stale import StepFlow, observation_leaves
from jstat.rules.views import flat_fields
from jstat.terms import contains, deps, uncopy
from jstat.normal import strip_cast
tree=get_tree()
for ea in analyses(tree):
    if ea.state_cls is None: continue
    vfg=ea.vfg
    fields=tree.fields(ea.state_cls)
    pads=[f for f in fields if f.endswith('_mask') and f!='action_mask']
    if not pads: continue
    for which,ts,st in (('reset',ea.reset_ts,ea.reset_state),('step',ea.step_ts,ea.step_state)):
        masks=[dict(flat_fields(vfg,o)).get('action_mask') for o in observation_leaves(ea, ts)]
        masks=[m for m in masks if m is not None]
        for f in pads:
            fv=uncopy(strip_cast(vfg.mk_attr(st,f)))
            dep=[any(x is fv or (x.kind=='attr' and x.args[1]==f) for x in deps(m)) for m in masks]
            print(ea.cls.name, which, f, dep)
