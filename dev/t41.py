from jstat.engine import get_tree
from jstat.report import Result
from jstat.rules import move_rules
tree=get_tree(); res=Result()
print(move_rules.write_order_obligations(res,tree,'X'))
for o in res.obligations: print(o.ok, o.func.split('.')[-2:], o.construct[:120])
