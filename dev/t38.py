from jstat.engine import *
from jstat.rules.common import analyses, txt, leaves
from jstat.rules.stale import StepFlow, observation_leaves
from jstat.rules.views import flat_fields
from jstat.rules.validity import old_mask
from jstat.terms import uncopy, deps
from jstat.normal import strip_cast
tree=get_tree()
for name in ('BinPack','FlatPack'):
    ci=[c for c in tree.environment_classes() if c.name==name][0]
    ea=analyse_env(tree,ci); vfg=ea.vfg; sf=StepFlow(ea)
    f={'BinPack':'items_placed','FlatPack':'placed_blocks'}[name]
    print(name,'new[f]=',txt(sf.new[f],4,200))
    masks=[dict(flat_fields(vfg,o)).get('action_mask') for o in observation_leaves(ea, ea.step_ts)]
    for m in masks[:1]:
        print(' mask', txt(m,3,200))
        mo=old_mask(ea,sf,m)
        print(' old ', txt(mo,3,200))
        for d in deps(mo):
            if d.kind=='attr' and d.args[1]==f: print('   read', txt(d,3,120), d.args[0] is ea.state)
        # reset mask
    rm=[dict(flat_fields(vfg,o)).get('action_mask') for o in observation_leaves(ea, ea.reset_ts)]
    for m in rm[:1]:
        print(' reset mask', txt(m,3,200))
        for d in deps(m):
            if d.kind=='attr' and d.args[1]==f: print('   read', txt(d,3,120))
print('=======')
from jstat.rules.validity import rewrite
from jstat.rules import bounds_rules as B
class FakeAx:
    def __init__(self, terms): self.terms=terms
for name in ('BinPack','FlatPack','Knapsack','TSP'):
    ci=[c for c in tree.environment_classes() if c.name==name][0]
    ea=analyse_env(tree,ci); vfg=ea.vfg; sf=StepFlow(ea)
    f={'BinPack':'items_placed','FlatPack':'placed_blocks','Knapsack':'packed_items','TSP':'visited_mask'}[name]
    mapping={}
    for g in sf.fields:
        if g in sf.superseded and 'mask' not in g or g==f:
            new,old=sf.new[g],sf.old[g]
            mapping[new.id]=old; mapping.setdefault(strip_cast(new).id, old)
            if new.kind=='batched': mapping.setdefault(new.args[0].id, vfg.wrap('elem', old))
    masks=[dict(flat_fields(vfg,o)).get('action_mask') for o in observation_leaves(ea, ea.step_ts)]
    m=rewrite(masks[0], mapping, None, vfg)
    universe={d.id:d for d in deps(m)}
    atoms={}
    for d in universe.values():
        d0=strip_cast(d); base=d0
        while base.kind in ('index','elem','copy','batched'): base=base.args[0]
        if base.kind=='attr' and base.args[0] is ea.state and base.args[1]==f:
            atoms[d0.id]=(d0,'flag',None,False,True,txt(d0,3,50))
    ax=FakeAx(universe)
    Fs=B.formulas_with_atoms(ax, atoms)
    print(name,'atoms',[txt(a[0],3,60) for a in atoms.values()],'formulas',len(Fs))
    for F in Fs: print('   ', B.decisive(ax,F,atoms)[0], '|', txt(F,4,200))
