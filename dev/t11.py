import sys
from jstat.engine import *
from jstat.rules.common import *
from jstat.rules.stale import *
tree=get_tree()
names=sys.argv[1:]
for ci in tree.environment_classes():
    if names and ci.name not in names: continue
    ea=analyse_env(tree,ci); v=ea.vfg
    print('==',ci.name)
    ss=ea.step_state
    if ss.kind=='choice': print('   state choice pred:', txt(ss.args[1],6,300))
    try:
        for c in last_conditions(ea): print('   LAST if', txt(c,5,200))
    except Exception as e: print('   ERR',e)
    for o in observation_leaves(ea, ea.step_ts):
        m=dict(flat_fields(v,o)).get('action_mask')
        if m is not None: print('   obs mask:', txt(m,6,400))
