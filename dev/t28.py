from jstat.engine import *
from jstat.rules.axis_rules import env_axes, check_sites
from jstat.rules.common import txt
tree=get_tree()
ci=[c for c in tree.environment_classes() if c.name=='Minesweeper'][0]
ea=analyse_env(tree,ci)
ax,roots=env_axes(ea)
conf=ax.bind_conflicts()
for s in check_sites(ea,ax,conf): print(s['kind'], s['ok'], s['detail'][:200])
for t in ax.terms.values():
    if t.kind=='index' and t.args[0].kind=='attr' and t.args[0].args[1]=='shape':
        print('SHAPE', txt(t,4,80), ax.kind(t), ax._is_2d(t.args[0].args[0]))
