from jstat.engine import *
from jstat.rules.axis_rules import env_axes, site_of
from jstat.rules.common import txt, analyses
from jstat.normal import strip_cast
tree=get_tree()
def roles(ax,t):
    c=ax.core(t); return sorted(ax.ax.get(c.id,())), c.id in ax.vec
for ea in analyses(tree):
    ax,roots=env_axes(ea)
    ax.bind_conflicts()
    seen=set()
    for t in list(ax.terms.values()):
        if t.kind=='cmp' and t.args[0] in ('<','<=','>','>='):
            a,b=t.args[1],t.args[2]
            ra,rb=roles(ax,a),roles(ax,b)
            ext_a=any(r=='ext' for r,_ in ra[0]); ext_b=any(r=='ext' for r,_ in rb[0])
            if not (ext_a or ext_b): continue
            X,E=(b,a) if ext_a else (a,b)
            rx=roles(ax,X)
            loc,fn,src=site_of(t)
            if (fn,src) in seen: continue
            seen.add((fn,src))
            print(f"{ea.cls.name:14s} {fn.split('.')[-1][:24]:24s} {src[:56]:56s} | X roles={rx[0]} vec={rx[1]} | E={txt(E,2,30)}")
