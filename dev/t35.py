from jstat.engine import get_tree
from jstat.report import Result
from jstat.rules import bounds_rules
tree=get_tree()
res=Result()
n=bounds_rules.add_obligations(res,tree,"B","all")
for o in res.obligations:
    print({True:'ok ',False:'BAD',None:'?  '}[o.ok], o.func.split('.')[-2:], '|', o.construct[:90], '|', o.detail[:110])
print(n, res.extra)
