import sys,time
from jstat.engine import *
from jstat.terms import show
tree=get_tree()
names=sys.argv[1:]
for ci in tree.environment_classes():
    if names and ci.name not in names: continue
    ea=analyse_env(tree,ci)
    ts=ea.step_ts
    print('==',ci.name, ts.kind, ts.args[0] if ts.kind=='choice' else '')
    if ts.kind=='choice':
        print('   pred:',show(ts.args[1],7)[:700])
        for a in ts.args[2]:
            print('   alt:', a.kind, show(vfg_attr(ea,a,'step_type')) if False else show(ea.vfg.mk_attr(a,'step_type'),3)[:200])
    else:
        print('   ', show(ts,3)[:600])
    sc=ea.vfg.mk_attr(ea.step_state,'step_count')
    print('   step_count:', show(sc,4)[:300])
    print('   reset step_count:', show(ea.vfg.mk_attr(ea.reset_state,'step_count'),4)[:300], '| reset ts kind', ea.reset_ts.kind)
