from jstat.engine import *
from jstat.rules.axis_rules import env_axes
from jstat.rules.common import txt, analyses
tree=get_tree()
for ea in analyses(tree):
    ax,roots=env_axes(ea)
    ax.bind_conflicts()
    for tid,kinds in ax.ax.items():
        if ("idx",0) in kinds and ("idx",1) in kinds:
            t=ax.terms[tid]
            print(ea.cls.name, txt(t,3,60), '|', ax.why_all.get((tid,'idx',0)), '|', ax.why_all.get((tid,'idx',1)), '|', (t.meta or {}).get('loc'))
