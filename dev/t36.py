from jstat.engine import *
from jstat.rules.common import txt, leaves, last_conditions
from jstat.terms import uncopy
from jstat.normal import strip_cast, negand
tree=get_tree()
ci=[c for c in tree.environment_classes() if c.name=='Knapsack'][0]
ea=analyse_env(tree,ci); vfg=ea.vfg
obs=vfg.mk_attr(ea.step_ts,'observation')
m=vfg.mk_attr(obs,'action_mask')
print('obs kind', obs.kind, 'mask kind', m.kind, txt(m,3,200))
for l,_ in leaves(m): print('  leaf', l.kind, l.id, txt(l,3,100))
for d in last_conditions(ea):
    n=negand(d)
    if n is not None and n.kind=='call':
        a=uncopy(strip_cast(n.args[1][0])); print(' disj arg', a.kind, a.id, txt(a,3,100))
