import sys,ast
from jstat.engine import *
from jstat.rules.common import *
from jstat.rules.c02 import Fresh
tree=get_tree()
for ci in tree.environment_classes():
    ea=analyse_env(tree,ci); fr=Fresh(ea)
    for e in ea.vfg.events:
        if e.kind in ('store_attr','store_sub','mutate'):
            print(ci.name, e.kind, fr.cls(e.target), e.loc().split('/')[-2:], ast.unparse(e.node)[:50], '<-', e.target.kind, txt(e.target,2,60))
