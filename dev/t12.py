import sys
from jstat.engine import *
from jstat.rules.common import *
from jstat.rules.stale import *
tree=get_tree()
want={'Maze':['agent_position'],'SlidingTilePuzzle':['puzzle','empty_tile_position'],'FlatPack':['grid','placed_blocks'],'Game2048':['board'],'Sokoban':['agent_location','variable_grid'],'PacMan':['player_locations'],'Connector':['agents','grid'],'RobotWarehouse':['agents','grid'],'LevelBasedForaging':['agents'],'Cleaner':['agents_locations','grid'],'BinPack':['ems','items_placed','items_location','ems_mask'],'CVRP':['position','capacity'],'Knapsack':['packed_items'],'TSP':['position']}
for ci in tree.environment_classes():
    if ci.name not in want: continue
    ea=analyse_env(tree,ci); sf=StepFlow(ea)
    print('==',ci.name)
    for f in want[ci.name]:
        print('  ',f,':',sf.new[f].kind, txt(sf.new[f],5,500))
