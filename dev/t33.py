from jstat.engine import *
from jstat.rules.axis_rules import env_axes, site_of
from jstat.rules.common import txt, analyses
from jstat.normal import strip_cast, linear, ge_form
tree=get_tree()
for ea in analyses(tree):
    ax,roots=env_axes(ea)
    ax.bind_conflicts()
    seen=set()
    for t in list(ax.terms.values()):
        if t.kind=='cmp' and t.args[0] in ('<','<=','>','>='):
            a,b=t.args[1],t.args[2]
            ka,kb=ax.kind(a),ax.kind(b)
            ca,cb=strip_cast(a),strip_cast(b)
            desc=None
            if ka and ka[0]=='idx' and (kb and kb[0]=='ext' or cb.kind=='const'): desc=(a,b)
            elif kb and kb[0]=='idx' and (ka and ka[0]=='ext' or ca.kind=='const'): desc=(b,a)
            if desc:
                loc,fn,src=site_of(t)
                if (fn,src) in seen: continue
                seen.add((fn,src))
                print(f"{ea.cls.name:18s} {fn.split('.')[-1]:28s} {src[:60]:60s} | {txt(t,3,70)} | idx-why: {ax.reason(desc[0])[:50]}")
