from jstat.engine import *
from jstat.rules.common import analyses, txt
from jstat.terms import deps, uncopy
from jstat.normal import strip_cast, ext_name
from jstat.rules.axis_rules import site_of
tree=get_tree()
def at_set(t):
    """(base, idx, val, method) for base.at[idx].set(val)"""
    t=uncopy(strip_cast(t))
    if t.kind=='call' and t.args[0].kind=='attr' and t.args[0].args[1] in ('set','add') and t.args[1]:
        b=t.args[0].args[0]
        if b.kind=='index' and b.args[0].kind=='attr' and b.args[0].args[1]=='at':
            return b.args[0].args[0], b.args[1], t.args[1][0], t.args[0].args[1]
    return None
def is_clear(v):
    v=strip_cast(v)
    return v.kind=='const' and v.args[0] in (0, False)
for ea in analyses(tree):
    seen=set()
    for root in (ea.reset_result, ea.step_result):
        for t in deps(root):
            o=at_set(t)
            if not o: continue
            i=at_set(o[0])
            if not i: continue
            if o[3]!='set' or i[3]!='set': continue
            if is_clear(o[2])==is_clear(i[2]): continue
            loc,fn,src=site_of(t)
            if (fn,src) in seen: continue
            seen.add((fn,src))
            order='clear-then-place' if is_clear(i[2]) else 'PLACE-THEN-CLEAR'
            print(ea.cls.name, order, fn.split('.')[-1], '|', src[:80], '| idx', txt(i[1],2,30), '->', txt(o[1],2,30))
