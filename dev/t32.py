from jstat.engine import *
from jstat.rules.common import analyses, leaves, txt
from jstat.terms import uncopy
tree=get_tree()
for ea in analyses(tree):
    vfg=ea.vfg
    for f,vars_,caller,node,result in vfg.callsites:
        if 'reward' in f.qual.lower() and f.name=='__call__':
            print(ea.cls.name, f.qual.split('.')[-2], caller.name if caller else None, {k:txt(uncopy(v),2,40) for k,v in vars_.items() if k!='self'})
