"""Normal forms on value-flow terms: casts stripped, disjunction / conjunction flattening,
structural negation, integer-linear form `base + k`, comparison form X >= Y + k."""
from __future__ import annotations

from typing import List, Optional, Tuple

from .terms import NONE, T, const, mk

CAST_FUNCS = {"jax.numpy.array", "jax.numpy.asarray", "jax.numpy.astype", "jax.numpy.int32", "jax.numpy.int16",
              "jax.numpy.int8", "jax.numpy.float32", "jax.numpy.bool_", "jax.numpy.squeeze",
              "builtins.bool", "builtins.int", "builtins.float", "jax.numpy.uint8", "jax.numpy.int64",
              "jax.numpy.float_", "jax.numpy.float64", "numpy.asarray", "numpy.array"}


def ext_name(t: T) -> Optional[str]:
    if t.kind == "call" and t.args[0].kind == "ext":
        return t.args[0].args[0]
    return None


def call_args(t: T):
    return t.args[1], dict(t.args[2])


def strip_cast(t: T) -> T:
    while True:
        if t.kind == "copy":
            t = t.args[0]
            continue
        n = ext_name(t)
        if n in CAST_FUNCS and t.args[1]:
            t = t.args[1][0]
            continue
        return t


BOOL_CALLS = {"any", "all", "array_equal", "isin", "logical_and", "logical_or", "logical_not", "logical_xor", "greater", "less",
              "equal", "not_equal", "greater_equal", "less_equal", "isclose", "allclose"}
INT_CASTS = {"jax.numpy.astype", "jax.numpy.int32", "jax.numpy.int16", "jax.numpy.int8", "jax.numpy.int64", "builtins.int",
             "jax.numpy.asarray", "jax.numpy.array"}


def boolean_shaped(t: T) -> bool:
    """The root of t is a boolean connective, comparison or boolean reduction (used to read
    `switch(int(b), [f0, f1])` as `cond(b, f1, f0)`)."""
    t = strip_cast(t)
    if t.kind == "cmp":
        return True
    if t.kind == "const":
        return isinstance(t.args[0], bool)
    if t.kind == "un":
        return t.args[0] in ("not", "~")
    if t.kind == "bin" and t.args[0] in ("|", "&", "^"):
        return boolean_shaped(t.args[1]) or boolean_shaped(t.args[2])
    if t.kind == "bool":
        return True
    n = ext_name(t)
    if n is not None and n.split(".")[-1] in BOOL_CALLS:
        return True
    if t.kind == "call" and t.args[0].kind == "attr" and t.args[0].args[1] in ("any", "all", "last", "first", "mid"):
        return True
    return False


def bool_index(idx: T) -> Optional[T]:
    """b when idx is an explicit integer cast of a boolean-shaped term b."""
    n = ext_name(idx)
    if idx.kind == "copy":
        return bool_index(idx.args[0])
    if n in INT_CASTS and idx.args[1]:
        inner = idx.args[1][0]
        if boolean_shaped(inner):
            return inner
        return bool_index(inner)
    return None


def flatten(t: T, ops: Tuple[str, ...], bool_op: str) -> List[T]:
    t = strip_cast(t)
    if t.kind == "bin" and t.args[0] in ops:
        return flatten(t.args[1], ops, bool_op) + flatten(t.args[2], ops, bool_op)
    if t.kind == "bool" and t.args[0] == bool_op:
        out = []
        for x in t.args[1]:
            out += flatten(x, ops, bool_op)
        return out
    # any / logical_or.reduce (all / logical_and.reduce) over a literal collection of scalar conditions:
    # jnp.any(jnp.stack([a, b, c])), jnp.logical_or.reduce(jnp.array([a, b, c])), any([a, b, c])
    n = ext_name(t)
    red = {"or": ("jax.numpy.any", "numpy.any", "builtins.any", "jax.numpy.logical_or.reduce", "numpy.logical_or.reduce"),
           "and": ("jax.numpy.all", "numpy.all", "builtins.all", "jax.numpy.logical_and.reduce", "numpy.logical_and.reduce")}[bool_op]
    if n in red and len(t.args[1]) == 1 and not t.args[2]:
        inner = t.args[1][0]
        while ext_name(inner) in ("jax.numpy.stack", "jax.numpy.array", "jax.numpy.asarray", "numpy.array", "numpy.stack", "jax.numpy.hstack") \
                and len(inner.args[1]) >= 1:
            inner = inner.args[1][0]
        if inner.kind in ("list", "tuple") and inner.args[0] and not any(x.kind == "star" for x in inner.args[0]):
            out = []
            for x in inner.args[0]:
                out += flatten(x, ops, bool_op)
            return out
    # functools.reduce(jnp.logical_or, (a, b, c)) / reduce(operator.or_, [a, b, c])
    if n == "functools.reduce" and len(t.args[1]) == 2 and t.args[1][1].kind in ("tuple", "list") and t.args[1][0].kind == "ext":
        fn_ = t.args[1][0].args[0]
        want = {"or": ("jax.numpy.logical_or", "numpy.logical_or", "operator.or_", "jax.numpy.bitwise_or"),
                "and": ("jax.numpy.logical_and", "numpy.logical_and", "operator.and_", "jax.numpy.bitwise_and")}[bool_op]
        if fn_ in want and not any(x.kind == "star" for x in t.args[1][1].args[0]):
            out = []
            for x in t.args[1][1].args[0]:
                out += flatten(x, ops, bool_op)
            return out
    # jnp.any over a single scalar disjunct (MultiCVRP: jnp.any(step_count > horizon))
    return [t]


def neg(t: T) -> T:
    """structural negation: not(not x) = x, comparisons are inverted, everything else is wrapped in `~`"""
    s = strip_cast(t)
    if s.kind == "un" and s.args[0] in ("~", "not"):
        return s.args[1]
    if s.kind == "bin" and s.args[0] == "-" and s.args[1].kind == "const" and s.args[1].args[0] == 1:
        return s.args[2]
    if s.kind == "const" and isinstance(s.args[0], bool):
        return mk("const", not s.args[0])
    return mk("un", "~", s)


def disjuncts(t: T) -> List[T]:
    """flattened disjunction; De Morgan: not(a & b) contributes not a, not b"""
    out = []
    for d in flatten(t, ("|",), "or"):
        n = negand(d)
        if n is not None:
            cs = flatten(n, ("&",), "and")
            if len(cs) > 1:
                for c in cs:
                    out += disjuncts(neg(c))
                continue
        out.append(d)
    return out


def conjuncts(t: T) -> List[T]:
    """flattened conjunction; De Morgan: not(a | b) contributes not a, not b"""
    out = []
    for c in flatten(t, ("&",), "and"):
        n = negand(c)
        if n is not None:
            ds = flatten(n, ("|",), "or")
            if len(ds) > 1:
                for d in ds:
                    out += conjuncts(neg(d))
                continue
        out.append(c)
    return out


def is_negation(a: T, b: T) -> bool:
    """a == not b, structurally (after stripping casts)."""
    a, b = strip_cast(a), strip_cast(b)
    for x, y in ((a, b), (b, a)):
        if x.kind == "un" and x.args[0] in ("~", "not") and strip_cast(x.args[1]) is y:
            return True
        if x.kind == "bin" and x.args[0] == "-" and x.args[1].kind == "const" and x.args[1].args[0] == 1 \
                and strip_cast(x.args[2]) is y:
            return True
        if x.kind == "cmp" and y.kind == "cmp" and x.args[1] is y.args[1] and x.args[2] is y.args[2]:
            inv = {"<": ">=", ">=": "<", ">": "<=", "<=": ">", "==": "!=", "!=": "=="}
            if inv.get(x.args[0]) == y.args[0]:
                return True
    return False


_DUAL = {"jax.numpy.any": "jax.numpy.all", "jax.numpy.all": "jax.numpy.any", "numpy.any": "numpy.all", "numpy.all": "numpy.any",
         "builtins.any": "builtins.all", "builtins.all": "builtins.any"}


def negand(t: T) -> Optional[T]:
    """If t is `not x` return x.  any(~y) is not all(y), all(~y) is not any(y) (quantifier duality)."""
    t = strip_cast(t)
    n_ = ext_name(t)
    if n_ in _DUAL and len(t.args[1]) == 1:
        inner = negand(t.args[1][0])
        if inner is not None:
            return mk("call", mk("ext", _DUAL[n_]), (inner,), t.args[2])
    if t.kind == "call" and t.args[0].kind == "attr" and t.args[0].args[1] in ("any", "all") and not t.args[1]:
        inner = negand(t.args[0].args[0])
        if inner is not None:
            return mk("call", mk("ext", "jax.numpy." + {"any": "all", "all": "any"}[t.args[0].args[1]]), (inner,), t.args[2])
    if t.kind == "un" and t.args[0] in ("~", "not"):
        return strip_cast(t.args[1])
    if t.kind == "bin" and t.args[0] == "-" and t.args[1].kind == "const" and t.args[1].args[0] == 1:
        return strip_cast(t.args[2])
    return None


def linear(t: T) -> Tuple[Optional[T], Optional[int]]:
    """t == base + k with integer k.  (None, k) for a pure constant.  (t, 0) when opaque."""
    t = strip_cast(t)
    if t.kind == "const" and isinstance(t.args[0], (int, bool)) :
        return None, int(t.args[0])
    if t.kind == "bin" and t.args[0] in ("+", "-"):
        b1, k1 = linear(t.args[1])
        b2, k2 = linear(t.args[2])
        if t.args[0] == "+":
            if b1 is None and k2 is not None:
                return b2, k1 + k2
            if b2 is None and k1 is not None:
                return b1, k1 + k2
        else:
            if b2 is None and k1 is not None:
                return b1, k1 - k2
    return t, 0


def ge_form(t: T) -> Optional[Tuple[T, T, int]]:
    """Comparison t normalised to X >= Y + k over integers, X and Y base terms
    (either may be None for a constant side)."""
    t = strip_cast(t)
    n = ext_name(t)
    if n in ("jax.numpy.any", "jax.numpy.all") and len(t.args[1]) == 1:
        return ge_form(t.args[1][0])
    if t.kind != "cmp":
        # not (a < b) is a >= b over the integers
        inner = negand(t)
        if inner is not None and inner.kind == "cmp" and inner.args[0] in ("<", "<=", ">", ">="):
            inv = {"<": ">=", "<=": ">", ">": "<=", ">=": "<"}[inner.args[0]]
            return ge_form(mk("cmp", inv, inner.args[1], inner.args[2]))
        return None
    op, a, b = t.args
    ba, ka = linear(a)
    bb, kb = linear(b)
    if ka is None or kb is None:
        return None
    if op == ">=":   # a+ka >= b+kb  ->  A >= B + (kb-ka)
        return ba, bb, kb - ka
    if op == ">":    # a+ka > b+kb   ->  A >= B + kb-ka+1
        return ba, bb, kb - ka + 1
    if op == "<=":   # a+ka <= b+kb  ->  B >= A + ka-kb
        return bb, ba, ka - kb
    if op == "<":    # a+ka < b+kb   ->  B >= A + ka-kb+1
        return bb, ba, ka - kb + 1
    return None
