"""Loader: parse the current working tree of the repository, build module / class /
function tables, import maps and a name resolver.  Standard library only.

Nothing under the analysed tree is imported or executed.
"""
from __future__ import annotations

import ast
import hashlib
import os
from dataclasses import dataclass, field
from typing import Dict, List, Optional, Tuple


class AnalysisError(Exception):
    """The analyser cannot decide (anchor vanished, unmodelled construct on a rule-critical
    path, count below the hand-confirmed minimum).  Mapped to exit code 2."""


REPO = os.environ.get("JSTAT_REPO", "/repo")
PKG = "jumanji"

EXCLUDE_SUFFIX = ("_test.py",)
EXCLUDE_NAMES = {"conftest.py", "viewer.py", "test_data.py"}
EXCLUDE_DIRS = {"training", "__pycache__"}


@dataclass
class FuncInfo:
    name: str
    qual: str  # module.Class.name or module.name (nested: module.outer.<locals>.name)
    module: "ModuleInfo"
    node: ast.AST  # FunctionDef or Lambda
    cls: Optional["ClassInfo"] = None
    decorators: List[str] = field(default_factory=list)

    @property
    def params(self) -> List[str]:
        a = self.node.args
        return [x.arg for x in a.posonlyargs + a.args]

    @property
    def is_property(self) -> bool:
        return any(d.split(".")[-1] in ("property", "cached_property") for d in self.decorators)

    @property
    def is_static(self) -> bool:
        return any(d.split(".")[-1] == "staticmethod" for d in self.decorators)

    @property
    def is_classmethod(self) -> bool:
        return any(d.split(".")[-1] == "classmethod" for d in self.decorators)

    def loc(self) -> str:
        return f"{self.module.relpath}:{getattr(self.node, 'lineno', 0)}"


@dataclass
class ClassInfo:
    name: str
    qual: str
    module: "ModuleInfo"
    node: ast.ClassDef
    base_exprs: List[ast.expr]
    bases: List[str] = field(default_factory=list)  # resolved qualified names (internal or external)
    methods: Dict[str, FuncInfo] = field(default_factory=dict)
    class_attrs: Dict[str, ast.expr] = field(default_factory=dict)
    own_fields: List[str] = field(default_factory=list)  # annotated names in body, in order
    field_defaults: Dict[str, ast.expr] = field(default_factory=dict)
    field_annotations: Dict[str, ast.expr] = field(default_factory=dict)
    decorators: List[str] = field(default_factory=list)

    def loc(self) -> str:
        return f"{self.module.relpath}:{self.node.lineno}"


@dataclass
class ModuleInfo:
    name: str
    path: str
    relpath: str
    tree: ast.Module
    source: str
    imports: Dict[str, Tuple[str, Optional[str]]] = field(default_factory=dict)
    functions: Dict[str, FuncInfo] = field(default_factory=dict)
    classes: Dict[str, ClassInfo] = field(default_factory=dict)
    assigns: Dict[str, ast.expr] = field(default_factory=dict)  # top-level NAME = expr (last wins)
    is_pkg: bool = False


def _dotted(e: ast.expr) -> Optional[str]:
    if isinstance(e, ast.Name):
        return e.id
    if isinstance(e, ast.Attribute):
        b = _dotted(e.value)
        return None if b is None else b + "." + e.attr
    return None


class Tree:
    """All analysed modules of the package plus resolution helpers."""

    def __init__(self, root: str = None):
        self.root = root or REPO
        self.modules: Dict[str, ModuleInfo] = {}
        self.classes: Dict[str, ClassInfo] = {}
        self.functions: Dict[str, FuncInfo] = {}
        self._mro_cache: Dict[str, List[ClassInfo]] = {}
        self._subclasses: Dict[str, List[str]] = {}
        self._load()
        self._link()

    # ------------------------------------------------------------------ loading
    def _load(self) -> None:
        pkgroot = os.path.join(self.root, PKG)
        if not os.path.isdir(pkgroot):
            raise AnalysisError(f"package directory {pkgroot} not found")
        for dirpath, dirnames, filenames in os.walk(pkgroot):
            dirnames[:] = sorted(d for d in dirnames if d not in EXCLUDE_DIRS)
            for fn in sorted(filenames):
                if not fn.endswith(".py") or fn in EXCLUDE_NAMES or fn.endswith(EXCLUDE_SUFFIX):
                    continue
                path = os.path.join(dirpath, fn)
                rel = os.path.relpath(path, self.root)
                modname = rel[:-3].replace(os.sep, ".")
                is_pkg = False
                if modname.endswith(".__init__"):
                    modname = modname[: -len(".__init__")]
                    is_pkg = True
                src = open(path, encoding="utf-8").read()
                try:
                    tree = ast.parse(src, filename=path)
                except SyntaxError as e:
                    raise AnalysisError(f"cannot parse {rel}: {e}")
                m = ModuleInfo(modname, path, rel, tree, src, is_pkg=is_pkg)
                self.modules[modname] = m
                self._index_module(m)

    def digest(self) -> str:
        h = hashlib.sha256()
        for k in sorted(self.modules):
            h.update(k.encode())
            h.update(self.modules[k].source.encode())
        return h.hexdigest()[:16]

    def _index_module(self, m: ModuleInfo) -> None:
        def visit_body(body):
            for st in body:
                if isinstance(st, ast.Import):
                    for a in st.names:
                        if a.asname:
                            m.imports[a.asname] = (a.name, None)
                        else:
                            top = a.name.split(".")[0]
                            m.imports[top] = (top, None)
                elif isinstance(st, ast.ImportFrom):
                    base = st.module or ""
                    if st.level:
                        parts = m.name.split(".")
                        if not m.is_pkg:
                            parts = parts[:-1]
                        parts = parts[: len(parts) - (st.level - 1)]
                        base = ".".join(parts + ([st.module] if st.module else []))
                    for a in st.names:
                        m.imports[a.asname or a.name] = (base, a.name)
                elif isinstance(st, (ast.FunctionDef, ast.AsyncFunctionDef)):
                    fi = FuncInfo(st.name, f"{m.name}.{st.name}", m, st,
                                  decorators=[_dotted(d) or ast.unparse(d) for d in st.decorator_list])
                    m.functions[st.name] = fi
                    self.functions[fi.qual] = fi
                elif isinstance(st, ast.ClassDef):
                    self._index_class(m, st)
                elif isinstance(st, ast.Assign):
                    for t in st.targets:
                        if isinstance(t, ast.Name):
                            m.assigns[t.id] = st.value
                        elif isinstance(t, (ast.Tuple, ast.List)) and all(isinstance(x, ast.Name) for x in t.elts):
                            # a, b, c = range(3)   /   a, b = (1, 2)
                            v = st.value
                            items = None
                            if isinstance(v, (ast.Tuple, ast.List)) and len(v.elts) == len(t.elts):
                                items = list(v.elts)
                            elif isinstance(v, ast.Call) and isinstance(v.func, ast.Name) and v.func.id == "range" and not v.keywords \
                                    and all(isinstance(a_, ast.Constant) and isinstance(a_.value, int) for a_ in v.args) and 1 <= len(v.args) <= 3:
                                rng = list(range(*[a_.value for a_ in v.args]))
                                if len(rng) == len(t.elts):
                                    items = [ast.copy_location(ast.Constant(value=k_), v) for k_ in rng]
                            if items is not None:
                                for x, it in zip(t.elts, items):
                                    m.assigns[x.id] = it
                elif isinstance(st, ast.AnnAssign):
                    if isinstance(st.target, ast.Name) and st.value is not None:
                        m.assigns[st.target.id] = st.value
                elif isinstance(st, ast.If):
                    # `if TYPE_CHECKING: ... else: ...` -- runtime takes the else branch
                    t = _dotted(st.test) or ""
                    if t.split(".")[-1] == "TYPE_CHECKING":
                        visit_body(st.orelse)
                    else:
                        visit_body(st.body)
                        visit_body(st.orelse)
                elif isinstance(st, ast.Try):
                    visit_body(st.body)

        visit_body(m.tree.body)

    def _index_class(self, m: ModuleInfo, st: ast.ClassDef) -> None:
        ci = ClassInfo(st.name, f"{m.name}.{st.name}", m, st, list(st.bases),
                       decorators=[_dotted(d) or ast.unparse(d) for d in st.decorator_list])
        for b in st.body:
            if isinstance(b, (ast.FunctionDef, ast.AsyncFunctionDef)):
                fi = FuncInfo(b.name, f"{ci.qual}.{b.name}", m, b, cls=ci,
                              decorators=[_dotted(d) or ast.unparse(d) for d in b.decorator_list])
                # keep the last definition, except property setters
                if any(d.endswith(".setter") for d in fi.decorators):
                    continue
                ci.methods[b.name] = fi
                self.functions[fi.qual] = fi
            elif isinstance(b, ast.AnnAssign) and isinstance(b.target, ast.Name):
                ann = ast.unparse(b.annotation)
                if "ClassVar" in ann:
                    if b.value is not None:
                        ci.class_attrs[b.target.id] = b.value
                    continue
                ci.own_fields.append(b.target.id)
                ci.field_annotations[b.target.id] = b.annotation
                if b.value is not None:
                    ci.field_defaults[b.target.id] = b.value
                    ci.class_attrs[b.target.id] = b.value
            elif isinstance(b, ast.Assign):
                for t in b.targets:
                    if isinstance(t, ast.Name):
                        ci.class_attrs[t.id] = b.value
        m.classes[st.name] = ci
        self.classes[ci.qual] = ci

    # ------------------------------------------------------------------ linking
    def _link(self) -> None:
        for ci in self.classes.values():
            ci.bases = []
            for be in ci.base_exprs:
                e = be.value if isinstance(be, ast.Subscript) else be
                q = self.resolve_expr(ci.module, e)
                ci.bases.append(q or ast.unparse(e))
        for ci in self.classes.values():
            for b in ci.bases:
                self._subclasses.setdefault(b, []).append(ci.qual)

    # ------------------------------------------------------------------ resolution
    def canonical(self, qual: str, _depth: int = 0) -> str:
        """Follow re-exports: turn 'pkg.mod.Name' into the qualified name of the defining
        module when 'Name' is itself imported into pkg.mod."""
        if _depth > 12:
            return qual
        if qual in self.classes or qual in self.functions or qual in self.modules:
            return qual
        parts = qual.split(".")
        for i in range(len(parts) - 1, 0, -1):
            mod = ".".join(parts[:i])
            if mod in self.modules:
                m = self.modules[mod]
                head, rest = parts[i], parts[i + 1:]
                if head in m.classes or head in m.functions or head in m.assigns:
                    return qual
                if head in m.imports:
                    base, name = m.imports[head]
                    tgt = base if name is None else (base + "." + name if base else name)
                    return self.canonical(".".join([tgt] + rest), _depth + 1)
                sub = mod + "." + head
                if sub in self.modules:
                    continue
                return qual
        return qual

    def resolve_name(self, m: ModuleInfo, name: str) -> Optional[str]:
        """Qualified name a *module-level* identifier refers to (None if unknown)."""
        if name in m.classes or name in m.functions or name in m.assigns:
            return f"{m.name}.{name}"
        if name in m.imports:
            base, nm = m.imports[name]
            tgt = base if nm is None else (base + "." + nm if base else nm)
            return self.canonical(tgt)
        return None

    def resolve_expr(self, m: ModuleInfo, e: ast.expr) -> Optional[str]:
        d = _dotted(e)
        if d is None:
            return None
        parts = d.split(".")
        head = self.resolve_name(m, parts[0])
        if head is None:
            return None
        return self.canonical(".".join([head] + parts[1:]))

    def lookup(self, qual: str):
        """('class', ClassInfo) | ('func', FuncInfo) | ('module', ModuleInfo) |
        ('const', (ModuleInfo, expr)) | ('classattr', (ClassInfo, expr)) | None"""
        qual = self.canonical(qual)
        if qual in self.classes:
            return ("class", self.classes[qual])
        if qual in self.functions:
            return ("func", self.functions[qual])
        if qual in self.modules:
            return ("module", self.modules[qual])
        mod, _, name = qual.rpartition(".")
        if mod in self.modules and name in self.modules[mod].assigns:
            return ("const", (self.modules[mod], self.modules[mod].assigns[name]))
        if mod in self.classes:
            ci = self.classes[mod]
            for c in self.mro(ci):
                if name in c.class_attrs:
                    return ("classattr", (c, c.class_attrs[name]))
                if name in c.methods:
                    return ("func", c.methods[name])
        return None

    # ------------------------------------------------------------------ class hierarchy
    def mro(self, ci: ClassInfo) -> List[ClassInfo]:
        if ci.qual in self._mro_cache:
            return self._mro_cache[ci.qual]
        out, seen = [], set()

        def walk(c: ClassInfo):
            if c.qual in seen:
                return
            seen.add(c.qual)
            out.append(c)
            for b in c.bases:
                if b in self.classes:
                    walk(self.classes[b])

        walk(ci)
        self._mro_cache[ci.qual] = out
        return out

    def find_method(self, ci: ClassInfo, name: str) -> Optional[FuncInfo]:
        for c in self.mro(ci):
            if name in c.methods:
                return c.methods[name]
        return None

    def find_class_attr(self, ci: ClassInfo, name: str):
        for c in self.mro(ci):
            if name in c.class_attrs:
                return c, c.class_attrs[name]
        return None

    def is_subclass(self, ci: ClassInfo, base_qual: str) -> bool:
        return any(c.qual == base_qual for c in self.mro(ci)) or any(
            base_qual in c.bases for c in self.mro(ci))

    def subclasses(self, base_qual: str, strict: bool = True) -> List[ClassInfo]:
        out, seen = [], set()

        def walk(q):
            for s in self._subclasses.get(q, []):
                if s not in seen:
                    seen.add(s)
                    out.append(self.classes[s])
                    walk(s)

        walk(base_qual)
        if not strict and base_qual in self.classes:
            out.insert(0, self.classes[base_qual])
        return out

    def is_abstract(self, ci: ClassInfo) -> bool:
        for c in self.mro(ci):
            for name, f in c.methods.items():
                if any(d.split(".")[-1] == "abstractmethod" for d in f.decorators):
                    impl = self.find_method(ci, name)
                    if impl is f:
                        return True
        return False

    def external_bases(self, ci: ClassInfo) -> List[str]:
        out = []
        for c in self.mro(ci):
            for b in c.bases:
                if b not in self.classes:
                    out.append(b)
        return out

    def is_record(self, ci: ClassInfo) -> Optional[str]:
        """'namedtuple' | 'dataclass' | None"""
        for c in self.mro(ci):
            if any(d.split(".")[-1] == "dataclass" for d in c.decorators):
                return "dataclass"
            if any(b.split(".")[-1] == "NamedTuple" for b in c.bases):
                return "namedtuple"
        return None

    def fields(self, ci: ClassInfo) -> List[str]:
        """Record fields including inherited ones, base first."""
        out: List[str] = []
        for c in reversed(self.mro(ci)):
            for f in c.own_fields:
                if f not in out:
                    out.append(f)
        return out

    def field_default(self, ci: ClassInfo, name: str):
        for c in self.mro(ci):
            if name in c.field_defaults:
                return c, c.field_defaults[name]
        return None

    def field_annotation(self, ci: ClassInfo, name: str):
        for c in self.mro(ci):
            if name in c.field_annotations:
                return c, c.field_annotations[name]
        return None

    # ------------------------------------------------------------------ environments
    ENV_BASE = "jumanji.env.Environment"

    def environment_classes(self) -> List[ClassInfo]:
        out = []
        for ci in self.subclasses(self.ENV_BASE):
            if ci.module.name in ("jumanji.wrappers",) or ci.module.name.startswith("jumanji.testing"):
                continue
            if "reset" in ci.methods or "step" in ci.methods:
                if self.find_method(ci, "reset") and self.find_method(ci, "step"):
                    out.append(ci)
        return sorted(out, key=lambda c: c.qual)

    def env_type_args(self, ci: ClassInfo) -> Tuple[Optional[ClassInfo], Optional[ClassInfo]]:
        """(State class, Observation class) from Environment[State, ActionSpec, Observation]."""
        for c in self.mro(ci):
            for be in c.base_exprs:
                if isinstance(be, ast.Subscript):
                    q = self.resolve_expr(c.module, be.value)
                    if q == self.ENV_BASE and isinstance(be.slice, ast.Tuple) and len(be.slice.elts) == 3:
                        s = self.resolve_expr(c.module, be.slice.elts[0])
                        o = self.resolve_expr(c.module, be.slice.elts[2])
                        return (self.classes.get(s), self.classes.get(o))
        return (None, None)


def short(qual: str) -> str:
    return qual.replace("jumanji.environments.", "").replace("jumanji.", "")
