"""Value-flow graph builder: a syntax-directed abstract evaluation of function bodies into
hash-consed terms (see terms.py).  No repository code is executed; python-level control flow
is joined with phi nodes, JAX combinators are modelled natively (vfg_calls.py)."""
from __future__ import annotations

import ast
from typing import Any, Dict, List, Optional, Tuple

from . import terms as tm
from .loader import AnalysisError, ClassInfo, FuncInfo, ModuleInfo, Tree
from .model import Model
from .terms import FALSE, NONE, T, TRUE, const, mk

MAX_DEPTH = 14
MAX_UNROLL = 48

BINOPS = {ast.Add: "+", ast.Sub: "-", ast.Mult: "*", ast.Div: "/", ast.FloorDiv: "//", ast.Mod: "%",
          ast.BitOr: "|", ast.BitAnd: "&", ast.BitXor: "^", ast.LShift: "<<", ast.RShift: ">>",
          ast.Pow: "**", ast.MatMult: "@"}
CMPOPS = {ast.Lt: "<", ast.LtE: "<=", ast.Gt: ">", ast.GtE: ">=", ast.Eq: "==", ast.NotEq: "!=",
          ast.Is: "is", ast.IsNot: "isnot", ast.In: "in", ast.NotIn: "notin"}
UNOPS = {ast.Invert: "~", ast.USub: "-", ast.UAdd: "+", ast.Not: "not"}
DUNDER = {"+": "__add__", "-": "__sub__", "*": "__mul__", "==": "__eq__", "!=": "__ne__",
          "&": "__and__", "|": "__or__", "<": "__lt__", "<=": "__le__", ">": "__gt__", ">=": "__ge__"}

ARRAY_METHODS = {"any", "all", "sum", "max", "min", "astype", "reshape", "flatten", "ravel", "mean",
                 "argmax", "argmin", "squeeze", "transpose", "prod", "cumsum", "clip", "round",
                 "nonzero", "take", "swapaxes", "sort", "argsort", "dot", "repeat"}


class Scope:
    __slots__ = ("vars", "parent")

    def __init__(self, parent: Optional["Scope"] = None):
        self.vars: Dict[str, T] = {}
        self.parent = parent

    def lookup(self, name: str) -> Optional[T]:
        s = self
        while s is not None:
            if name in s.vars:
                return s.vars[name]
            s = s.parent
        return None


class Frame:
    """One activation of a function body."""

    def __init__(self, func: FuncInfo, module: ModuleInfo, scope: Scope, self_term: Optional[T],
                 cls: Optional[ClassInfo], depth: int):
        self.func = func
        self.module = module
        self.scope = scope
        self.self_term = self_term
        self.cls = cls  # class that defines the function (for super())
        self.depth = depth
        self.returns: List[T] = []
        self.return_paths: List[tuple] = []   # path condition at each `return`
        self.loops: List[dict] = []           # enclosing python loops: variable maps at `break` / `continue`


class Event:
    __slots__ = ("kind", "target", "name", "value", "func", "node", "extra", "path")

    def __init__(self, kind, target, name, value, func, node, extra=None, path=()):
        self.kind, self.target, self.name, self.value = kind, target, name, value
        self.func, self.node, self.extra, self.path = func, node, extra, path

    def loc(self) -> str:
        return f"{self.func.module.relpath}:{getattr(self.node, 'lineno', 0)}"


class Evaluator:
    def __init__(self, tree: Tree, model: Optional[Model] = None):
        self.tree = tree
        self.model = model or Model(tree)
        self.events: List[Event] = []
        self._event_keys = set()
        self.visited_funcs: Dict[str, FuncInfo] = {}
        self.call_edges: set = set()
        self.opaques: List[Tuple[str, str]] = []
        self.type_override: Dict[int, ClassInfo] = {}
        self._const_cache: Dict[str, T] = {}
        self._stack: List[Any] = []
        self._memo: Dict[tuple, T] = {}
        self.term_type: Dict[int, ClassInfo] = {}  # types of params etc.
        self.callback_params: set = set()
        self.projection_of: Dict[int, List[T]] = {}
        self.projection_acc: Dict[int, List[tuple]] = {}  # r.id -> [(src, ("attr", name) | ("proj", i))]
        self.ext_calls: List[tuple] = []
        self.instance_attrs: Dict[str, T] = {}  # optional: values of self.<name> established by __init__
        self.bindings: List[tuple] = []       # (callee, param name, argument term, caller frame func, node)
        self.path: List[tuple] = []           # current path condition: [(test term, polarity, function)] across inlined calls
        self.exits: List[tuple] = []          # (kind 'return'|'raise', func, node, path snapshot, value)
        self.callsites: List[tuple] = []      # [callee, {param: argument term}, caller frame func, node, result] for every inlined call
        self.shape_unpack: Dict[int, int] = {}  # id of an `x.shape` term -> number of names it was unpacked into  # ids of param-bound terms entered via combinators

    # ------------------------------------------------------------------ helpers
    def opaque(self, reason: str, node=None, frame: Optional[Frame] = None) -> T:
        where = ""
        if frame is not None and node is not None:
            where = f"{frame.module.relpath}:{getattr(node, 'lineno', 0)}"
        self.opaques.append((reason, where))
        return tm.TT.fresh("opaque", reason)

    def record(self, kind, target, name, value, frame: Frame, node, extra=None):
        key = (kind, frame.func.qual, getattr(node, "lineno", 0), getattr(node, "col_offset", 0),
               target.id if isinstance(target, T) else None)
        if key in self._event_keys:
            return
        self._event_keys.add(key)
        self.events.append(Event(kind, target, name, value, frame.func, node, extra, tuple(self.path)))

    def set_type(self, t: T, ci: Optional[ClassInfo]):
        if ci is not None:
            self.term_type[t.id] = ci

    def typeof(self, t: T) -> Optional[ClassInfo]:
        """Best-effort static class of a term (None = unknown / array)."""
        if t.id in self.type_override:
            return self.type_override[t.id]
        if t.id in self.term_type:
            return self.term_type[t.id]
        k = t.kind
        if k == "self":
            return self.tree.classes.get(t.args[0])
        if k in ("construct", "new"):
            return self.tree.classes.get(t.args[0])
        if k == "update":
            return self.typeof(t.args[0])
        if k in ("elem", "batched", "loopin", "leaf", "copy"):
            return self.typeof(t.args[0])
        if k == "loop":
            return self.typeof(t.args[0]) or self.typeof(t.args[1])
        if k in ("choice",):
            for a in t.args[2]:
                c = self.typeof(a)
                if c is not None:
                    return c
        if k == "phi":
            for a in t.args[0]:
                c = self.typeof(a)
                if c is not None:
                    return c
        if k == "attr":
            base = self.typeof(t.args[0])
            if base is not None:
                fa = self.tree.field_annotation(base, t.args[1])
                if fa is not None:
                    return self.model.annotation_class(fa[0].module, fa[1])
                if t.args[0].kind == "self" or self.typeof(t.args[0]) is not None:
                    c = self.model.candidates(base, t.args[1])
                    if len(c) == 1:
                        return c[0]
        return None

    # ------------------------------------------------------------------ term constructors
    def mk_copy(self, v: T) -> T:
        """A fresh container holding the same leaves as v (dataclasses.replace, .replace, JAX
        unflattening of operands into combinator callbacks)."""
        if v.kind in ("construct", "copy", "const", "ext", "cls", "mod", "fn", "tuple", "list", "dict", "call",
                      "bin", "cmp", "un", "batched", "elem", "loopin", "leaf", "index", "opaque"):
            return v
        if v.kind == "choice" and v.args[0] != "where":
            return self.mk_choice(v.args[0], v.args[1], [self.mk_copy(a) for a in v.args[2]])
        if v.kind == "phi":
            return self.mk_phi([self.mk_copy(a) for a in v.args[0]])
        return mk("copy", v)

    def mk_attr(self, v: T, name: str, frame: Optional[Frame] = None) -> T:
        k = v.kind
        if k == "self" and name in self.instance_attrs:
            return self.instance_attrs[name]
        if k == "copy":
            return self.mk_attr(v.args[0], name, frame)
        if k == "construct":
            for n, val in v.args[1]:
                if n == name:
                    return val
        if k == "update":
            if v.args[1] == name:
                return v.args[2]
            # a property / method of the record sees the updated value: evaluate it on the update itself
            ci = self.typeof(v) or self.typeof(v.args[0])
            f = self.tree.find_method(ci, name) if ci is not None else None
            if f is not None and name not in self.tree.fields(ci):
                if f.is_property:
                    return self.apply_func(f, v, ci, [], {}, frame, None)
                return self.fn_value(f, v if not f.is_static else None, ci)
            # a plain field that is not the updated one: the base's
            return self.mk_attr(v.args[0], name, frame)
        if k == "choice" and v.args[0] != "where" and name not in ARRAY_METHODS and not name.startswith("__"):
            alts = tuple(self.mk_attr(a, name, frame) for a in v.args[2])
            if all(a is alts[0] for a in alts):
                return alts[0]
            if not any(a.kind == "fn" for a in alts):
                return self._proj_of(mk("choice", v.args[0], v.args[1], alts), v, ("attr", name))
        if k == "phi" and name not in ARRAY_METHODS:
            alts = [self.mk_attr(a, name, frame) for a in v.args[0]]
            if not any(a.kind == "fn" for a in alts):
                return self._proj_of(self.mk_phi(alts), v, ("attr", name))
        if k in ("batched", "elem", "loopin", "leaf") and v.args[0].kind in ("construct", "update"):
            inner = self.mk_attr(v.args[0], name, frame)
            return self._proj_of(self.wrap(k, inner, v), v, ("attr", name))
        if k == "loop":
            return self._proj_of(mk("loop", self.mk_attr(v.args[0], name, frame), self.mk_attr(v.args[1], name, frame)), v, ("attr", name))
        if k == "cls":
            ci = self.tree.classes.get(v.args[0])
            if ci is not None:
                f = self.tree.find_method(ci, name)
                if f is not None:
                    return self.fn_value(f, None, ci)
                ca = self.tree.find_class_attr(ci, name)
                if ca is not None:
                    return self.eval_const_expr(ca[0].module, ca[1], f"{ca[0].qual}.{name}")
            return mk("attr", v, name)
        if k == "mod":
            return self.resolve_qual(v.args[0] + "." + name)
        if k == "ext":
            return mk("ext", v.args[0] + "." + name)
        if k == "dict" and name in ("values", "items", "keys", "copy", "get", "update"):
            return mk("attr", v, name)
        # typed receiver: property / method / class attribute
        ci = self.typeof(v)
        if ci is not None:
            f = self.tree.find_method(ci, name)
            if f is not None:
                if f.is_property:
                    return self.apply_func(f, v, ci, [], {}, frame, None)
                return self.fn_value(f, v if not f.is_static else None, ci)
            if name not in self.tree.fields(ci):
                ca = self.tree.find_class_attr(ci, name)
                if ca is not None:
                    return self.eval_const_expr(ca[0].module, ca[1], f"{ca[0].qual}.{name}")
        elif v.kind == "attr" and v.args[0].kind == "self":
            # collaborator with several candidate classes: properties are not inlined
            pass
        return self._proj_of(mk("attr", v, name), v, ("attr", name))

    def _proj_of(self, r: T, src: T, acc=None) -> T:
        """Remember that r is a projection (field / element) of src -- used by the stale-read rule to
        recognise pieces of a value after attribute access has been distributed over a selection."""
        if r is not src and r.kind not in ("const", "ext", "cls", "mod", "self", "param"):
            self.projection_of.setdefault(r.id, []).append(src)
            if acc is not None:
                self.projection_acc.setdefault(r.id, []).append((src, acc))
        return r

    def wrap(self, kind: str, inner: T, like: Optional[T] = None) -> T:
        """elem / batched / leaf / loopin distributed over containers and records."""
        uid = like.args[1] if (like is not None and kind == "loopin") else None
        return self.map_struct(lambda x: self._wrap1(kind, x, uid), inner)

    def _wrap1(self, kind, x: T, uid=None) -> T:
        if x.kind in ("const", "ext", "cls", "mod", "fn", "self"):
            return x
        if kind == "batched" and x.kind == "elem":
            return x.args[0]
        if kind == "elem" and x.kind == "batched":
            return x.args[0]
        if kind == "loopin":
            return mk("loopin", x, uid)
        return mk(kind, x)

    def map_struct(self, f, t: T) -> T:
        k = t.kind
        if k in ("tuple", "list"):
            return mk(k, tuple(self.map_struct(f, x) for x in t.args[0]))
        if k == "dict":
            return mk("dict", t.args[0], tuple(self.map_struct(f, x) for x in t.args[1]))
        if k == "construct":
            return mk("construct", t.args[0], tuple((n, self.map_struct(f, v)) for n, v in t.args[1]))
        return f(t)

    def zip_struct(self, f, a: T, b: T) -> T:
        """Combine two values of (hopefully) the same structure leaf-wise."""
        if a.kind == b.kind and a.kind in ("tuple", "list") and len(a.args[0]) == len(b.args[0]):
            return mk(a.kind, tuple(self.zip_struct(f, x, y) for x, y in zip(a.args[0], b.args[0])))
        if a.kind == "construct" and b.kind == "construct" and a.args[0] == b.args[0]:
            bd = dict(b.args[1])
            if [n for n, _ in a.args[1]] == [n for n, _ in b.args[1]]:
                return mk("construct", a.args[0],
                          tuple((n, self.zip_struct(f, v, bd[n])) for n, v in a.args[1]))
        return f(a, b)

    def zip_struct_many(self, vals: List[T]) -> T:
        out = vals[0]
        for v in vals[1:]:
            out = self.zip_struct(lambda x, y: x if x is y else self.mk_phi([x, y]), out, v)
        return out

    def mk_phi(self, alts: List[T]) -> T:
        flat: List[T] = []
        for a in alts:
            for x in (a.args[0] if a.kind == "phi" else (a,)):
                if x not in flat:
                    flat.append(x)
        if len(flat) == 1:
            return flat[0]
        return mk("phi", tuple(flat))

    def mk_choice(self, how: str, pred: T, alts: List[T]) -> T:
        if all(a is alts[0] for a in alts):
            return alts[0]
        if pred.kind == "const" and how in ("cond", "select", "ifexp") and len(alts) == 2:
            return alts[0] if pred.args[0] else alts[1]
        return mk("choice", how, pred, tuple(alts))

    def mk_proj(self, v: T, i: int, n: Optional[int] = None) -> T:
        if v.kind == "copy":
            v = v.args[0]
        k = v.kind
        if k in ("tuple", "list"):
            items = v.args[0]
            if -len(items) <= i < len(items) and not any(x.kind == "star" for x in items):
                return items[i]
        if k == "construct":
            ci = self.tree.classes.get(v.args[0])
            if ci is not None and self.tree.is_record(ci) == "namedtuple":
                fs = v.args[1]
                if -len(fs) <= i < len(fs):
                    return fs[i][1]
        if k == "choice":
            return self._proj_of(self.mk_choice(v.args[0], v.args[1], [self.mk_proj(a, i, n) for a in v.args[2]]), v, ("proj", i))
        if k == "phi":
            return self._proj_of(self.mk_phi([self.mk_proj(a, i, n) for a in v.args[0]]), v, ("proj", i))
        if k in ("batched", "elem", "leaf"):
            return self._proj_of(self.wrap(k, self.mk_proj(v.args[0], i, n)), v, ("proj", i))
        if k == "loop":
            return self._proj_of(mk("loop", self.mk_proj(v.args[0], i, n), self.mk_proj(v.args[1], i, n)), v, ("proj", i))
        if k == "loopin":
            return self._proj_of(mk("loopin", self.mk_proj(v.args[0], i, n), v.args[1]), v, ("proj", i))
        return self._proj_of(mk("proj", v, i), v, ("proj", i))

    def mk_index(self, v: T, idx: T) -> T:
        if v.kind == "copy":
            v = v.args[0]
        if idx.kind == "const" and isinstance(idx.args[0], int) and not isinstance(idx.args[0], bool):
            if v.kind in ("tuple", "list"):
                items = v.args[0]
                i = idx.args[0]
                if -len(items) <= i < len(items) and not any(x.kind == "star" for x in items):
                    return items[i]
            if v.kind == "construct":
                ci = self.tree.classes.get(v.args[0])
                if ci is not None and self.tree.is_record(ci) == "namedtuple":
                    return self.mk_proj(v, idx.args[0])
            if v.kind == "call" and idx.args[0] >= 0:
                # r[i] of a call result is the i-th item of `a, b, .. = r`: one canonical form for both spellings
                return self.mk_proj(v, idx.args[0])
        if v.kind == "dict" and idx.kind == "const":
            for kk, vv in zip(v.args[0], v.args[1]):
                if kk is idx:
                    return vv
        if v.kind in ("tuple", "list") and idx.kind == "slice" and all(
                x.kind == "const" for x in idx.args):
            lo, hi, st = (x.args[0] for x in idx.args)
            return mk(v.kind, tuple(v.args[0][slice(lo, hi, st)]))
        return mk("index", v, idx)

    def mk_bin(self, op: str, a: T, b: T, frame: Optional[Frame] = None) -> T:
        if a.kind == "const" and b.kind == "const":
            try:
                x, y = a.args[0], b.args[0]
                r = {"+": lambda: x + y, "-": lambda: x - y, "*": lambda: x * y, "//": lambda: x // y,
                     "%": lambda: x % y, "/": lambda: x / y, "**": lambda: x ** y, "|": lambda: x | y,
                     "&": lambda: x & y, "^": lambda: x ^ y, "<<": lambda: x << y, ">>": lambda: x >> y}[op]()
                if isinstance(r, (int, float, str, bool)):
                    return const(r)
            except Exception:
                pass
        if op == "+" and a.kind in ("tuple", "list") and b.kind == a.kind:
            return mk(a.kind, a.args[0] + b.args[0])
        if op == "*" and a.kind in ("tuple", "list") and b.kind == "const" and isinstance(b.args[0], int) \
                and 0 <= b.args[0] * len(a.args[0]) <= 64:
            return mk(a.kind, a.args[0] * b.args[0])
        d = DUNDER.get(op)
        if d is not None:
            ci = self.typeof(a)
            if ci is not None:
                f = self.tree.find_method(ci, d)
                if f is not None:
                    return self.apply_func(f, a, ci, [b], {}, frame, None)
        return mk("bin", op, a, b)

    def mk_cmp(self, op: str, a: T, b: T, frame: Optional[Frame] = None) -> T:
        if a.kind == "const" and b.kind == "const":
            x, y = a.args[0], b.args[0]
            try:
                r = {"<": lambda: x < y, "<=": lambda: x <= y, ">": lambda: x > y, ">=": lambda: x >= y,
                     "==": lambda: x == y, "!=": lambda: x != y, "is": lambda: x is y or x == y and type(x) is type(y),
                     "isnot": lambda: not (x is y or x == y and type(x) is type(y))}.get(op, lambda: None)()
                if isinstance(r, bool):
                    return const(r)
            except Exception:
                pass
        if op in ("is", "isnot") and b is NONE:
            # values that are certainly objects (results of calls are NOT: re.fullmatch, dict.get, ... return None)
            definite = {"construct", "new", "tuple", "list", "dict", "bin", "cmp", "fn", "cls", "batched", "update"}
            array_call = a.kind == "call" and a.args[0].kind == "ext" and a.args[0].args[0].split(".")[0] in ("jax", "numpy", "chex")
            if a.kind in definite or array_call:
                return const(op == "isnot")
        if op in ("==", "!=") and a.kind == "tuple" and b.kind == "tuple" and len(a.args[0]) == len(b.args[0]) and len(a.args[0]) >= 1 \
                and not any(x.kind == "star" for x in a.args[0] + b.args[0]):
            # (a1, a2) == (b1, b2) is a1 == b1 and a2 == b2 (element by element, short-circuit)
            parts = tuple(self.mk_cmp("==", x, y, frame) for x, y in zip(a.args[0], b.args[0]))
            conj = parts[0] if len(parts) == 1 else mk("bool", "and", parts)
            return conj if op == "==" else mk("un", "not", conj)
        d = DUNDER.get(op)
        if d is not None:
            ci = self.typeof(a)
            if ci is not None:
                f = self.tree.find_method(ci, d)
                if f is not None:
                    r = self.apply_func(f, a, ci, [b], {}, frame, None)
                    return r
        return mk("cmp", op, a, b)

    def mk_un(self, op: str, a: T) -> T:
        if a.kind == "const":
            x = a.args[0]
            try:
                if op == "not":
                    return const(not x)
                if op == "-" and isinstance(x, (int, float)):
                    return const(-x)
                if op == "+" and isinstance(x, (int, float)):
                    return const(x)
                if op == "~" and isinstance(x, int) and not isinstance(x, bool):
                    return const(~x)
            except Exception:
                pass
        if op == "~" and a.kind == "un" and a.args[0] == "~":
            return a.args[1]
        return mk("un", op, a)

    def mk_update(self, obj: T, field: str, v: T) -> T:
        if obj.kind == "construct":
            fs = list(obj.args[1])
            for i, (n, _) in enumerate(fs):
                if n == field:
                    fs[i] = (n, v)
                    return mk("construct", obj.args[0], tuple(fs))
            return mk("construct", obj.args[0], tuple(fs + [(field, v)]))
        if obj.kind == "update" and obj.args[1] == field:
            return self.mk_update(obj.args[0], field, v)
        if obj.kind == "choice" and all(a.kind in ("construct",) for a in obj.args[2]):
            return mk("choice", obj.args[0], obj.args[1],
                      tuple(self.mk_update(a, field, v) for a in obj.args[2]))
        t = mk("update", obj, field, v)
        return t

    # ------------------------------------------------------------------ name resolution
    def resolve_qual(self, qual: str) -> T:
        tree = self.tree
        qual = tree.canonical(qual)
        r = tree.lookup(qual)
        if r is None:
            # attribute of an internal class/constant or an external name
            head, _, last = qual.rpartition(".")
            if head and tree.lookup(head) is not None and tree.lookup(head)[0] in ("class", "const", "classattr"):
                return self.mk_attr(self.resolve_qual(head), last)
            return mk("ext", qual)
        kind, obj = r
        if kind == "class":
            return mk("cls", obj.qual)
        if kind == "func":
            return self.fn_value(obj, None, obj.cls)
        if kind == "module":
            return mk("mod", obj.name)
        if kind == "const":
            m, e = obj
            return self.eval_const_expr(m, e, qual)
        if kind == "classattr":
            c, e = obj
            return self.eval_const_expr(c.module, e, qual)
        return mk("ext", qual)

    def eval_const_expr(self, m: ModuleInfo, e: ast.expr, key: str) -> T:
        if key in self._const_cache:
            return self._const_cache[key]
        if (isinstance(e, (ast.Dict, ast.List, ast.Set)) and not (getattr(e, "keys", None) or getattr(e, "elts", None))) or (
                isinstance(e, ast.Call) and isinstance(e.func, ast.Name) and e.func.id in ("dict", "list", "set") and not e.args and not e.keywords):
            # an empty module-level container is mutable shared state: keep its identity
            self._const_cache[key] = mk("ext", key)
            return self._const_cache[key]
        self._const_cache[key] = mk("ext", key)  # recursion guard
        dummy = FuncInfo("<module>", m.name + ".<module>", m, ast.parse("def _m(): pass").body[0])
        fr = Frame(dummy, m, Scope(), None, None, 0)
        try:
            v = self.eval(e, fr)
        except AnalysisError:
            raise
        self._const_cache[key] = v
        return v

    def lookup_name(self, name: str, frame: Frame, node=None) -> T:
        v = frame.scope.lookup(name)
        if v is not None:
            return v
        q = self.tree.resolve_name(frame.module, name)
        if q is not None:
            return self.resolve_qual(q)
        if name in ("True", "False", "None"):
            return const({"True": True, "False": False, "None": None}[name])
        import builtins
        if hasattr(builtins, name):
            return mk("ext", "builtins." + name)
        return self.opaque(f"unbound name {name}", node, frame)

    def fn_value(self, f: FuncInfo, self_term: Optional[T], cls: Optional[ClassInfo],
                 scope: Optional[Scope] = None, partial=None) -> T:
        key = ("fn", id(f.node), self_term.id if self_term is not None else 0, id(scope) if scope else 0,
               tuple(a.id for a in (partial[0] if partial else ())),
               tuple((n, v.id) for n, v in (partial[1] if partial else ())))
        t = mk("fn", *key[1:])
        if t.meta is None:
            t.meta = {"func": f, "self": self_term, "cls": cls, "scope": scope, "name": f.name,
                      "partial": partial}
        return t

    # ------------------------------------------------------------------ expressions
    def eval(self, e: ast.expr, fr: Frame) -> T:
        m = getattr(self, "e_" + type(e).__name__, None)
        if m is None:
            return self.opaque("expr " + type(e).__name__, e, fr)
        return m(e, fr)

    def e_Constant(self, e, fr):
        v = e.value
        if v is Ellipsis:
            return mk("ext", "builtins.Ellipsis")
        if isinstance(v, (int, float, str, bool, bytes, type(None))):
            return const(v)
        if isinstance(v, complex):
            return mk("ext", f"complex.{v}")
        return self.opaque("constant", e, fr)

    def e_Name(self, e, fr):
        if e.id == "self" and fr.self_term is not None and fr.scope.lookup("self") is None:
            return fr.self_term
        return self.lookup_name(e.id, fr, e)

    def e_Attribute(self, e, fr):
        v = self.eval(e.value, fr)
        return self.mk_attr(v, e.attr, fr)

    def e_Subscript(self, e, fr):
        v = self.eval(e.value, fr)
        idx = self.eval(e.slice, fr)
        return self._loc(self.mk_index(v, idx), e, fr)

    def e_Slice(self, e, fr):
        return mk("slice", *(self.eval(x, fr) if x is not None else NONE for x in (e.lower, e.upper, e.step)))

    def e_Tuple(self, e, fr):
        return mk("tuple", tuple(self._elts(e.elts, fr)))

    def e_List(self, e, fr):
        return mk("list", tuple(self._elts(e.elts, fr)))

    def e_Set(self, e, fr):
        return mk("set", tuple(self._elts(e.elts, fr)))

    def _elts(self, elts, fr):
        out = []
        for x in elts:
            if isinstance(x, ast.Starred):
                v = self.eval(x.value, fr)
                if v.kind in ("tuple", "list"):
                    out.extend(v.args[0])
                else:
                    out.append(mk("star", v))
            else:
                out.append(self.eval(x, fr))
        return out

    def e_Dict(self, e, fr):
        keys, vals = [], []
        for k, v in zip(e.keys, e.values):
            if k is None:
                d = self.eval(v, fr)
                if d.kind == "dict":
                    for kk, vv in zip(d.args[0], d.args[1]):
                        if kk in keys:
                            vals[keys.index(kk)] = vv
                        else:
                            keys.append(kk)
                            vals.append(vv)
                else:
                    keys.append(mk("star", d))
                    vals.append(d)
            else:
                kk = self.eval(k, fr)
                vv = self.eval(v, fr)
                if kk in keys:
                    vals[keys.index(kk)] = vv
                else:
                    keys.append(kk)
                    vals.append(vv)
        return mk("dict", tuple(keys), tuple(vals))

    def _loc(self, t: T, e, fr) -> T:
        if t.meta is None and t.kind in ("bin", "cmp", "call", "index"):
            t.meta = {"loc": f"{fr.module.relpath}:{getattr(e, 'lineno', 0)}", "func": fr.func.qual, "src": ast.unparse(e)[:90]}
        return t

    def e_BinOp(self, e, fr):
        return self._loc(self.mk_bin(BINOPS[type(e.op)], self.eval(e.left, fr), self.eval(e.right, fr), fr), e, fr)

    def e_UnaryOp(self, e, fr):
        v = self.eval(e.operand, fr)
        op = UNOPS[type(e.op)]
        if op == "not":
            self.record("py_branch", v, "not", None, fr, e)
        return self.mk_un(op, v)

    def e_BoolOp(self, e, fr):
        op = "and" if isinstance(e.op, ast.And) else "or"
        vals = [self.eval(v, fr) for v in e.values]
        # static short-circuit on constants
        out = []
        for i, v in enumerate(vals):
            if v.kind == "const":
                truth = bool(v.args[0])
                if (op == "or" and truth) or (op == "and" and not truth):
                    out.append(v)
                    break
                if i == len(vals) - 1:
                    out.append(v)
                continue
            definite_true = v.kind in ("construct", "new", "fn", "cls") or (
                v.kind in ("dict", "tuple", "list") and len(v.args[0]) > 0 and not any(x.kind == "star" for x in v.args[0]))
            if v.kind in ("dict", "tuple", "list") and len(v.args[0]) == 0:
                # definitely falsy
                if op == "and":
                    out.append(v)
                    break
                if i < len(vals) - 1:
                    continue
            if definite_true and op == "or":
                out.append(v)
                break
            if definite_true and op == "and" and i < len(vals) - 1:
                continue
            out.append(v)
        for v in out[:-1]:
            self.record("py_branch", v, op, None, fr, e)
        if len(out) == 1:
            return out[0]
        return mk("bool", op, tuple(out))

    def e_Compare(self, e, fr):
        left = self.eval(e.left, fr)
        parts = []
        for op, right in zip(e.ops, e.comparators):
            r = self.eval(right, fr)
            parts.append(self._loc(self.mk_cmp(CMPOPS[type(op)], left, r, fr), e, fr))
            left = r
        if len(parts) == 1:
            return parts[0]
        return mk("bool", "and", tuple(parts))

    def e_IfExp(self, e, fr):
        test = self.eval(e.test, fr)
        self.record("py_branch", test, "ifexp", None, fr, e)
        if test.kind == "const":
            return self.eval(e.body if test.args[0] else e.orelse, fr)
        a = self.eval(e.body, fr)
        b = self.eval(e.orelse, fr)
        return self.mk_choice("ifexp", test, [a, b])

    def e_Lambda(self, e, fr):
        fi = FuncInfo("<lambda>", f"{fr.func.qual}.<lambda@{e.lineno}:{e.col_offset}>", fr.module, e, cls=fr.cls)
        t = self.fn_value(fi, None, fr.cls, scope=fr.scope)
        t.meta["def_self"] = fr.self_term
        t.meta["def_frame_func"] = fr.func
        return t

    def e_JoinedStr(self, e, fr):
        parts = []
        dyn = []
        for v in e.values:
            if isinstance(v, ast.Constant):
                parts.append(str(v.value))
            elif isinstance(v, ast.FormattedValue):
                x = self.eval(v.value, fr)
                if x.kind == "const" and v.format_spec is None and v.conversion == -1:
                    parts.append(str(x.args[0]))
                else:
                    parts.append("{}")
                    dyn.append(x)
        if dyn:   # template text and every interpolated value
            return mk("call", mk("ext", "builtins.format"), (const("".join(parts)),) + tuple(dyn), ())
        return const("".join(parts))

    def e_FormattedValue(self, e, fr):
        return mk("call", mk("ext", "builtins.format"), (self.eval(e.value, fr),), ())

    def e_Starred(self, e, fr):
        return mk("star", self.eval(e.value, fr))

    def e_NamedExpr(self, e, fr):
        v = self.eval(e.value, fr)
        fr.scope.vars[e.target.id] = v
        return v

    def _comp(self, e, fr, build):
        """Comprehension: unrolled over static iterables, otherwise mapped once."""
        gens = e.generators

        def rec(i, scope):
            if i == len(gens):
                sub = Frame(fr.func, fr.module, scope, fr.self_term, fr.cls, fr.depth)
                for cond_ok in [True]:
                    pass
                return [build(sub)]
            g = gens[i]
            sub = Frame(fr.func, fr.module, scope, fr.self_term, fr.cls, fr.depth)
            it = self.eval(g.iter, sub)
            items = self.static_items(it)
            out = []
            if items is not None and len(items) <= MAX_UNROLL:
                for x in items:
                    s2 = Scope(scope)
                    sub2 = Frame(fr.func, fr.module, s2, fr.self_term, fr.cls, fr.depth)
                    self.assign(g.target, x, sub2)
                    ok = True
                    for c in g.ifs:
                        cv = self.eval(c, sub2)
                        if cv.kind == "const":
                            ok = ok and bool(cv.args[0])
                        else:
                            self.record("py_branch", cv, "comp-if", None, fr, c)
                    if ok:
                        out.extend(rec(i + 1, s2))
                return out
            s2 = Scope(scope)
            sub2 = Frame(fr.func, fr.module, s2, fr.self_term, fr.cls, fr.depth)
            self.assign(g.target, self.wrap("elem", it), sub2)
            for c in g.ifs:
                self.record("py_branch", self.eval(c, sub2), "comp-if", None, fr, c)
            inner = rec(i + 1, s2)
            return [mk("star", self.wrap("batched", x)) for x in inner]

        return rec(0, Scope(fr.scope))

    def e_ListComp(self, e, fr):
        return mk("list", tuple(self._comp(e, fr, lambda f: self.eval(e.elt, f))))

    def e_GeneratorExp(self, e, fr):
        return mk("list", tuple(self._comp(e, fr, lambda f: self.eval(e.elt, f))))

    def e_SetComp(self, e, fr):
        return mk("set", tuple(self._comp(e, fr, lambda f: self.eval(e.elt, f))))

    def e_DictComp(self, e, fr):
        pairs = self._comp(e, fr, lambda f: mk("tuple", (self.eval(e.key, f), self.eval(e.value, f))))
        keys, vals = [], []
        for p in pairs:
            if p.kind == "tuple":
                k, v = p.args[0]
                if k in keys:
                    vals[keys.index(k)] = v
                else:
                    keys.append(k)
                    vals.append(v)
            else:
                keys.append(p)
                vals.append(p)
        return mk("dict", tuple(keys), tuple(vals))

    def static_items(self, it: T) -> Optional[List[T]]:
        if it.kind in ("tuple", "list", "set"):
            if any(x.kind == "star" for x in it.args[0]):
                return None
            return list(it.args[0])
        if it.kind == "dict":
            return list(it.args[0])
        return None

    def e_Call(self, e, fr):
        return self._loc(self.eval_call(e, fr), e, fr)

    # ------------------------------------------------------------------ assignment targets
    def assign(self, target: ast.expr, value: T, fr: Frame, aug: bool = False):
        if isinstance(target, ast.Name):
            fr.scope.vars[target.id] = value
            return
        if isinstance(target, (ast.Tuple, ast.List)):
            elts = target.elts
            if value.kind == "attr" and value.args[1] == "shape" and not any(isinstance(x, ast.Starred) for x in elts):
                self.shape_unpack[value.id] = len(elts)
            star = [i for i, x in enumerate(elts) if isinstance(x, ast.Starred)]
            n = len(elts)
            for i, x in enumerate(elts):
                if isinstance(x, ast.Starred):
                    self.assign(x.value, mk("call", mk("ext", "builtins.list"), (value,), ()), fr)
                elif star and i > star[0]:
                    self.assign(x, self.mk_proj(value, i - n, None), fr)
                else:
                    self.assign(x, self.mk_proj(value, i, n if not star else None), fr)
            return
        if isinstance(target, ast.Attribute):
            obj = self.eval(target.value, fr)
            self.record("store_attr", obj, target.attr, value, fr, target)
            new = self.mk_update(obj, target.attr, value)
            if obj.kind != "self":
                self.rebind(target.value, new, fr)
            return
        if isinstance(target, ast.Subscript):
            obj = self.eval(target.value, fr)
            idx = self.eval(target.slice, fr)
            self.record("store_sub", obj, None, value, fr, target, extra=idx)
            if obj.kind == "dict" and idx.kind == "const":
                keys, vals = list(obj.args[0]), list(obj.args[1])
                if idx in keys:
                    vals[keys.index(idx)] = value
                else:
                    keys.append(idx)
                    vals.append(value)
                new = mk("dict", tuple(keys), tuple(vals))
            elif obj.kind == "list" and idx.kind == "const" and isinstance(idx.args[0], int) \
                    and -len(obj.args[0]) <= idx.args[0] < len(obj.args[0]):
                items = list(obj.args[0])
                items[idx.args[0]] = value
                new = mk("list", tuple(items))
            else:
                new = mk("call", mk("ext", "builtins.setitem"), (obj, idx, value), ())
            self.rebind(target.value, new, fr)
            return
        if isinstance(target, ast.Starred):
            self.assign(target.value, value, fr)
            return
        self.opaque("assign target " + type(target).__name__, target, fr)

    def rebind(self, target: ast.expr, new: T, fr: Frame):
        """After `x.f = v` / `x[k] = v`, the name (or nested path) x denotes the updated value."""
        if isinstance(target, ast.Name):
            if target.id == "self" and fr.self_term is not None:
                return
            s = fr.scope
            while s is not None:
                if target.id in s.vars:
                    s.vars[target.id] = new
                    return
                s = s.parent
            fr.scope.vars[target.id] = new
        elif isinstance(target, ast.Attribute):
            obj = self.eval(target.value, fr)
            if obj.kind == "self":
                return
            self.rebind(target.value, self.mk_update(obj, target.attr, new), fr)
        elif isinstance(target, ast.Subscript):
            obj = self.eval(target.value, fr)
            idx = self.eval(target.slice, fr)
            if obj.kind == "dict" and idx.kind == "const" and idx in obj.args[0]:
                keys, vals = list(obj.args[0]), list(obj.args[1])
                vals[keys.index(idx)] = new
                self.rebind(target.value, mk("dict", tuple(keys), tuple(vals)), fr)
