"""Catalogue of self-test variants.  kind 'break' = must be reported (rule = expected rule
prefix); kind 'twin' = behaviour-preserving rewrite that must stay silent.
edit = (file, scope, op, *args)  -- see mutate.py."""

R = "jumanji/environments/routing/"
L = "jumanji/environments/logic/"
P = "jumanji/environments/packing/"
MUTANTS = []


def B(id, prop, rule, *edits):
    MUTANTS.append({"id": id, "prop": prop, "kind": "break", "rule": rule, "edits": list(edits)})


def X(id, prop, *edits):
    """Leaves the analysable sub-language: the check must fail closed (exit 2), neither pass nor report."""
    MUTANTS.append({"id": id, "prop": prop, "kind": "outside", "rule": None, "edits": list(edits)})


def T(id, prop, *edits):
    MUTANTS.append({"id": id, "prop": prop, "kind": "twin", "rule": None, "edits": list(edits)})


# ---------------------------------------------------------------- C11
B("c11-maze-gt", "C11", "C11.R4", (R + "maze/env.py", "Maze.step", "expr", "state.step_count >= self.time_limit", "state.step_count > self.time_limit"))
B("c11-snake-plus2", "C11", "C11.R3", (R + "snake/env.py", "Snake.step", "expr", "state.step_count + 1", "state.step_count + 2", None))
B("c11-snake-init1", "C11", "C11.R2", (R + "snake/env.py", "Snake.reset", "kwarg", "step_count", "jnp.array(0, jnp.int32)", "jnp.array(1, jnp.int32)"))
B("c11-pacman-or-order", "C11", "C11.R1", (R + "pac_man/env.py", "PacMan.__init__", "expr", "time_limit or 1000", "1000 or time_limit"))
B("c11-cleaner-drop-limit", "C11", "C11.R4", (R + "cleaner/env.py", "Cleaner", "expr", "state.step_count >= self.time_limit", "state.step_count >= self.time_limit + 1"))
B("c11-rubiks-old-count", "C11", "C11.R4", (L + "rubiks_cube/env.py", "RubiksCube.step", "expr", "step_count >= self.time_limit", "state.step_count >= self.time_limit"))
B("c11-tetris-ignore-param", "C11", "C11.R1", (P + "tetris/env.py", "Tetris.__init__", "replace_stmt", "self.time_limit = time_limit", "self.time_limit = 400"))
T("c11-twin-flip", "C11", (R + "maze/env.py", "Maze.step", "expr", "state.step_count >= self.time_limit", "self.time_limit <= state.step_count"))
T("c11-twin-old-minus1", "C11", (R + "snake/env.py", "Snake.step", "expr", "step_count >= self.time_limit", "state.step_count >= self.time_limit - 1"))
T("c11-twin-logical-or", "C11", (L + "rubiks_cube/env.py", "RubiksCube.step", "expr", "(step_count >= self.time_limit) | solved", "jnp.logical_or(solved, step_count >= self.time_limit)"))

# ---------------------------------------------------------------- C03
B("c03-maze-never-last", "C03", "C03.R2", (R + "maze/env.py", "Maze.step", "expr", "jax.lax.cond(done, termination, transition, reward, observation)", "jax.lax.cond(done, transition, transition, reward, observation)"))
B("c03-snake-truncation", "C03", "C03.R3", (R + "snake/env.py", "Snake.step", "expr", "jax.lax.cond(done, termination, transition, reward, observation)", "jax.lax.cond(done, lambda r, o: TimeStep(step_type=StepType.LAST, reward=r, discount=jnp.ones(()), observation=o, extras={}), transition, reward, observation)"),
  (R + "snake/env.py", "", "insert_first", "from jumanji.types import StepType"))
B("c03-connector-any", "C03", "C03.R4", (R + "connector/env.py", "Connector.step", "expr", "jnp.all(done) | (new_state.step_count >= self.time_limit)", "(new_state.step_count >= self.time_limit)"))
B("c03-connector-shape", "C03", "C03.R6", (R + "connector/env.py", "Connector.reset", "expr", "(self.num_agents,)", "()"))
B("c03-lbf-table", "C03", "C03.R5", (R + "lbf/env.py", "LevelBasedForaging.step", "expr", "terminate + 2 * truncate", "truncate + 2 * terminate"))
B("c03-types-restart-mid", "C03", "C03.R0", ("jumanji/types.py", "restart", "expr", "StepType.FIRST", "StepType.MID"))
B("c03-types-termination-ones", "C03", "C03.R0", ("jumanji/types.py", "termination", "expr", "jnp.zeros(shape, dtype=dtype)", "jnp.ones(shape, dtype=dtype)"))
B("c03-tsp-reset-transition", "C03", "C03.R1", (R + "tsp/env.py", "TSP.reset", "expr", "restart(observation=self._state_to_observation(state))", "transition(jnp.zeros(()), observation=self._state_to_observation(state))"),
  (R + "tsp/env.py", "", "insert_first", "from jumanji.types import transition"))
T("c03-twin-lambda-branches", "C03", (R + "maze/env.py", "Maze.step", "expr", "jax.lax.cond(done, termination, transition, reward, observation)", "jax.lax.cond(done, lambda r, o: termination(r, o), lambda r, o: transition(r, o), reward, observation)"))

# ---------------------------------------------------------------- C13 / C14
W = "jumanji/wrappers.py"
B("c13-reuse-key", "C13", "C13.R2", (W, "AutoResetWrapper._auto_reset", "replace_stmt", "key, _ = jax.random.split(state.key)", "key = state.key"))
B("c13-order", "C13", "C13.R2", (W, "AutoResetWrapper._auto_reset", "swap", "timestep = self._maybe_add_obs_to_extras(timestep)", "timestep = timestep.replace(observation=reset_timestep.observation)"))
B("c13-replace-reward", "C13", "C13.R2", (W, "AutoResetWrapper._auto_reset", "expr", "timestep.replace(observation=reset_timestep.observation)", "timestep.replace(observation=reset_timestep.observation, reward=reset_timestep.reward)"))
B("c13-pred-first", "C13", "C13.R1", (W, "AutoResetWrapper.step", "expr", "timestep.last()", "timestep.mid()"))
B("c13-keep-resets-extras", "C13", "C13.R3", (W, "AutoResetWrapper.step", "expr", "(s, self._maybe_add_obs_to_extras(t))", "(s, t)"))
B("c13-const-key", "C13", "C13.R2", (W, "AutoResetWrapper._auto_reset", "replace_stmt", "key, _ = jax.random.split(state.key)", "key = jax.random.PRNGKey(0)"))
B("c13-next-obs-wrong-field", "C13", "C13.R3", (W, "add_obs_to_extras", "expr", "timestep.observation", "timestep.reward"))
B("c13-wiring-swapped", "C13", "C13.R3", (W, "AutoResetWrapper.__init__", "expr", "next_obs_in_extras", "not next_obs_in_extras", 2))
T("c13-twin-rename", "C13", (W, "AutoResetWrapper._auto_reset", "replace_stmt", "key, _ = jax.random.split(state.key)", "reset_key, _unused = jax.random.split(state.key)\nkey = reset_key"))
B("c14-vmap-sibling-order", "C14", "C14.R2", (W, "VmapAutoResetWrapper._auto_reset", "swap", "timestep = self._maybe_add_obs_to_extras(timestep)", "timestep = timestep.replace(observation=reset_timestep.observation)"))
B("c14-sibling-key-index", "C14", "C14.R2.agree", (W, "VmapAutoResetWrapper._auto_reset", "replace_stmt", "key, _ = jax.random.split(state.key)", "_, key = jax.random.split(state.key)"))
B("c14-vmap-in-axes", "C14", "C14.R1", (W, "VmapWrapper.step", "expr", "jax.vmap(self._env.step)", "jax.vmap(self._env.step, in_axes=(0, None))"))
B("c14-render-index", "C14", "C14.R3", (W, "VmapWrapper.render", "expr", "tree_utils.tree_slice(state, 0)", "tree_utils.tree_slice(state, 1)"))
B("c14-vmap-post", "C14", "C14.R1", (W, "VmapWrapper.reset", "replace_stmt", "return (state, timestep)", "return (state, timestep.replace(reward=timestep.reward * 0))"))
T("c14-twin-direct-return", "C14", (W, "VmapWrapper.step", "replace_stmt", "state, timestep = jax.vmap(self._env.step)(state, action)", "out = jax.vmap(self._env.step)(state, action)\nstate, timestep = out"))

# ---------------------------------------------------------------- C18
G = "jumanji/registration.py"
B("c18-no-copy", "C18", "C18.R3", (G, "make", "expr", "env_spec.kwargs.copy()", "env_spec.kwargs"))
B("c18-store-before-check", "C18", "C18.R2", (G, "register", "swap", "_check_registration_is_allowed(spec)", "_REGISTRY[env_id] = spec"))
B("c18-separator", "C18", "C18.R1", (G, "get_env_id", "expr", "name + f'-v{version}'", "name + f'-V{version}'"))
B("c18-second-writer", "C18", "C18.R2", (G, "make", "insert_after", "env_spec = _REGISTRY[env_id]", "_REGISTRY[id] = env_spec"))
B("c18-version-optional", "C18", "C18.R1", (G, "parse_env_id", "delete", "if version is None"))
B("c18-override-order", "C18", "C18.R3", (G, "make", "replace_stmt", "env_fn_kwargs = env_spec.kwargs.copy()", "env_fn_kwargs = dict(kwargs)\nkwargs = env_spec.kwargs"))
B("c18-check-noop", "C18", "C18.R2", (G, "_check_registration_is_allowed", "expr", "spec.id in _REGISTRY", "spec.id in ()"))
T("c18-twin-dict-copy", "C18", (G, "make", "expr", "env_spec.kwargs.copy()", "dict(env_spec.kwargs)"))

# ---------------------------------------------------------------- C19
U = "jumanji/tree_utils.py"
PT = "jumanji/testing/pytrees.py"
B("c19-stack-axis", "C19", "C19.R1", (U, "tree_transpose", "expr", "jnp.stack(xs, axis=0)", "jnp.stack(xs, axis=1)"))
B("c19-set-add", "C19", "C19.R1", (U, "tree_add_element", "expr", "array.at[i].set(value)", "array.at[i].add(value)"))
B("c19-slice-axis", "C19", "C19.R1", (U, "tree_slice", "expr", "x[i]", "x[..., i]"))
B("c19-assert-polarity", "C19", "C19.R2", (PT, "assert_trees_are_different", "expr", "not is_equal_pytree(tree1, tree2)", "is_equal_pytree(tree1, tree2)"))
B("c19-allclose", "C19", "C19.R2", (PT, "is_equal_pytree", "expr", "np.array_equal(np.asarray(leaf1), np.asarray(leaf2))", "np.allclose(np.asarray(leaf1), np.asarray(leaf2))"))
B("c19-any", "C19", "C19.R2", (PT, "is_equal_pytree", "expr", "np.all(is_equal_leaves)", "np.any(is_equal_leaves)"))
T("c19-twin-ellipsis", "C19", (U, "tree_slice", "expr", "x[i]", "x[i, ...]"))

# ---------------------------------------------------------------- C12 / C04
B("c12-tetris-const-count", "C12", "C12.R1b", (P + "tetris/env.py", "Tetris.step", "kwarg", "step_count", "step_count", "jnp.array(0, jnp.int32)", 2))
B("c12-graph-stale-colors", "C12", "C12.R1c", (L + "graph_coloring/env.py", "GraphColoring.step", "expr", "self._get_valid_actions(next_node_index, state.adj_matrix, colors)", "self._get_valid_actions(next_node_index, state.adj_matrix, state.colors)"))
B("c12-snake-old-state", "C12", "C12.R1", (R + "snake/env.py", "Snake.step", "expr", "self._state_to_observation(next_state)", "self._state_to_observation(state)"))
B("c12-maze-old-position", "C12", "C12.R1", (R + "maze/env.py", "Maze", "kwarg", "agent_position", "state.agent_position", "Position(row=state.agent_position.col, col=state.agent_position.row)"))
B("c04-graph-stale-colors", "C04", "C04.R1", (L + "graph_coloring/env.py", "GraphColoring.step", "expr", "self._get_valid_actions(next_node_index, state.adj_matrix, colors)", "self._get_valid_actions(next_node_index, state.adj_matrix, state.colors)"))
B("c04-mmst-stale-finished", "C04", "C04.R1", (R + "mmst/env.py", "MMST._state_to_timestep", "delete", "state.action_mask = make_action_mask("))
B("c04-snake-mask-old-head", "C04", "C04.R1", (R + "snake/env.py", "Snake.step", "expr", "self._get_action_mask(head_position, body_state)", "self._get_action_mask(state.head_position, body_state)"))

# ---------------------------------------------------------------- C02
B("c02-snake-self-write", "C02", "C02.R1", (R + "snake/env.py", "Snake.step", "insert_first", "self._last_action = action"))
B("c02-snake-arg-write", "C02", "C02.R3", (R + "snake/env.py", "Snake.step", "insert_first", "state.step_count = state.step_count + 0"))
B("c02-tsp-np-random", "C02", "C02.R2", (R + "tsp/generator.py", "UniformGenerator.__call__", "insert_first", "import numpy as np\n_ = np.random.rand()"))
B("c02-maze-python-if", "C02", "C02.R4", (R + "maze/env.py", "Maze.step", "insert_first", "if state.step_count > 3:\n    action = action"))
B("c02-binpack-csv-owner", "C02", "C02.R3", (P + "bin_pack/generator.py", "CSVGenerator.__call__", "expr", "dataclasses.replace(self.instance_from_csv)", "self.instance_from_csv"))
B("c02-knapsack-time", "C02", "C02.R2", (P + "knapsack/env.py", "Knapsack.step", "insert_first", "import time\n_t = time.time()"))
B("c02-cvrp-cache", "C02", "C02.R1", (R + "cvrp/env.py", "CVRP._state_to_observation", "insert_first", "self._cache = state"))
B("c02-helper-mutates-arg", "C02", "C02.R3", (R + "cleaner/env.py", "Cleaner.step", "insert_first", "state.grid = state.grid"))
B("c02-binpack-shared-extras", "C02", "C02.R7", (P + "bin_pack/env.py", "BinPack.__init__", "insert_first", "self._extras0 = {}"),
  (P + "bin_pack/env.py", "BinPack.reset", "expr", "restart(observation, extras)", "restart(observation, self._extras0)"))
B("c02-tsp-rbg", "C02", "C02.R2", (R + "tsp/generator.py", "UniformGenerator.__call__", "expr", "jax.random.uniform(sample_key, (self.num_cities, 2), minval=0, maxval=1)",
  "jax.random.uniform(jax.random.wrap_key_data(jnp.tile(jax.random.key_data(sample_key), 2), impl='rbg'), (self.num_cities, 2), minval=0, maxval=1)"))
B("c02-autoreset-counter", "C02", "C02.R8", ("jumanji/wrappers.py", "AutoResetWrapper._auto_reset", "insert_first", "self._n_resets = getattr(self, '_n_resets', 0) + 1"))
T("c02-twin-fresh-extras-dict", "C02", (P + "bin_pack/env.py", "BinPack.reset", "expr", "restart(observation, extras)", "restart(observation, dict(extras))"))
T("c02-twin-local-dict", "C02", (R + "snake/env.py", "Snake.step", "insert_first", "scratch = {}\nscratch['a'] = action"))

# ---------------------------------------------------------------- C07 (and C04.R2 / C01.R5 through the same engine)
B("c07-maze-swap-extent", "C07", "C07.R1", (R + "maze/env.py", "Maze", "expr", "row < self.num_rows", "row < self.num_cols"))
B("c07-cleaner-swap", "C07", "C07.R1", (R + "cleaner/env.py", "Cleaner", "expr", "x < self.num_cols", "x < self.num_rows"))
B("c07-snake-divmod", "C07", "C07.R1", (R + "snake/env.py", "Snake._sample_fruit_coord", "expr", "jnp.divmod(fruit_index, self.num_cols)", "jnp.divmod(fruit_index, self.num_rows)"))
B("c07-snake-bounds", "C07", "C07.R1", (R + "snake/env.py", "Snake._get_action_mask", "expr", "new_head_position.col >= self.num_cols", "new_head_position.col >= self.num_rows"))
B("c07-maze-gen-args", "C07", "C07.R1", (R + "maze/generator.py", "RandomGenerator.__call__", "expr", "maze_generation.generate_maze(self.num_cols, self.num_rows, maze_key)", "maze_generation.generate_maze(self.num_rows, self.num_cols, maze_key)"))
B("c07-pacman-mod", "C07", "C07.R1", (R + "pac_man/utils.py", "player_step", "expr", "new_pos_col % x_size", "new_pos_col % y_size"))
B("c07-pacman-spec", "C07", "C07.R1", (R + "pac_man/env.py", "PacMan.observation_spec", "expr", "self.x_size - 1", "self.y_size - 1"))
B("c07-minesweeper-flatten", "C07", "C07.R1", (L + "minesweeper/utils.py", "explored_mine", "expr", "state.board.shape[-1]", "state.board.shape[-2]"))
B("c07-maze-divmod", "C07", "C07.R1", (R + "maze/generator.py", "RandomGenerator.__call__", "expr", "jnp.divmod(start_and_target_indices, self.num_cols)", "jnp.divmod(start_and_target_indices, self.num_rows)"))
T("c07-twin-flip", "C07", (R + "maze/env.py", "Maze", "expr", "row < self.num_rows", "self.num_rows > row"))
T("c07-twin-le", "C07", (R + "cleaner/env.py", "Cleaner", "expr", "x < self.num_cols", "x <= self.num_cols - 1"))
B("c04-cleaner-mask-axis", "C04", "C04.R2", (R + "cleaner/env.py", "Cleaner", "expr", "y < self.num_rows", "y < self.num_cols"))

# ---------------------------------------------------------------- C16
SP = "jumanji/specs.py"
B("c16-reduce-drop", "C16", "C16.R2", (SP, "BoundedArray.__reduce__", "expr", "(self._shape, self._dtype, self._minimum, self._maximum, self._name)", "(self._shape, self._dtype, self._minimum, self._maximum)"))
B("c16-reduce-order", "C16", "C16.R2", (SP, "BoundedArray.__reduce__", "expr", "(self._shape, self._dtype, self._minimum, self._maximum, self._name)", "(self._shape, self._dtype, self._maximum, self._minimum, self._name)"))
B("c16-validate-le", "C16", "C16.R4", (SP, "BoundedArray.validate", "expr", "value < self.minimum", "value <= self.minimum"))
B("c16-validate-swapped-bounds", "C16", "C16.R4", (SP, "BoundedArray.validate", "expr", "value > self.maximum", "value > self.minimum"))
B("c16-eq-drop-name", "C16", "C16.R3", (SP, "Array.__eq__", "expr", "self.shape == other.shape and self.dtype == other.dtype and (self.name == other.name)", "self.shape == other.shape and self.dtype == other.dtype"))
B("c16-eq-unreduced", "C16", "C16.R3", (SP, "MultiDiscreteArray.__eq__", "expr", "(self.num_values == other.num_values).all()", "(self.num_values == other.num_values)"))
B("c16-conv-order", "C16", "C16.R6", (SP, "jumanji_specs_to_gym_spaces", "expr", "isinstance(spec, DiscreteArray)", "isinstance(spec, BoundedArray)", 1),
  (SP, "jumanji_specs_to_gym_spaces", "expr", "isinstance(spec, BoundedArray)", "isinstance(spec, DiscreteArray)", 2))
B("c16-conv-low-high", "C16", "C16.R6", (SP, "jumanji_specs_to_gym_spaces", "expr", "np.broadcast_to(spec.minimum, shape=spec.shape)", "np.broadcast_to(spec.maximum, shape=spec.shape)"))
B("c16-property-wrong", "C16", "C16.R1", (SP, "BoundedArray.maximum", "expr", "self._maximum", "self._minimum"))
B("c16-validate-dtype-dropped", "C16", "C16.R4", (SP, "Array.validate", "delete", "if value.dtype != self.dtype"))
B("c16-spec-eq-self", "C16", "C16.R5", (SP, "Spec.__eq__", "expr", "is_equal_pytree(self._specs, other._specs)", "is_equal_pytree(self._specs, self._specs)"))
B("c16-spec-replace-nocopy", "C16", "C16.R5", (SP, "Spec.replace", "expr", "copy.deepcopy(self._specs)", "self._specs"))
T("c16-twin-generate-max", "C16", (SP, "BoundedArray.__init__", "expr", "jnp.full(shape, minimum, dtype)", "jnp.full(shape, maximum, dtype)"))
T("c16-twin-array-equal", "C16", (SP, "MultiDiscreteArray.__eq__", "expr", "(self.num_values == other.num_values).all()", "jnp.array_equal(self.num_values, other.num_values)"))

# ---------------------------------------------------------------- C15
B("c15-dm-cross", "C15", "C15.R3", (W, "JumanjiToDMEnvWrapper.step", "kwarg", "reward", "timestep.reward", "timestep.discount"))
B("c15-dm-same-half", "C15", "C15.R1", (W, "JumanjiToDMEnvWrapper.reset", "replace_stmt", "reset_key, self._key = jax.random.split(self._key)", "reset_key, _ = jax.random.split(self._key)\nself._key = reset_key"))
B("c15-gym-key-not-advanced", "C15", "C15.R1", (W, "JumanjiToGymWrapper.reset", "replace_stmt", "key, self._key = jax.random.split(self._key)", "key, _ = jax.random.split(self._key)"))
B("c15-gym-term-no-negation", "C15", "C15.R3", (W, "JumanjiToGymWrapper.__init__.step", "expr", "~timestep.discount.astype(bool)", "timestep.discount.astype(bool)"))
B("c15-gym-trunc-mid", "C15", "C15.R3", (W, "JumanjiToGymWrapper.__init__.step", "expr", "timestep.last()", "timestep.mid()"))
B("c15-gym-state-not-threaded", "C15", "C15.R2", (W, "JumanjiToGymWrapper.step", "replace_stmt", "self._state, obs, reward, term, trunc, extras = self._step(self._state, action_jax)", "_s, obs, reward, term, trunc, extras = self._step(self._state, action_jax)"))
B("c15-gym-seed-after-split", "C15", "C15.R1", (W, "JumanjiToGymWrapper.reset", "swap", "if seed is not None", "key, self._key = jax.random.split(self._key)"))
B("c15-m2s-crossed", "C15", "C15.R3", (W, "MultiToSingleWrapper._aggregate_timestep", "expr", "self._reward_aggregator(timestep.reward)", "self._discount_aggregator(timestep.reward)"))
B("c15-m2s-defaults", "C15", "C15.R3", (W, "MultiToSingleWrapper.__init__", "replace_stmt", "self._reward_aggregator = reward_aggregator", "self._reward_aggregator = discount_aggregator"))
B("c15-m2s-reset-skips", "C15", "C15.R3", (W, "MultiToSingleWrapper.reset", "delete", "timestep = self._aggregate_timestep(timestep)"))
B("c15-conv-nvec", "C15", "C15.R4", ("jumanji/specs.py", "jumanji_specs_to_gym_spaces", "expr", "gym.spaces.MultiDiscrete(nvec=spec.num_values, seed=None)", "gym.spaces.MultiDiscrete(nvec=spec.maximum, seed=None)"))
T("c15-twin-key-names", "C15", (W, "JumanjiToGymWrapper.reset", "replace_stmt", "key, self._key = jax.random.split(self._key)", "k1, k2 = jax.random.split(self._key)\nself._key = k2\nkey = k1"))

# ---------------------------------------------------------------- C04.R3b
B("c04-knapsack-strict", "C04", "C04.R3b", (P + "knapsack/env.py", "Knapsack._state_to_observation", "expr", "state.weights <= state.remaining_budget", "(state.remaining_budget - state.weights) > 0"))
B("c04-tsp-mask-polarity", "C04", "C04.R3b", (R + "tsp/env.py", "TSP._state_to_observation", "kwarg", "action_mask", "~state.visited_mask", "state.visited_mask"))
T("c04-twin-knapsack-flip", "C04", (P + "knapsack/env.py", "Knapsack._state_to_observation", "expr", "state.weights <= state.remaining_budget", "state.remaining_budget >= state.weights"))

# ---------------------------------------------------------------- C05
B("c05-snake-no-invalid-term", "C05", "C05.R1", (R + "snake/env.py", "Snake.step", "expr", "~is_valid | snake_completed | (step_count >= self.time_limit)", "snake_completed | (step_count >= self.time_limit)"))
B("c05-tsp-else-not-identity", "C05", "C05.R2", (R + "tsp/env.py", "TSP.step", "expr", "lambda *_: state", "lambda *_: state.replace(position=action)"))
B("c05-knapsack-wrong-guard", "C05", "C05.R1", (P + "knapsack/env.py", "Knapsack.step", "expr", "no_items_available | ~is_valid", "no_items_available"))
B("c05-maze-noop-branch", "C05", "C05.R3", (R + "maze/env.py", "Maze.step", "expr", "jax.lax.select(state.action_mask[action], action, 4)", "jax.lax.select(state.action_mask[action], action, 0)"))
B("c05-flatpack-unguarded-placed", "C05", "C05.R3", (P + "flat_pack/env.py", "FlatPack.step", "expr", "action_is_legal", "True", 2))
B("c05-cleaner-move-anyway", "C05", "C05.R2", (R + "cleaner/env.py", "Cleaner", "expr", "jnp.where(action_is_valid[:, None], MOVES[action], 0)", "MOVES[action]"))
B("c05-2048-spawn-always", "C05", "C05.R3", (L + "game_2048/env.py", "Game2048.step", "expr", "state.action_mask[action]", "True"))
B("c05-sliding-unguarded", "C05", "C05.R3", (L + "sliding_tile_puzzle/env.py", "SlidingTilePuzzle._move_empty_tile", "expr", "lambda: (puzzle, empty_tile_position)", "lambda: (puzzle, new_empty_tile_position)"))
T("c05-twin-snake-logical-or", "C05", (R + "snake/env.py", "Snake.step", "expr", "~is_valid | snake_completed | (step_count >= self.time_limit)", "jnp.logical_or(jnp.logical_or(snake_completed, jnp.logical_not(is_valid)), step_count >= self.time_limit)"))

# ---------------------------------------------------------------- C01
B("c01-snake-discrete-count", "C01", "C01.R3", (R + "snake/env.py", "Snake.observation_spec", "expr", "specs.BoundedArray((), jnp.int32, 0, self.time_limit, 'step_count')", "specs.DiscreteArray(self.time_limit, dtype=jnp.int32, name='step_count')"))
B("c01-tsp-position-min", "C01", "C01.R4", (R + "tsp/env.py", "TSP.observation_spec", "expr", "specs.BoundedArray((), jnp.int32, -1, self.num_cities - 1, 'position')", "specs.DiscreteArray(self.num_cities, dtype=jnp.int32, name='position')"))
B("c01-maze-missing-field", "C01", "C01.R1", (R + "maze/env.py", "Maze.observation_spec", "expr", "specs.Spec(Observation, 'ObservationSpec', agent_position=agent_position, target_position=agent_position, walls=walls, step_count=step_count, action_mask=action_mask)", "specs.Spec(Observation, 'ObservationSpec', agent_position=agent_position, target_position=agent_position, walls=walls, action_mask=action_mask)"))
B("c01-connector-reward-shape", "C01", "C01.R2", (R + "connector/env.py", "Connector.reward_spec", "expr", "(self.num_agents,)", "()"))
B("c01-pacman-bounds-swapped", "C01", "C01.R5", (R + "pac_man/env.py", "PacMan.observation_spec", "expr", "self.x_size - 1", "self.y_size - 1"))
B("c01-tsp-coords-box", "C01", "C01.R6", (R + "tsp/generator.py", "UniformGenerator.__call__", "expr", "jax.random.uniform(sample_key, (self.num_cities, 2), minval=0, maxval=1)", "jax.random.uniform(sample_key, (self.num_cities, 2), minval=0, maxval=2)"))
B("c01-cleaner-count-tight", "C01", "C01.R3", (R + "cleaner/env.py", "Cleaner.observation_spec", "expr", "specs.BoundedArray((), jnp.int32, 0, self.time_limit, 'step_count')", "specs.BoundedArray((), jnp.int32, 0, self.time_limit - 1, 'step_count')"))
T("c01-twin-count-unbounded", "C01", (R + "cleaner/env.py", "Cleaner.observation_spec", "expr", "specs.BoundedArray((), jnp.int32, 0, self.time_limit, 'step_count')", "specs.Array((), jnp.int32, 'step_count')"))
B("c18-match-dollar", "C18", "C18.R1", (G, "parse_env_id", "expr", "ENV_NAME_RE.fullmatch(id)", "ENV_NAME_RE.match(id)"))
B("c11-maze-default-square", "C11", "C11.R1", (R + "maze/env.py", "Maze.__init__", "expr", "self.num_rows * self.num_cols", "self.num_rows * self.num_rows"))
B("c11-mmst-buffer-length", "C11", "C11.R4", (R + "mmst/env.py", "MMST._state_to_timestep", "expr", "self.time_limit", "state.connected_nodes.shape[-1]"))

# ---------------------------------------------------------------- C09 (tables) and C04.R4
B("c09-maze-switch-order", "C09", "C09.R1", (R + "maze/env.py", "Maze.step", "expr", "Position(position.row, position.col + 1)", "Position(position.row, position.col - 1)", 1),
  (R + "maze/env.py", "Maze.step", "expr", "Position(position.row, position.col - 1)", "Position(position.row, position.col + 1)", 2))
B("c04-maze-switch-vs-moves", "C04", "C04.R4", (R + "maze/constants.py", "", "expr", "[[-1, 0], [0, 1], [1, 0], [0, -1]]", "[[-1, 0], [0, -1], [1, 0], [0, 1]]"))
B("c09-snake-moves-order", "C09", "C09.R1", (R + "snake/env.py", "Snake", "expr", "[[-1, 0], [0, 1], [1, 0], [0, -1]]", "[[-1, 0], [0, -1], [1, 0], [0, 1]]"))
B("c09-lbf-moves", "C09", "C09.R1", (R + "lbf/constants.py", "", "expr", "[[0, 0], [-1, 0], [1, 0], [0, -1], [0, 1], [0, 0]]", "[[0, 0], [1, 0], [-1, 0], [0, -1], [0, 1], [0, 0]]"))
B("c09-connector-constants", "C09", "C09.R1", (R + "connector/constants.py", "", "replace_stmt", "RIGHT = 2", "RIGHT = 4"), (R + "connector/constants.py", "", "replace_stmt", "LEFT = 4", "LEFT = 2"))
B("c09-connector-generator-pair", "C09", "C09.R1", (R + "connector/generator.py", "RandomWalkGenerator._action_from_tuple", "expr", "jnp.array([UP, DOWN, LEFT, RIGHT, NOOP])", "jnp.array([DOWN, UP, LEFT, RIGHT, NOOP])"))
B("c09-pacman-copy-diverges", "C09", "C09.R1", (R + "pac_man/utils.py", "player_step", "expr", "(position.y, position.x - steps)", "(position.y, position.x + steps)"))
B("c09-sliding-up", "C09", "C09.R1", (L + "sliding_tile_puzzle/constants.py", "", "replace_stmt", "UP = [-1, 0]", "UP = [1, 0]"))
B("c09-rw-forward", "C09", "C09.R1", (R + "robot_warehouse/utils_agent.py", "get_new_position_after_forward", "expr", "x - 1", "x + 1"))
T("c09-twin-maze-kwargs", "C09", (R + "maze/env.py", "Maze.step", "expr", "Position(position.row - 1, position.col)", "Position(row=position.row - 1, col=position.col)"))

# ---------------------------------------------------------------- C17
RU = L + "rubiks_cube/utils.py"
B("c17-front-table-flip", "C17", "C17.R4", (RU, "generate_front_move", "expr", "jnp.flip(jnp.arange(cube_size))", "jnp.arange(cube_size)", 1))
B("c17-rot-direction", "C17", "C17.R4", (RU, "do_rotation", "expr", "-amount.value", "amount.value"))
B("c17-roll-shift", "C17", "C17.R4", (RU, "do_rotation", "expr", "cube_size * amount.value", "amount.value"))
B("c17-flatten-coeff", "C17", "C17.R1", (RU, "flatten_action", "expr", "face * len(CubeMovementAmount) * (cube_size // 2) + depth * len(CubeMovementAmount) + amount", "face * len(CubeMovementAmount) * (cube_size // 2) + depth + amount * (cube_size // 2)"))
B("c17-unflatten-order", "C17", "C17.R1", (RU, "unflatten_action", "expr", "jnp.stack([face, depth, amount], axis=0)", "jnp.stack([depth, face, amount], axis=0)"))
B("c17-generator-order", "C17", "C17.R2", (RU, "generate_all_moves", "expr", "[generate_up_move, generate_front_move, generate_right_move, generate_back_move, generate_left_move, generate_down_move]", "[generate_up_move, generate_right_move, generate_front_move, generate_back_move, generate_left_move, generate_down_move]"))
B("c17-left-adjacent-face", "C17", "C17.R4", (RU, "generate_left_move", "expr", "[Face.UP.value, Face.FRONT.value, Face.DOWN.value, Face.BACK.value]", "[Face.UP.value, Face.FRONT.value, Face.DOWN.value, Face.RIGHT.value]"))
X("c17-value-dependent", "C17", (RU, "do_rotation", "expr", "jnp.rot90(cube[face.value], k=-amount.value)", "jnp.rot90(cube[face.value] * 1, k=-amount.value)"))
B("c17-depth-ignored", "C17", "C17.R4", (RU, "generate_down_move", "expr", "cube_size - 1 - depth", "cube_size - 1"))
B("c17-action-spec", "C17", "C17.R1", (L + "rubiks_cube/env.py", "RubiksCube.action_spec", "expr", "[len(Face), self.generator.cube_size // 2, 3]", "[len(Face), self.generator.cube_size // 2, 2]"))
B("c17-sliding-swap-lost", "C17", "C17.R5", (L + "sliding_tile_puzzle/env.py", "SlidingTilePuzzle._move_empty_tile", "expr", "puzzle[tuple(new_empty_tile_position)]", "puzzle[tuple(empty_tile_position)]"))
B("c17-sliding-walk-unmasked", "C17", "C17.R5", (L + "sliding_tile_puzzle/generator.py", "RandomWalkGenerator._make_random_move", "expr", "jax.random.choice(key, MOVES, shape=(), p=valid_moves_mask)", "jax.random.choice(key, MOVES, shape=())"))
T("c17-twin-arange-flip-flip", "C17", (RU, "generate_front_move", "expr", "jnp.flip(jnp.arange(cube_size))", "jnp.flip(jnp.flip(jnp.flip(jnp.arange(cube_size))))", 1))

# ---------------------------------------------------------------- C06
B("c06-knapsack-no-fit-guard", "C06", "C06.R1", (P + "knapsack/env.py", "Knapsack.step", "expr", "item_fits & item_not_packed", "item_not_packed"))
B("c06-cvrp-capacity-strict", "C06", "C06.R1", (R + "cvrp/env.py", "CVRP.step", "expr", "state.capacity >= node_demand", "state.capacity + 1 >= node_demand"))
B("c06-tsp-revisit", "C06", "C06.R2", (R + "tsp/env.py", "TSP.step", "expr", "~state.visited_mask[action]", "~state.visited_mask[0]"))
B("c06-knapsack-budget-init", "C06", "C06.R1", (P + "knapsack/generator.py", "RandomGenerator.__call__", "expr", "jnp.array(self.total_budget, float)", "jnp.array(2 * self.total_budget, float)"))
B("c06-sudoku-box-table", "C06", "C06.R3", (L + "sudoku/constants.py", "", "expr", "[6, 7, 8, 15, 16, 17, 24, 25, 26]", "[6, 7, 8, 15, 16, 17, 24, 25, 27]"))
B("c06-graph-stale", "C06", "C06.R4", (L + "graph_coloring/env.py", "GraphColoring.step", "expr", "self._get_valid_actions(next_node_index, state.adj_matrix, colors)", "self._get_valid_actions(next_node_index, state.adj_matrix, state.colors)"))
T("c06-twin-knapsack-flip", "C06", (P + "knapsack/env.py", "Knapsack.step", "expr", "item_fits & item_not_packed", "item_not_packed & item_fits"))
B("c15-gym-term-one-minus", "C15", "C15.R3", (W, "JumanjiToGymWrapper.__init__.step", "expr", "~timestep.discount.astype(bool)", "(1 - timestep.discount).astype(bool)"))
B("c15-conv-high-plus-one", "C15", "C15.R4", ("jumanji/specs.py", "jumanji_specs_to_gym_spaces", "insert_after", "high = np.broadcast_to(spec.maximum, shape=spec.shape)", "high = high + 1"))
B("c07-tetris-slice-extent", "C07", "C07.R1", (P + "tetris/env.py", "Tetris.step", "expr", "grid_padded[:, :self.num_cols]", "grid_padded[:, :self.num_rows]"))

# ---------------------------------------------------------------- C10
B("c10-tsp-constant-key", "C10", "C10.R1a", (R + "tsp/generator.py", "UniformGenerator.__call__", "kwarg", "key", "key", "jax.random.PRNGKey(0)"))
B("c10-maze-ignores-key", "C10", "C10.R1b", (R + "maze/generator.py", "RandomGenerator.__call__", "insert_first", "key = jax.random.PRNGKey(0)"))
B("c10-minesweeper-replace", "C10", "C10.R2", (L + "minesweeper/utils.py", "create_flat_mine_locations", "kwarg", "replace", "False", "True"))
B("c10-lbf-agents-replace", "C10", "C10.R2", (R + "lbf/generator.py", "RandomGenerator", "kwarg", "replace", "False", "True"))
B("c10-knapsack-weights-range", "C10", "C10.R3", (P + "knapsack/generator.py", "RandomGenerator.__call__", "kwarg", "maxval", "1", "2"))
T("c10-twin-split-more", "C10", (R + "tsp/generator.py", "UniformGenerator.__call__", "expr", "jax.random.split(key)", "jax.random.split(key, 2)"))
B("c04-connector-mask-stricter", "C04", "C04.R3b", (R + "connector/utils.py", "is_valid_position", "expr", "in_bounds & open_cell & not_connected", "in_bounds & open_cell"),
  (R + "connector/env.py", "Connector._get_action_mask", "expr", "is_valid_position(grid, agent, agent_pos)", "is_valid_position(grid, agent, agent_pos) & ~agent.connected"))
B("c04-connector-step-stricter", "C04", "C04.R3b", (R + "connector/env.py", "Connector._step_agent", "expr", "action != NOOP", "action > NOOP + 1"))
B("c17-step-default-size", "C17", "C17.R1", (L + "rubiks_cube/env.py", "RubiksCube.step", "expr", "flatten_action(unflattened_action=action, cube_size=self.generator.cube_size)", "flatten_action(unflattened_action=action, cube_size=3)"))
B("c17-inner-slice-rotates-face", "C17", "C17.R4", (RU, "do_rotation", "expr", "depth == 0", "depth >= 0"))
B("c01-sliding-sparse-int-reward", "C01", "C01.R7", (L + "sliding_tile_puzzle/reward.py", "SparseRewardFn.__call__", "replace_stmt", "return", "return jnp.where(jnp.array_equal(next_state.puzzle, solved_puzzle), 1, 0)"))
B("c01-snake-reward-bool", "C01", "C01.R7", (R + "snake/env.py", "Snake.step", "expr", "jnp.asarray(fruit_eaten, float)", "jnp.asarray(fruit_eaten)"))
B("c01-snake-count-float", "C01", "C01.R7", (R + "snake/env.py", "Snake.reset", "kwarg", "step_count", "jnp.array(0, jnp.int32)", "jnp.array(0, float)"))
B("c10-maze-divmod-rows", "C10", "C10.R4", (R + "maze/generator.py", "RandomGenerator.__call__", "expr", "jnp.divmod(start_and_target_indices, self.num_cols)", "jnp.divmod(start_and_target_indices, self.num_rows)"))

# ---------------------------------------------------------------- C12.R2 view wiring
B("c12-snake-planes-order", "C12", "C12.R2", (R + "snake/env.py", "Snake._state_to_observation", "expr", "[body, head, tail, fruit, norm_body_state]", "[body, tail, head, fruit, norm_body_state]"))
B("c12-snake-fruit-at-head", "C12", "C12.R2", (R + "snake/env.py", "Snake._state_to_observation", "expr", "tuple(state.fruit_position)", "tuple(state.head_position)"))
B("c12-binpack-norm-axis", "C12", "C12.R2", (P + "bin_pack/env.py", "BinPack._normalize_ems_and_items", "expr", "Space(x1=x_len, x2=x_len, y1=y_len, y2=y_len, z1=z_len, z2=z_len)", "Space(x1=x_len, x2=x_len, y1=y_len, y2=z_len, z1=z_len, z2=y_len)"))
B("c12-binpack-mask-selection", "C12", "C12.R2", (P + "bin_pack/env.py", "BinPack._get_set_of_largest_ems", "expr", "ems_mask[obs_ems_indexes]", "ems_mask[:self.obs_num_ems]"))
B("c12-binpack-ascending", "C12", "C12.R2", (P + "bin_pack/env.py", "BinPack._get_set_of_largest_ems", "expr", "jnp.argsort(-ems_volumes)", "jnp.argsort(ems_volumes)"))
B("c12-tetris-old-piece", "C12", "C12.R2", (P + "tetris/env.py", "Tetris.step", "kwarg", "tetromino", "new_tetromino", "tetromino"))
B("c05-graph-reward-priority", "C05", "C05.R4", (L + "graph_coloring/env.py", "GraphColoring.step", "replace_stmt", "reward = jnp.where(invalid_action_taken", "reward = jnp.select([all_nodes_colored, invalid_action_taken], [-num_unique_colors, -self.num_nodes], default=0.0)"))
B("c09-lbf-eaten-blocks", "C09", "C09.R3", (R + "lbf/utils.py", "simulate_agent_movement", "expr", "jnp.all(new_position == food_items.position, axis=1) & ~food_items.eaten", "jnp.all(new_position == food_items.position, axis=1)"))
B("c12-lbf-grid-eaten-food", "C12", "C12.R2", (R + "lbf/observer.py", "GridObserver.make_agents_view", "expr", "food.level * ~food.eaten", "food.level"))
B("c12-binpack-rank-unmasked", "C12", "C12.R2", (P + "bin_pack/env.py", "BinPack._get_set_of_largest_ems", "expr", "ems.volume() * ems_mask", "ems.volume()"))
B("c11-multicvrp-horizon", "C11", "C11.R6", (R + "multi_cvrp/env.py", "MultiCVRP.step", "expr", "self._num_customers * 2", "self._num_customers * self._num_vehicles"))

# ---------------------------------------------------------------- shape rules (C01.R8, C02.R5, C13.R6)
B("c13-tetris-reset-shape", "C13", "C13.R6", (P + "tetris/env.py", "Tetris.reset", "kwarg", "full_lines", "jnp.full(self.num_rows + 3, False)", "jnp.full((self.padded_num_cols,), False)"))
B("c02-tetris-reset-shape", "C02", "C02.R5", (P + "tetris/env.py", "Tetris.reset", "kwarg", "full_lines", "jnp.full(self.num_rows + 3, False)", "jnp.full((self.padded_num_cols,), False)"))
B("c01-maze-walls-transposed-spec", "C01", "C01.R8", (R + "maze/env.py", "Maze.observation_spec", "expr", "(self.num_rows, self.num_cols)", "(self.num_cols, self.num_rows)"))
B("c01-tsp-trajectory-shape", "C01", "C01.R8", (R + "tsp/env.py", "TSP.observation_spec", "expr", "(self.num_cities,)", "(self.num_cities + 1,)", 2))
B("c01-snake-planes-4", "C01", "C01.R8", (R + "snake/env.py", "Snake.observation_spec", "expr", "(self.num_rows, self.num_cols, 5)", "(self.num_rows, self.num_cols, 4)"))
T("c01-twin-shape-tuple-attr", "C01", (R + "snake/env.py", "Snake.observation_spec", "expr", "(self.num_rows, self.num_cols, 5)", "(*self.board_shape, 5)"))
B("c04-tetris-action-rows", "C04", "C04.R6", (P + "tetris/env.py", "Tetris.action_spec", "expr", "jnp.array([NUM_ROTATIONS, self.num_cols])", "jnp.array([NUM_ROTATIONS, self.num_rows])"))
B("c04-connector-mask-spec", "C04", "C04.R6", (R + "connector/env.py", "Connector.observation_spec", "expr", "(self.num_agents, 5)", "(self.num_agents, 4)"))
B("c04-cvrp-mask-capacity-strict", "C04", "C04.R3b", (R + "cvrp/env.py", "CVRP._state_to_observation", "expr", "state.capacity >= state.demands", "state.capacity > state.demands"))

# ---------------------------------------------------------------- later additions
B("c09-sliding-sparse-old-state", "C09", "C09.R4", (L + "sliding_tile_puzzle/reward.py", "SparseRewardFn.__call__", "expr", "next_state.puzzle", "state.puzzle"))
B("c17-solved-absorbing", "C17", "C17.R3", (L + "rubiks_cube/env.py", "RubiksCube.step", "expr", "rotate_cube(cube=state.cube, flattened_action=flattened_action)", "jax.lax.select(is_solved(state.cube), state.cube, rotate_cube(cube=state.cube, flattened_action=flattened_action))"))
B("c17-sliding-generator-swap", "C17", "C17.R5", (L + "sliding_tile_puzzle/generator.py", "RandomWalkGenerator.__call__", "insert_before", "state = State(", "puzzle = puzzle.at[0, 0].set(puzzle[0, 1]).at[0, 1].set(puzzle[0, 0])"))
B("c18-class-cache", "C18", "C18.R5", (L + "sudoku/env.py", "Sudoku.__init__", "insert_first", "Sudoku._last_generator = generator"))
B("c02-class-cache", "C02", "C02.R6", (L + "sudoku/env.py", "Sudoku.__init__", "insert_first", "Sudoku._last_generator = generator"))
B("c05-minesweeper-reward-crossing", "C05", "C05.R5", (L + "minesweeper/reward.py", "DefaultRewardFn.__init__", "replace_stmt", "self.invalid_action_reward = invalid_action_reward", "self.invalid_action_reward = revealed_mine_reward"))
B("c05-tetris-reward-unmasked", "C05", "C05.R4", (P + "tetris/env.py", "Tetris.step", "expr", "self.reward_list[nbr_full_lines] * is_valid", "self.reward_list[nbr_full_lines]"))
B("c07-tetris-padded-cols", "C07", "C07.R2", (P + "tetris/env.py", "Tetris.__init__", "replace_stmt", "self.padded_num_cols = num_cols + 3", "self.padded_num_cols = num_rows + 3"))
B("c15-gym-seed-truthiness", "C15", "C15.R1", (W, "JumanjiToGymWrapper.reset", "expr", "seed is not None", "seed"))
B("c15-obs-float32", "C15", "C15.R3", (W, "jumanji_to_gym_obs", "expr", "np.asarray(observation)", "np.asarray(observation, dtype=np.float32)"))
B("c01-maze-count-bound-area", "C01", "C01.R3", (R + "maze/env.py", "Maze.observation_spec", "expr", "specs.Array((), jnp.int32, 'step_count')", "specs.BoundedArray((), jnp.int32, 0, self.num_rows * self.num_cols, 'step_count')"))
B("c10-connector-two-draws", "C10", "C10.R2", (R + "connector/generator.py", "UniformRandomGenerator.__call__", "replace_stmt", "starts_flat, targets_flat = jax.random.choice(", "cells = jnp.arange(self.grid_size ** 2)\nstarts_flat = jax.random.choice(pos_key, cells, (self.num_agents,), replace=False)\ntargets_flat = jax.random.choice(key, cells, (self.num_agents,), replace=False)"))
B("c04-flatpack-meshgrid-order", "C04", "C04.R7", (P + "flat_pack/env.py", "FlatPack._make_action_mask", "expr", "jnp.meshgrid(jnp.arange(num_blocks), jnp.arange(num_rotations), jnp.arange(num_placement_rows), jnp.arange(num_placement_cols), indexing='ij')", "jnp.meshgrid(jnp.arange(num_blocks), jnp.arange(num_rotations), jnp.arange(num_placement_cols), jnp.arange(num_placement_rows), indexing='ij')"))
# ---------------------------------------------------------------- sibling reset/step call sites (W4)
B("c07-snake-stale-fruit-body", "C07", "C07.R3", (R + "snake/env.py", "Snake.step", "expr", "jax.lax.cond(fruit_eaten, self._sample_fruit_coord, lambda *_: state.fruit_position, body, fruit_key)", "jax.lax.cond(fruit_eaten, self._sample_fruit_coord, lambda *_: state.fruit_position, state.body, fruit_key)"))
B("c04-maze-stale-mask-position", "C04", "C04.R8", (R + "maze/env.py", "Maze.step", "expr", "self._compute_action_mask(state.walls, agent_position)", "self._compute_action_mask(state.walls, state.agent_position)"))
B("c04-2048-stale-mask-board", "C04", "C04.R8", (L + "game_2048/env.py", "Game2048.step", "expr", "self._get_action_mask(board=updated_board)", "self._get_action_mask(board=state.board)"))
B("c04-snake-stale-mask-body", "C04", "C04.R8", (R + "snake/env.py", "Snake.step", "expr", "self._get_action_mask(head_position, body_state)", "self._get_action_mask(head_position, state.body_state)"))
T("c07-twin-snake-fruit-body-expr", "C07", (R + "snake/env.py", "Snake.step", "expr", "jax.lax.cond(fruit_eaten, self._sample_fruit_coord, lambda *_: state.fruit_position, body, fruit_key)", "jax.lax.cond(fruit_eaten, self._sample_fruit_coord, lambda *_: state.fruit_position, body_state > 0, fruit_key)"))

# ---------------------------------------------------------------- C08 (wiring clauses)
B("c08-tsp-last-reward-zero", "C08", "C08.R1", (R + "tsp/env.py", "TSP.step", "expr", "termination", "lambda reward, observation: termination(jnp.zeros_like(reward), observation)", 1))
B("c08-tsp-swap-states", "C08", "C08.R3", (R + "tsp/env.py", "TSP.step", "expr", "self.reward_fn(state, action, next_state, is_valid)", "self.reward_fn(next_state, action, state, is_valid)"))
B("c08-binpack-done-flag", "C08", "C08.R3", (P + "bin_pack/env.py", "BinPack.step", "expr", "self.reward_fn(state, action, next_state, action_is_valid, done)", "self.reward_fn(state, action, next_state, action_is_valid, ~action_is_valid)"))
B("c08-knapsack-next-is-state", "C08", "C08.R3", (P + "knapsack/env.py", "Knapsack.step", "expr", "self.reward_fn(state, action, next_state, is_valid, is_done)", "self.reward_fn(state, action, state, is_valid, is_done)"))
B("c08-minesweeper-stride", "C08", "C08.R2", (L + "minesweeper/utils.py", "explored_mine", "expr", "state.board.shape[-1]", "state.board.shape[-2]"))
T("c08-twin-kwargs", "C08", (R + "tsp/env.py", "TSP.step", "expr", "self.reward_fn(state, action, next_state, is_valid)", "self.reward_fn(state=state, action=action, next_state=next_state, is_valid=is_valid)"))
T("c08-twin-done-commuted", "C08", (P + "bin_pack/env.py", "BinPack.step", "expr", "~jnp.any(next_state.action_mask) | ~action_is_valid", "~action_is_valid | ~jnp.any(next_state.action_mask)"))

# ---------------------------------------------------------------- border tests (C07.R5 / C04.R9 / C09.R6)
B("c07-maze-row-gt0", "C07", "C07.R5", (R + "maze/env.py", "Maze._compute_action_mask", "expr", "row >= 0", "row > 0"))
B("c07-maze-col-le", "C07", "C07.R5", (R + "maze/env.py", "Maze._compute_action_mask", "expr", "col < self.num_cols", "col <= self.num_cols"))
B("c04-maze-inbounds-or", "C04", "C04.R9", (R + "maze/env.py", "Maze._compute_action_mask", "expr", "(row >= 0) & (row < self.num_rows)", "(row >= 0) | (row < self.num_rows)"))
B("c04-snake-valid-or", "C04", "C04.R9", (R + "snake/env.py", "Snake._get_action_mask", "expr", "~outside_board & ~head_bumps_body", "~outside_board | ~head_bumps_body"))
B("c07-snake-row-gt", "C07", "C07.R5", (R + "snake/env.py", "Snake._get_action_mask", "expr", "new_head_position.row >= self.num_rows", "new_head_position.row > self.num_rows"))
B("c09-lbf-ge-to-gt", "C09", "C09.R6", (R + "lbf/utils.py", "simulate_agent_movement", "expr", "new_position >= grid_size", "new_position > grid_size"))
B("c07-connector-row-le", "C07", "C07.R5", (R + "connector/utils.py", "is_valid_position", "expr", "row < grid_size", "row <= grid_size"))
B("c07-cleaner-x-le0", "C07", "C07.R5", (R + "cleaner/env.py", "Cleaner._compute_action_mask", "expr", "x >= 0", "x > 0"))
T("c07-twin-maze-flipped", "C07", (R + "maze/env.py", "Maze._compute_action_mask", "expr", "row >= 0", "0 <= row"))
T("c07-twin-maze-not-lt", "C07", (R + "maze/env.py", "Maze._compute_action_mask", "expr", "row >= 0", "~(row < 0)"))
T("c07-twin-maze-le-minus1", "C07", (R + "maze/env.py", "Maze._compute_action_mask", "expr", "col < self.num_cols", "col <= self.num_cols - 1"))
T("c04-twin-snake-demorgan", "C04", (R + "snake/env.py", "Snake._get_action_mask", "expr", "~outside_board & ~head_bumps_body", "~(outside_board | head_bumps_body)"))
T("c07-twin-snake-logical", "C07", (R + "snake/env.py", "Snake._get_action_mask", "expr", "~outside_board & ~head_bumps_body", "jnp.logical_and(jnp.logical_not(outside_board), jnp.logical_not(head_bumps_body))"))

# ---------------------------------------------------------------- termination kinds, connectives, TSP horizon
B("c09-maze-no-actions-negation", "C09", "C09.R7", (R + "maze/env.py", "Maze.step", "expr", "~jnp.any(action_mask)", "jnp.any(action_mask)"))
B("c09-maze-done-and", "C09", "C09.R7", (R + "maze/env.py", "Maze.step", "expr", "no_actions_available | target_reached", "no_actions_available & target_reached"))
B("c09-knapsack-no-items-negation", "C09", "C09.R7", (P + "knapsack/env.py", "Knapsack.step", "expr", "~jnp.any(observation.action_mask)", "jnp.any(observation.action_mask)"))
B("c04-knapsack-mask-or", "C04", "C04.R3b", (P + "knapsack/env.py", "Knapsack._state_to_observation", "expr", "~state.packed_items & (state.weights <= state.remaining_budget)", "~state.packed_items | (state.weights <= state.remaining_budget)"))
B("c11-tsp-counter-minus", "C11", "C11.R6", (R + "tsp/env.py", "TSP._update_state", "expr", "state.num_visited + 1", "state.num_visited + 2"))
B("c11-tsp-done-ne", "C11", "C11.R6", (R + "tsp/env.py", "TSP.step", "expr", "next_state.num_visited == self.num_cities", "next_state.num_visited != self.num_cities"))
T("c09-twin-maze-logical-not", "C09", (R + "maze/env.py", "Maze.step", "expr", "~jnp.any(action_mask)", "jnp.logical_not(action_mask.any())"))
T("c11-twin-tsp-ge", "C11", (R + "tsp/env.py", "TSP.step", "expr", "next_state.num_visited == self.num_cities", "next_state.num_visited >= self.num_cities"))
B("c05-jobshop-penalty-and", "C05", "C05.R4", (P + "job_shop/env.py", "JobShop.step", "expr", "invalid | all_machines_idle", "invalid & all_machines_idle", 2))

# ---------------------------------------------------------------- used-once flags (C06.R7 / C04.R10)
B("c06-binpack-mask-or", "C06", "C06.R7", (P + "bin_pack/env.py", "BinPack._get_action_mask", "expr", "~item_placed & item_mask & ems_mask & item_fits_in_ems", "~item_placed | item_mask & ems_mask & item_fits_in_ems"))
B("c06-binpack-lost-negation", "C06", "C06.R7", (P + "bin_pack/env.py", "BinPack._get_action_mask", "expr", "~item_placed", "item_placed"))
B("c04-flatpack-legal-or", "C04", "C04.R10", (P + "flat_pack/env.py", "FlatPack._is_legal_action", "expr", "~placed_blocks[block_idx] & (jnp.max(placed_mask) <= 1)", "~placed_blocks[block_idx] | (jnp.max(placed_mask) <= 1)"))
B("c06-tsp-mask-not-negated", "C06", "C06.R7", (R + "tsp/env.py", "TSP._state_to_observation", "expr", "~state.visited_mask", "state.visited_mask"))
T("c06-twin-binpack-logical", "C06", (P + "bin_pack/env.py", "BinPack._get_action_mask", "expr", "~item_placed & item_mask & ems_mask & item_fits_in_ems", "jnp.logical_and(jnp.logical_not(item_placed), item_mask & ems_mask & item_fits_in_ems)"))

# ---------------------------------------------------------------- displacement tables (C09.R9 / C04.R11)
B("c04-cleaner-mask-minus-move", "C04", "C04.R11", (R + "cleaner/env.py", "Cleaner._compute_action_mask", "expr", "agent_location + move", "agent_location - move"))
B("c09-lbf-minus-moves", "C09", "C09.R9", (R + "lbf/utils.py", "simulate_agent_movement", "expr", "agent.position + MOVES[action]", "agent.position - MOVES[action]"))
B("c09-sokoban-box-minus", "C09", "C09.R9", (R + "sokoban/env.py", "Sokoban.move_agent", "expr", "next_location + MOVES[action]", "next_location - MOVES[action]"))
T("c09-twin-lbf-commuted", "C09", (R + "lbf/utils.py", "simulate_agent_movement", "expr", "agent.position + MOVES[action]", "MOVES[action] + agent.position"))
B("c04-cvrp-mask-lost-negation", "C04", None, (R + "cvrp/env.py", "CVRP._state_to_observation", "expr", "~state.visited_mask", "state.visited_mask"))

# ---------------------------------------------------------------- C10.R7 GraphColoring adjacency
B("c10-graphcoloring-no-tril", "C10", "C10.R7", (L + "graph_coloring/generator.py", "RandomGenerator.__call__", "delete", "adj_matrix = jnp.tril(adj_matrix, k=-1)"))
B("c10-graphcoloring-diag", "C10", "C10.R7", (L + "graph_coloring/generator.py", "RandomGenerator.__call__", "expr", "jnp.tril(adj_matrix, k=-1)", "jnp.tril(adj_matrix, k=0)"))
B("c10-graphcoloring-asym", "C10", "C10.R7", (L + "graph_coloring/generator.py", "RandomGenerator.__call__", "delete", "adj_matrix += adj_matrix.T"))
T("c10-twin-graphcoloring-triu", "C10", (L + "graph_coloring/generator.py", "RandomGenerator.__call__", "expr", "jnp.tril(adj_matrix, k=-1)", "jnp.triu(adj_matrix, k=1)"))
B("c10-minesweeper-population", "C10", "C10.R8", (L + "minesweeper/utils.py", "create_flat_mine_locations", "expr", "num_rows * num_cols", "num_rows * num_rows"))
B("c10-cvrp-no-capacity-check", "C10", "C10.R8", (R + "cvrp/env.py", "CVRP.__init__", "expr", "self.max_capacity < self.max_demand", "self.max_capacity < 0"))
T("c10-twin-cvrp-flipped", "C10", (R + "cvrp/env.py", "CVRP.__init__", "expr", "self.max_capacity < self.max_demand", "self.max_demand > self.max_capacity"))

# ---------------------------------------------------------------- guarded read (B3), literal extents, bounds vectors
B("c05-sokoban-ingrid-wrong-cell", "C05", "C05.R7", (R + "sokoban/env.py", "Sokoban.update_box_push_action", "expr", "~self.in_grid(new_location + MOVES[action].squeeze())", "~self.in_grid(new_location)"))
B("c07-sokoban-ingrid-or-and", "C07", "C07.R5", (R + "sokoban/env.py", "Sokoban.in_grid", "expr", "(0 <= coordinates) & (coordinates < GRID_SIZE)", "(0 <= coordinates) | (coordinates < GRID_SIZE)"))

# ---------------------------------------------------------------- documented defaults
B("c13-default-next-obs-true", "C13", "C13.R3", ("jumanji/wrappers.py", "AutoResetWrapper", "expr", "False", "True", 1))
B("c15-gym-default-seed-1", "C15", "C15.R1", ("jumanji/wrappers.py", "JumanjiToGymWrapper.seed", "expr", "0", "1", 1))
