"""Self-test driver: builds scratch variants of the current tree (only jumanji/**/*.py, in a
temporary directory that is removed immediately afterwards), applies one AST-computed edit each,
runs the property's check on the variant, and compares with the expectation (breaking variants
must be reported with the expected rule; behaviour-preserving twins must stay silent).

python -m jstat.selftest.run [ID ...] [--jobs N] [--only mutant-id]"""
from __future__ import annotations

import json
import os
import shutil
import subprocess
import sys
import tempfile
import time
from concurrent.futures import ThreadPoolExecutor
from typing import Dict, List

from ..loader import REPO
from .mutants import MUTANTS
from .mutate import MutationError, apply_edit

VERIF = os.path.dirname(os.path.dirname(os.path.dirname(os.path.abspath(__file__))))


def copy_tree(dst: str) -> None:
    src = os.path.join(REPO, "jumanji")
    for dirpath, dirnames, filenames in os.walk(src):
        dirnames[:] = [d for d in dirnames if d != "__pycache__"]
        rel = os.path.relpath(dirpath, REPO)
        os.makedirs(os.path.join(dst, rel), exist_ok=True)
        for fn in filenames:
            if fn.endswith(".py"):
                shutil.copyfile(os.path.join(dirpath, fn), os.path.join(dst, rel, fn))


def run_one(mu: dict) -> dict:
    tmp = tempfile.mkdtemp(prefix="jstat_mut_")
    t0 = time.time()
    out = {"id": mu["id"], "property": mu["prop"], "kind": mu["kind"], "expect": mu.get("rule")}
    try:
        copy_tree(tmp)
        try:
            if mu.get("patch"):
                r0 = subprocess.run(["patch", "-p1", "-s", "-d", tmp], stdin=open(mu["patch"]), capture_output=True, text=True)
                if r0.returncode != 0:
                    raise MutationError("patch does not apply: " + r0.stdout[-120:])
            for ed in mu.get("edits", []):
                apply_edit(os.path.join(tmp, ed[0]), ed[1], ed[2], *ed[3:])
        except (MutationError, FileNotFoundError, SyntaxError) as e:
            out.update(status="not-applicable", detail=f"edit could not be applied: {e}")
            return out
        env = dict(os.environ, JSTAT_REPO=tmp, JSTAT_EVIDENCE_DIR=os.path.join(tmp, "evidence"), PYTHONPATH=VERIF,
                   PYTHONDONTWRITEBYTECODE="1", JSTAT_REPO_IS_VARIANT="1")
        r = subprocess.run([sys.executable, "-m", "jstat", mu["prop"], "quick"], env=env, cwd=VERIF, capture_output=True, text=True)
        lines = [l for l in r.stdout.splitlines() if l.startswith("  ") and mu["prop"] in l]
        rules = sorted({l.split()[0] for l in lines})
        out.update(exit=r.returncode, rules=rules, first=(lines[0].strip()[:240] if lines else r.stdout.strip().splitlines()[-1][:240] if r.stdout.strip() else r.stderr[-200:]))
        if mu["kind"] == "break":
            want = mu.get("rule")
            hit = r.returncode == 1 and (want is None or any(x.startswith(want) for x in rules))
            out["status"] = "caught" if hit else ("caught-other-rule" if r.returncode == 1 else ("analysis-error" if r.returncode == 2 else "MISSED"))
        elif mu["kind"] == "outside":
            out["status"] = "fail-closed" if r.returncode == 2 else ("UNEXPECTED-PASS" if r.returncode == 0 else "reported")
        else:
            out["status"] = "silent" if r.returncode == 0 else ("analysis-error" if r.returncode == 2 else "FALSE-ALARM")
        return out
    finally:
        shutil.rmtree(tmp, ignore_errors=True)
        out["wall_s"] = round(time.time() - t0, 2)


def archived_variants(props: List[str]) -> List[dict]:
    """Independent seeded changes (must still be reported by the checks that reported them when they were
    archived) and independent behaviour-preserving refactorings (must stay silent), replayed as patches."""
    import glob
    out = []
    for d in sorted(glob.glob(os.path.join(VERIF, "seeded", "C*-*"))):
        mp = os.path.join(d, "meta.json")
        if not os.path.exists(mp):
            continue
        meta = json.load(open(mp))
        for pid in meta.get("caught_by_now", meta.get("caught_by", [])):
            if not props or pid in props:
                out.append({"id": "seed-" + os.path.basename(d), "prop": pid, "kind": "break", "rule": None, "patch": os.path.join(d, "patch.diff")})
    for d in sorted(glob.glob(os.path.join(VERIF, "seeded", "refactors", "*-*"))):
        for pid in (props or []):
            out.append({"id": "refactor-" + os.path.basename(d), "prop": pid, "kind": "twin", "rule": None, "patch": os.path.join(d, "patch.diff")})
    return out


def run(props: List[str], jobs: int = 16, only: str = None, archived: bool = False) -> List[dict]:
    sel = [m for m in MUTANTS if (not props or m["prop"] in props) and (only is None or m["id"] == only)]
    if archived:
        sel += [m for m in archived_variants(props) if only is None or m["id"] == only]
    with ThreadPoolExecutor(max_workers=jobs) as ex:
        return list(ex.map(run_one, sel))


def main(argv):
    props, jobs, only, arch = [], 16, None, False
    i = 0
    while i < len(argv):
        if argv[i] == "--jobs":
            jobs = int(argv[i + 1]); i += 2
        elif argv[i] == "--archived":
            arch = True; i += 1
        elif argv[i] == "--only":
            only = argv[i + 1]; i += 2
        else:
            props.append(argv[i].upper()); i += 1
    res = run(props, jobs, only, arch)
    bad = 0
    for r in res:
        flag = "" if r["status"] in ("caught", "silent", "fail-closed") else "   <<<<<<"
        if flag:
            bad += 1
        print(f"{r['status']:18s} {r['id']:44s} {r.get('rules')} {flag}")
        if flag or only:
            print("      ", r.get("first") or r.get("detail"))
    print(f"{len(res)} variants, {bad} unexpected")
    return 1 if bad else 0


if __name__ == "__main__":
    sys.exit(main(sys.argv[1:]))
