"""AST-computed edits used by the self-test: each mutant locates its target by qualified
function name and by the *unparsed text of an AST node* (formatting, comments and line numbers
are irrelevant), rewrites the node and regenerates the module with ast.unparse."""
from __future__ import annotations

import ast
import copy
from typing import Callable, List, Optional


class MutationError(Exception):
    pass


def find_scope(mod: ast.Module, path: str):
    """'Class.method', 'function', 'Class', '' (module) ; nested functions 'f.g'."""
    node = mod
    if not path:
        return node
    for part in path.split("."):
        nxt = None
        for child in ast.walk(node) if not isinstance(node, ast.Module) else node.body:
            if isinstance(child, (ast.FunctionDef, ast.AsyncFunctionDef, ast.ClassDef)) and child.name == part and child is not node:
                nxt = child
                break
        if nxt is None:
            # search deeper for module level (e.g. inside if TYPE_CHECKING)
            for child in ast.walk(node):
                if isinstance(child, (ast.FunctionDef, ast.AsyncFunctionDef, ast.ClassDef)) and child.name == part and child is not node:
                    nxt = child
                    break
        if nxt is None:
            raise MutationError(f"scope {path!r}: {part!r} not found")
        node = nxt
    return node


def _norm(src: str) -> str:
    try:
        return ast.unparse(ast.parse(src.strip(), mode="eval").body)
    except SyntaxError:
        return ast.unparse(ast.parse(src.strip()))


class _ExprReplacer(ast.NodeTransformer):
    def __init__(self, old: str, new: str, nth: Optional[int]):
        self.old = _norm(old)
        self.new = ast.parse(new.strip(), mode="eval").body
        self.nth = nth
        self.count = 0
        self.done = 0

    def generic_visit(self, node):
        if isinstance(node, ast.expr):
            try:
                txt = ast.unparse(node)
            except Exception:
                txt = None
            if txt == self.old:
                self.count += 1
                if self.nth is None or self.count == self.nth:
                    self.done += 1
                    return copy.deepcopy(self.new)
        return super().generic_visit(node)


def op_expr(scope, old: str, new: str, nth: Optional[int] = 1):
    """Replace the nth (1-based; None = all) expression whose unparsed text equals `old`."""
    r = _ExprReplacer(old, new, nth)
    r.visit(scope)
    if not r.done:
        raise MutationError(f"expression {old!r} not found")


def _stmt_lists(scope):
    for node in ast.walk(scope):
        for fld in ("body", "orelse", "finalbody"):
            lst = getattr(node, fld, None)
            if isinstance(lst, list) and lst and isinstance(lst[0], ast.stmt):
                yield lst


def _find_stmt(scope, prefix: str, nth: int = 1):
    want = prefix.strip()
    c = 0
    for lst in _stmt_lists(scope):
        for i, st in enumerate(lst):
            if ast.unparse(st).startswith(want):
                c += 1
                if c == nth:
                    return lst, i
    raise MutationError(f"statement starting with {prefix!r} not found")


def op_delete(scope, prefix: str, nth: int = 1):
    lst, i = _find_stmt(scope, prefix, nth)
    del lst[i]
    if not lst:
        lst.append(ast.Pass())


def op_insert_after(scope, prefix: str, new_src: str, nth: int = 1):
    lst, i = _find_stmt(scope, prefix, nth)
    lst[i + 1:i + 1] = ast.parse(new_src).body


def op_insert_before(scope, prefix: str, new_src: str, nth: int = 1):
    lst, i = _find_stmt(scope, prefix, nth)
    lst[i:i] = ast.parse(new_src).body


def op_replace_stmt(scope, prefix: str, new_src: str, nth: int = 1):
    lst, i = _find_stmt(scope, prefix, nth)
    lst[i:i + 1] = ast.parse(new_src).body


def op_swap(scope, prefix_a: str, prefix_b: str):
    la, ia = _find_stmt(scope, prefix_a)
    lb, ib = _find_stmt(scope, prefix_b)
    la[ia], lb[ib] = lb[ib], la[ia]


def op_insert_first(scope, new_src: str):
    body = scope.body
    k = 1 if body and isinstance(body[0], ast.Expr) and isinstance(body[0].value, ast.Constant) and isinstance(body[0].value.value, str) else 0
    body[k:k] = ast.parse(new_src).body


def op_kwarg(scope, name: str, old_val: str, new_val: str, nth: int = 1):
    """Replace the value of the nth keyword argument `name=<old_val>` in any call."""
    want = _norm(old_val)
    c = 0
    for node in ast.walk(scope):
        if isinstance(node, ast.Call):
            for k in node.keywords:
                if k.arg == name and ast.unparse(k.value) == want:
                    c += 1
                    if c == nth:
                        k.value = ast.parse(new_val.strip(), mode="eval").body
                        return
    raise MutationError(f"keyword {name}={old_val!r} not found")


OPS = {"kwarg": op_kwarg, "expr": op_expr, "delete": op_delete, "insert_after": op_insert_after, "insert_before": op_insert_before,
       "replace_stmt": op_replace_stmt, "swap": op_swap, "insert_first": op_insert_first}


def apply_edit(path: str, scope_path: str, op: str, *args) -> None:
    src = open(path, encoding="utf-8").read()
    mod = ast.parse(src)
    scope = find_scope(mod, scope_path)
    OPS[op](scope, *args)
    ast.fix_missing_locations(mod)
    open(path, "w", encoding="utf-8").write(ast.unparse(mod) + "\n")
