"""Call handling of the value-flow builder: user functions are inlined (bounded), record
constructors become construct terms, JAX combinators are modelled natively."""
from __future__ import annotations

import ast
from typing import Dict, List, Optional, Tuple

from . import terms as tm
from .loader import ClassInfo, FuncInfo
from .terms import FALSE, NONE, T, TRUE, const, contains, mk
from .vfg import ARRAY_METHODS, MAX_DEPTH, MAX_UNROLL, Frame, Scope

JNP = "jax.numpy."
NORMAL_BIN = {"logical_or": "|", "bitwise_or": "|", "logical_and": "&", "bitwise_and": "&",
              "add": "+", "subtract": "-", "multiply": "*", "logical_xor": "^"}
NORMAL_CMP = {"greater_equal": ">=", "greater": ">", "less": "<", "less_equal": "<=", "equal": "==",
              "not_equal": "!="}
NORMAL_UN = {"logical_not": "~", "bitwise_not": "~", "invert": "~", "negative": "-"}

MUTATORS = {"append", "extend", "insert", "pop", "remove", "clear", "update", "setdefault", "add",
            "sort", "reverse", "popitem", "discard"}

AXIS_PARAM_NAMES = {"num_rows", "n_rows", "rows", "height", "maze_height", "grid_height", "num_cols", "n_cols", "cols",
                    "width", "maze_width", "grid_width", "row", "col"}
REPLACE_FUNCS = {"dataclasses.replace", "chex.dataclass.replace"}


class CallMixin:
    # ------------------------------------------------------------------ entry
    def eval_call(self, e: ast.Call, fr: Frame) -> T:
        # super().method(...)
        if isinstance(e.func, ast.Attribute) and isinstance(e.func.value, ast.Call) and \
                isinstance(e.func.value.func, ast.Name) and e.func.value.func.id == "super":
            args, kw = self.eval_args(e, fr)
            if fr.cls is not None:
                mro = self.tree.mro(self.typeof(fr.self_term) or fr.cls) if fr.self_term is not None else self.tree.mro(fr.cls)
                quals = [c.qual for c in mro]
                start = quals.index(fr.cls.qual) + 1 if fr.cls.qual in quals else 0
                for c in mro[start:]:
                    if e.func.attr in c.methods:
                        return self.apply_func(c.methods[e.func.attr], fr.self_term, c, args, kw, fr, e)
            return mk("call", mk("ext", "builtins.super." + e.func.attr), tuple(args), tuple(sorted(kw.items())))
        # method call on a value: keep receiver for mutator / array-method handling
        if isinstance(e.func, ast.Attribute):
            recv = self.eval(e.func.value, fr)
            name = e.func.attr
            args, kw = self.eval_args(e, fr)
            r = self.method_call(recv, name, args, kw, fr, e)
            if r is not None:
                return r
            f = self.mk_attr(recv, name, fr)
            return self.apply(f, args, kw, fr, e)
        f = self.eval(e.func, fr)
        args, kw = self.eval_args(e, fr)
        return self.apply(f, args, kw, fr, e)

    def eval_args(self, e: ast.Call, fr: Frame) -> Tuple[List[T], Dict[str, T]]:
        args: List[T] = []
        for a in e.args:
            if isinstance(a, ast.Starred):
                v = self.eval(a.value, fr)
                items = self.static_items(v) if v.kind in ("tuple", "list") else None
                if items is not None:
                    args.extend(items)
                else:
                    args.append(mk("star", v))
            else:
                args.append(self.eval(a, fr))
        kw: Dict[str, T] = {}
        for k in e.keywords:
            v = self.eval(k.value, fr)
            if k.arg is None:
                if v.kind == "phi" and all(a.kind == "dict" and all(x.kind == "const" for x in a.args[0]) for a in v.args[0]) \
                        and len({tuple(x.args[0] for x in a.args[0]) for a in v.args[0]}) == 1:
                    # the same keys on every python-level path: join the values key by key
                    a0 = v.args[0][0]
                    v = mk("dict", a0.args[0], tuple(self.zip_struct_many([a.args[1][i] for a in v.args[0]]) for i in range(len(a0.args[0]))))
                if v.kind == "dict" and all(x.kind == "const" and isinstance(x.args[0], str) for x in v.args[0]):
                    for kk, vv in zip(v.args[0], v.args[1]):
                        kw[kk.args[0]] = vv
                else:
                    kw["**"] = v
            else:
                kw[k.arg] = v
        return args, kw

    # ------------------------------------------------------------------ methods on values
    def method_call(self, recv: T, name: str, args, kw, fr: Frame, node) -> Optional[T]:
        k = recv.kind
        # record.replace(**kw) / namedtuple._replace
        if name in ("replace", "_replace") and not args and kw and "**" not in kw and (
                self._recordish(recv) or recv.kind not in ("ext", "mod", "cls", "const")):
            out = self.mk_copy(recv)
            for n, v in kw.items():
                out = self.mk_update(out, n, v)
            return out
        if k == "dict":
            if name == "values" and not args:
                return mk("list", recv.args[1])
            if name == "keys" and not args:
                return mk("list", recv.args[0])
            if name == "items" and not args:
                return mk("list", tuple(mk("tuple", (a, b)) for a, b in zip(recv.args[0], recv.args[1])))
            if name == "copy" and not args:
                return recv
            if name == "get" and args and args[0].kind == "const":
                for a, b in zip(recv.args[0], recv.args[1]):
                    if a is args[0]:
                        return b
                return args[1] if len(args) > 1 else NONE
            if name == "update":
                keys, vals = list(recv.args[0]), list(recv.args[1])
                items = dict(kw)
                if args and args[0].kind == "dict":
                    for a, b in zip(args[0].args[0], args[0].args[1]):
                        if a.kind == "const":
                            items[a.args[0]] = b
                new_ok = not args or args[0].kind == "dict"
                self.record("mutate", recv, name, None, fr, node)
                if new_ok and isinstance(node.func, ast.Attribute):
                    for n, v in items.items():
                        kk = const(n)
                        if kk in keys:
                            vals[keys.index(kk)] = v
                        else:
                            keys.append(kk)
                            vals.append(v)
                    self.rebind(node.func.value, mk("dict", tuple(keys), tuple(vals)), fr)
                    return NONE
        if name in MUTATORS and k not in ("ext", "mod", "cls"):
            ci = self.typeof(recv)
            if ci is None or self.tree.find_method(ci, name) is None:
                if not (name in ("pop", "update", "add", "sort", "clear", "remove", "insert") and k in ("ext",)):
                    self.record("mutate", recv, name, None, fr, node)
                    new = mk("call", mk("ext", "builtins.mutated." + name), (recv,) + tuple(args), tuple(sorted(kw.items())))
                    if k == "list" and name == "append" and len(args) == 1:
                        new = mk("list", recv.args[0] + (args[0],))
                    if isinstance(node.func, ast.Attribute) and k != "self":
                        self.rebind(node.func.value, new, fr)
                    if name in ("pop", "setdefault", "popitem"):
                        return mk("call", mk("attr", recv, name), tuple(args), tuple(sorted(kw.items())))
                    return NONE
        # array methods normalised to jnp functions when the receiver is not a known class
        if name in ARRAY_METHODS and k not in ("ext", "mod", "cls", "self", "dict", "list", "tuple"):
            ci = self.typeof(recv)
            if ci is None or self.tree.find_method(ci, name) is None:
                return self.ext_call(JNP + name, [recv] + list(args), kw, fr, node)
        return None

    def _recordish(self, t: T) -> bool:
        ci = self.typeof(t)
        if ci is not None and self.tree.is_record(ci):
            return True
        return t.kind in ("construct", "update")

    # ------------------------------------------------------------------ apply
    def apply(self, f: T, args: List[T], kw: Dict[str, T], fr: Optional[Frame], node) -> T:
        k = f.kind
        if k == "fn":
            m = f.meta
            a2, k2 = list(args), dict(kw)
            if m.get("partial"):
                pa, pk = m["partial"]
                a2 = list(pa) + a2
                k2 = {**dict(pk), **k2}
            if m.get("combinator"):
                return self.apply_combinator(m["combinator"], m["cargs"], m["ckw"], a2, k2, fr, node)
            return self.apply_func(m["func"], m["self"], m["cls"], a2, k2, fr, node, closure=m.get("scope"),
                                   def_self=m.get("def_self"))
        if k == "cls":
            return self.instantiate(self.tree.classes[f.args[0]], args, kw, fr, node)
        if k == "ext":
            return self.ext_call(f.args[0], args, kw, fr, node)
        if k == "call" and f.args[0].kind == "ext" and f.args[0].args[0] == "operator.itemgetter" and len(f.args[1]) == 1 and len(args) == 1 and not kw:
            return self.mk_index(args[0], f.args[1][0])       # operator.itemgetter(i)(x) is x[i]
        if k == "call" and f.args[0].kind == "ext" and f.args[0].args[0] == "operator.attrgetter" and len(f.args[1]) > 1 and len(args) == 1 and not kw \
                and all(x.kind == "const" and isinstance(x.args[0], str) and "." not in x.args[0] for x in f.args[1]):
            return mk("tuple", tuple(self.mk_attr(args[0], x.args[0], fr) for x in f.args[1]))
        if k == "call" and f.args[0].kind == "ext" and f.args[0].args[0] == "operator.methodcaller" and f.args[1] and len(args) == 1 and not kw \
                and f.args[1][0].kind == "const" and isinstance(f.args[1][0].args[0], str):
            r_ = self.method_call(args[0], f.args[1][0].args[0], list(f.args[1][1:]), dict(f.args[2]), fr, node)
            if r_ is not None:
                return r_
            return mk("call", mk("attr", args[0], f.args[1][0].args[0]), tuple(f.args[1][1:]), tuple(f.args[2]))
        if k == "call" and f.args[0].kind == "ext" and f.args[0].args[0] == "operator.attrgetter" and len(f.args[1]) == 1 and len(args) == 1 and not kw \
                and f.args[1][0].kind == "const" and isinstance(f.args[1][0].args[0], str) and "." not in f.args[1][0].args[0]:
            return self.mk_attr(args[0], f.args[1][0].args[0], fr)
        if k == "phi":
            return self.mk_phi([self.apply(a, args, kw, fr, node) for a in f.args[0]])
        if k == "choice":
            return self.mk_choice(f.args[0], f.args[1], [self.apply(a, args, kw, fr, node) for a in f.args[2]])
        if k == "attr":
            recv, name = f.args
            # collaborator call with candidate classes: self.generator(...) / self.reward_fn.method(...)
            cands = self.receiver_classes(recv)
            if cands:
                outs = []
                for c in cands:
                    meth = self.tree.find_method(c, name)
                    if meth is not None:
                        outs.append(self.with_override(recv, c, lambda: self.apply_func(meth, recv, c, args, kw, fr, node)))
                if outs:
                    return self.mk_phi(outs)
        # calling a value with candidate classes -> __call__
        cands = self.receiver_classes(f)
        if cands:
            outs = []
            for c in cands:
                meth = self.tree.find_method(c, "__call__")
                if meth is not None:
                    outs.append(self.with_override(f, c, lambda: self.apply_func(meth, f, c, args, kw, fr, node)))
            if outs:
                return self.mk_phi(outs)
        return mk("call", f, tuple(args), tuple(sorted(kw.items())))

    def receiver_classes(self, recv: T) -> List[ClassInfo]:
        if recv.id in self.type_override:
            return [self.type_override[recv.id]]
        ci = self.typeof(recv)
        if ci is not None:
            return [ci]
        if recv.kind == "attr":
            base = self.typeof(recv.args[0])
            if base is not None:
                return self.model.candidates(base, recv.args[1])
        return []

    def with_override(self, recv: T, c: ClassInfo, thunk):
        old = self.type_override.get(recv.id)
        self.type_override[recv.id] = c
        try:
            return thunk()
        finally:
            if old is None:
                self.type_override.pop(recv.id, None)
            else:
                self.type_override[recv.id] = old

    # ------------------------------------------------------------------ user functions
    def bind(self, f: FuncInfo, self_term: Optional[T], args: List[T], kw: Dict[str, T],
             scope: Scope, fr_def: Frame) -> None:
        a = f.node.args
        params = [x.arg for x in a.posonlyargs + a.args]
        defaults = [None] * (len(params) - len(a.defaults)) + list(a.defaults)
        is_method = f.cls is not None and isinstance(f.node, ast.FunctionDef) and not f.is_static \
            and "<locals>" not in f.qual and "<lambda" not in f.qual
        pos = list(args)
        if is_method and params:
            if self_term is not None:
                scope.vars[params[0]] = self_term
                params_rest = params[1:]
                defaults = defaults[1:]
            else:
                params_rest = params  # unbound method: receiver comes as first positional
        else:
            params_rest = params
        i = 0
        star_src = None
        star_off = 0
        for p, d in zip(params_rest, defaults):
            if p in kw:
                scope.vars[p] = kw[p]
                continue
            if i < len(pos) and pos[i].kind != "star":
                scope.vars[p] = pos[i]
                i += 1
                continue
            if i < len(pos) and pos[i].kind == "star":
                star_src = pos[i].args[0]
                scope.vars[p] = self.mk_proj(star_src, star_off)   # `*r` unpacks r like `a, b = r`
                star_off += 1
                continue
            if d is not None:
                scope.vars[p] = self.eval(d, fr_def)
            elif "**" in kw:
                scope.vars[p] = mk("index", kw["**"], const(p))
            else:
                scope.vars[p] = self.opaque(f"unbound param {p} of {f.qual}")
        if a.vararg is not None:
            rest = pos[i:] if not (i < len(pos) and pos[i].kind == "star" and star_off) else pos[i + 1:]
            scope.vars[a.vararg.arg] = mk("tuple", tuple(rest))
        for p, d in zip(a.kwonlyargs, a.kw_defaults):
            if p.arg in kw:
                scope.vars[p.arg] = kw[p.arg]
            elif d is not None:
                scope.vars[p.arg] = self.eval(d, fr_def)
        if a.kwarg is not None:
            names = set(params_rest) | {p.arg for p in a.kwonlyargs}
            extra = {k: v for k, v in kw.items() if k not in names and k != "**"}
            if "**" in kw and not extra:
                scope.vars[a.kwarg.arg] = kw["**"]
            elif "**" in kw:
                scope.vars[a.kwarg.arg] = mk("dict", tuple(const(k) for k in extra) + (mk("star", kw["**"]),),
                                             tuple(extra.values()) + (kw["**"],))
            else:
                scope.vars[a.kwarg.arg] = mk("dict", tuple(const(k) for k in extra), tuple(extra.values()))

    def apply_func(self, f: FuncInfo, self_term: Optional[T], cls: Optional[ClassInfo], args: List[T],
                   kw: Dict[str, T], fr: Optional[Frame], node, closure: Optional[Scope] = None,
                   def_self: Optional[T] = None) -> T:
        depth = (fr.depth + 1) if fr is not None else 0
        if depth > MAX_DEPTH:
            return self.opaque(f"depth limit at {f.qual}")
        skey = (id(f.node), self_term.id if self_term is not None else 0)
        if self._stack.count(skey) >= 2:
            return self.opaque(f"recursion {f.qual}")
        ov = tuple(sorted((i, c.qual) for i, c in self.type_override.items()))
        mkey = (id(f.node), self_term.id if self_term is not None else 0, id(closure) if closure else 0,
                tuple(a.id for a in args), tuple((k, v.id) for k, v in sorted(kw.items())), ov)
        if closure is None and mkey in self._memo:
            result, suffix = self._memo[mkey]
            if len(self.path) + len(suffix) <= 48:
                self.path.extend(suffix)
            return result
        if fr is not None:
            self.call_edges.add((fr.func.qual, f.qual))
        self.visited_funcs.setdefault(f.qual, f)
        scope = Scope(closure)
        st = self_term if self_term is not None else def_self
        frame = Frame(f, f.module, scope, st, cls if cls is not None else f.cls, depth)
        fr_def = Frame(f, f.module, Scope(closure), st, cls, depth)
        self.bind(f, self_term, args, kw, scope, fr_def)
        site = None
        if fr is not None and not isinstance(f.node, ast.Lambda):
            site = [f, dict(scope.vars), fr.func, node, None]
            self.callsites.append(site)
        for pn, pv in scope.vars.items():
            if pn in AXIS_PARAM_NAMES:
                self.bindings.append((f, pn, pv, fr.func if fr is not None else None, node))
        # parameter types from annotations
        a = f.node.args
        for p in a.posonlyargs + a.args + a.kwonlyargs:
            if p.annotation is not None and p.arg in scope.vars:
                v = scope.vars[p.arg]
                if v.id not in self.term_type and v.kind in ("param", "elem", "loopin", "leaf", "proj", "index", "attr", "call", "opaque"):
                    c = self.model.annotation_class(f.module, p.annotation)
                    if c is not None and self.tree.is_record(c):
                        self.term_type[v.id] = c
        self._stack.append(skey)
        path_base = len(self.path)
        try:
            if isinstance(f.node, ast.Lambda):
                result = self.eval(f.node.body, frame)
            else:
                ended = self.exec_block(f.node.body, frame)
                if not ended:
                    frame.return_paths.append(tuple(self.path))   # falls off the end
                if not frame.returns:
                    result = tm.NORETURN if ended else NONE
                else:
                    result = frame.returns[0]
                    for r in frame.returns[1:]:
                        result = self.zip_struct(lambda x, y: x if x is y else self.mk_phi([x, y]), result, r)
        finally:
            self._stack.pop()
            del self.path[path_base:]
        # what is known after the call returned normally: the path condition of its only normal exit
        suffix: tuple = ()
        if not isinstance(f.node, ast.Lambda) and len(frame.return_paths) == 1:
            suffix = tuple(frame.return_paths[0][path_base:])
            if len(self.path) + len(suffix) > 48:
                suffix = ()
            self.path.extend(suffix)
        if site is not None:
            site[4] = result
        if closure is None:
            self._memo[mkey] = (result, suffix)
        return result

    def instantiate(self, ci: ClassInfo, args: List[T], kw: Dict[str, T], fr, node) -> T:
        rec = self.tree.is_record(ci)
        if rec and self.tree.find_method(ci, "__init__") is None:
            fields = self.tree.fields(ci)
            vals: Dict[str, T] = {}
            pos = list(args)
            i = 0
            star_off = 0
            for fname in fields:
                if fname in kw:
                    vals[fname] = kw[fname]
                elif i < len(pos) and pos[i].kind != "star":
                    vals[fname] = pos[i]
                    i += 1
                elif i < len(pos) and pos[i].kind == "star":
                    vals[fname] = self.mk_proj(pos[i].args[0], star_off)   # `*r` unpacks r like `a, b = r`
                    star_off += 1
                elif "**" in kw:
                    src = kw["**"]
                    vals[fname] = mk("index", src, const(fname))
                else:
                    d = self.tree.field_default(ci, fname)
                    if d is not None:
                        vals[fname] = self.eval_const_expr(d[0].module, d[1], f"{d[0].qual}.{fname}.<default>")
                    else:
                        vals[fname] = self.opaque(f"missing field {fname} of {ci.qual}", node, fr)
            t = mk("construct", ci.qual, tuple((n, vals[n]) for n in fields))
            if fr is not None and node is not None and t.meta is None:
                t.meta = {"loc": f"{fr.module.relpath}:{getattr(node, 'lineno', 0)}", "func": fr.func.qual}
            return t
        ext = self.tree.external_bases(ci)
        if any(b.split(".")[-1] in ("IntEnum", "Enum") for b in ext) and len(args) == 1:
            return mk("call", mk("cls", ci.qual), tuple(args), ())
        t = mk("new", ci.qual, tuple(args), tuple(sorted(kw.items())))
        return t

    # ------------------------------------------------------------------ externals
    def ext_call(self, q: str, args: List[T], kw: Dict[str, T], fr, node) -> T:
        short = q.split(".")[-1]
        if fr is not None:
            self.ext_calls.append((q, fr.func, node))
        if q.startswith("jax.numpy.") or q.startswith("jax.lax.") or q.startswith("numpy."):
            if short in NORMAL_BIN and len(args) == 2 and not kw:
                return self.mk_bin(NORMAL_BIN[short], args[0], args[1], fr)
            if short in NORMAL_CMP and len(args) == 2 and not kw:
                return self.mk_cmp(NORMAL_CMP[short], args[0], args[1], fr)
            if short in NORMAL_UN and len(args) == 1 and not kw:
                return self.mk_un(NORMAL_UN[short], args[0])
        h = getattr(self, "x_" + q.replace(".", "_"), None)
        if h is not None:
            r = h(args, kw, fr, node)
            if r is not None:
                return r
        return mk("call", mk("ext", q), tuple(args), tuple(sorted(kw.items())))

    def _combinator(self, name, args, kw):
        t = tm.TT.fresh("fn", name)
        t.meta = {"combinator": name, "cargs": list(args), "ckw": dict(kw), "name": name, "func": None,
                  "self": None, "cls": None}
        return t

    def callback(self, f: T, args: List[T], kw: Dict[str, T], fr, node) -> T:
        """Apply a function value as a combinator callback: its parameters are fresh
        containers (JAX unflattens tracers), which the freshness analysis relies on."""
        def fresh(a):
            ci = self.typeof(a)
            if ci is not None and self.tree.is_record(ci) == "dataclass":
                return self.mk_copy(a)
            return a
        args = [fresh(a) for a in args]
        kw = {k: fresh(v) for k, v in kw.items()}
        for a in args:
            self.callback_params.add(a.id)
        return self.apply(f, args, kw, fr, node)

    # ---- jax.lax.cond / switch / select / where
    def x_jax_lax_cond(self, args, kw, fr, node):
        if len(args) < 3:
            return None
        pred, tf, ff, ops = args[0], args[1], args[2], list(args[3:])
        if "operand" in kw:
            ops = [kw["operand"]]
        a = self.callback(tf, ops, {}, fr, node)
        b = self.callback(ff, ops, {}, fr, node)
        return self.zip_choice("cond", pred, [a, b])

    def zip_choice(self, how, pred, alts: List[T]) -> T:
        """Choice distributed over tuples (so that unpacking a cond result works)."""
        if all(x.kind == "tuple" for x in alts) and len({len(x.args[0]) for x in alts}) == 1 \
                and not any(y.kind == "star" for x in alts for y in x.args[0]):
            n = len(alts[0].args[0])
            return mk("tuple", tuple(self.zip_choice(how, pred, [x.args[0][i] for x in alts]) for i in range(n)))
        return self.mk_choice(how, pred, alts)

    def x_jax_lax_switch(self, args, kw, fr, node):
        if len(args) < 2:
            return None
        idx, branches, ops = args[0], args[1], list(args[2:])
        items = self.static_items(branches)
        if items is None:
            return None
        outs = [self.callback(b, ops, {}, fr, node) for b in items]
        if len(outs) == 2:
            from .normal import bool_index
            b = bool_index(idx)
            if b is not None:   # switch(int(b), [f0, f1]) == cond(b, f1, f0)
                return self.zip_choice("cond", b, [outs[1], outs[0]])
        return self.zip_choice("switch", idx, outs)

    def x_jax_lax_select(self, args, kw, fr, node):
        if len(args) == 3:
            return self.zip_choice("select", args[0], [args[1], args[2]])
        return None

    def x_jax_numpy_where(self, args, kw, fr, node):
        if len(args) == 3:
            return self.mk_choice("where", args[0], [args[1], args[2]])
        return None

    def x_jax_numpy_select(self, args, kw, fr, node):
        """jnp.select(condlist, choicelist, default): the first true condition wins."""
        cl = args[0] if args else kw.get("condlist")
        ch = args[1] if len(args) > 1 else kw.get("choicelist")
        df = args[2] if len(args) > 2 else kw.get("default", const(0))
        if cl is None or ch is None or cl.kind not in ("list", "tuple") or ch.kind not in ("list", "tuple") or len(cl.args[0]) != len(ch.args[0]):
            return None
        out = df
        for c, v in reversed(list(zip(cl.args[0], ch.args[0]))):
            out = self.mk_choice("where", c, [v, out])
        return out

    # ---- mapping combinators
    def x_jax_vmap(self, args, kw, fr, node):
        return self._combinator("vmap", args, kw)

    def x_jax_jit(self, args, kw, fr, node):
        return args[0] if args else None

    def x_functools_partial(self, args, kw, fr, node):
        if not args:
            return None
        f = args[0]
        if f.kind == "fn" and not f.meta.get("combinator"):
            m = f.meta
            pa, pk = m.get("partial") or ((), ())
            t = self.fn_value(m["func"], m["self"], m["cls"], m.get("scope"),
                              partial=(tuple(pa) + tuple(args[1:]), tuple(pk) + tuple(sorted(kw.items()))))
            for k in ("def_self", "def_frame_func"):
                if k in m:
                    t.meta[k] = m[k]
            return t
        if f.kind == "cls":
            t = tm.TT.fresh("fn", "partial-cls")
            t.meta = {"combinator": "partial", "cargs": list(args), "ckw": dict(kw), "name": "partial"}
            return t
        if f.kind == "fn":
            t = tm.TT.fresh("fn", "partial-comb")
            t.meta = {"combinator": "partial", "cargs": list(args), "ckw": dict(kw), "name": "partial"}
            return t
        if f.kind == "ext":
            # functools.partial(jax.jit, backend=...), partial(jax.vmap, in_axes=...): apply later with the extra arguments
            t = tm.TT.fresh("fn", "partial-ext")
            t.meta = {"combinator": "partial", "cargs": list(args), "ckw": dict(kw), "name": "partial"}
            return t
        return None

    def apply_combinator(self, name, cargs, ckw, args, kw, fr, node) -> T:
        if name == "partial":
            return self.apply(cargs[0], list(cargs[1:]) + list(args), {**ckw, **kw}, fr, node)
        if name == "vmap":
            f = cargs[0]
            in_axes = ckw.get("in_axes", cargs[1] if len(cargs) > 1 else None)
            axes: Optional[List[Optional[T]]] = None
            if in_axes is not None:
                if in_axes.kind in ("tuple", "list"):
                    axes = list(in_axes.args[0])
                else:
                    axes = [in_axes] * len(args)
            mapped = []
            for i, a in enumerate(args):
                ax = axes[i] if axes is not None and i < len(axes) else None
                if ax is not None and ax is NONE:
                    mapped.append(a)
                else:
                    mapped.append(self.wrap("elem", a))
            mkw = {k: self.wrap("elem", v) for k, v in kw.items()}
            out = self.callback(f, mapped, mkw, fr, node)
            return self.wrap("batched", out)
        return mk("call", mk("ext", "combinator." + name), tuple(args), ())

    def x_jax_lax_map(self, args, kw, fr, node):
        if len(args) < 2:
            return None
        out = self.callback(args[0], [self.wrap("elem", args[1])], {}, fr, node)
        return self.wrap("batched", out)

    def x_jax_lax_scan(self, args, kw, fr, node):
        f = args[0] if args else kw.get("f")
        init = args[1] if len(args) > 1 else kw.get("init")
        xs = args[2] if len(args) > 2 else kw.get("xs", NONE)
        if f is None or init is None:
            return None
        uid = next(tm._uid)
        cin = self.map_struct(lambda x: self._wrap1("loopin", x, uid), init)
        x = self.wrap("elem", xs) if xs is not NONE else NONE
        out = self.callback(f, [cin, x], {}, fr, node)
        c_out = self.mk_proj(out, 0, 2)
        y = self.mk_proj(out, 1, 2)
        carry = self.zip_struct(lambda a, b: mk("loop", a, b), init, c_out)
        return mk("tuple", (carry, self.wrap("batched", y)))

    def x_jax_lax_while_loop(self, args, kw, fr, node):
        if len(args) != 3:
            return None
        cf, bf, init = args
        uid = next(tm._uid)
        vin = self.map_struct(lambda x: self._wrap1("loopin", x, uid), init)
        self.callback(cf, [vin], {}, fr, node)
        out = self.callback(bf, [vin], {}, fr, node)
        return self.zip_struct(lambda a, b: mk("loop", a, b), init, out)

    def x_jax_lax_fori_loop(self, args, kw, fr, node):
        if len(args) != 4:
            return None
        lo, hi, bf, init = args
        uid = next(tm._uid)
        vin = self.map_struct(lambda x: self._wrap1("loopin", x, uid), init)
        i = tm.TT.fresh("opaque", "fori index")
        out = self.callback(bf, [i, vin], {}, fr, node)
        return self.zip_struct(lambda a, b: mk("loop", a, b), init, out)

    def _tree_map(self, args, kw, fr, node):
        if len(args) < 2:
            return None
        f, trees = args[0], list(args[1:])
        is_leaf = kw.get("is_leaf")
        t0 = trees[0]
        # leaf-wise selection between whole trees: tree_map(lambda a, b: where(p, a, b), x, y) with p independent of
        # the leaves is the selection where(p, x, y) of the trees themselves
        if len(trees) >= 2 and is_leaf is None:
            probe = [mk("leaf", t) for t in trees]
            if len({q.id for q in probe}) == len(probe):
                out = self.callback(f, probe, {}, fr, node)
                if out is not None and out.kind == "choice" and all(any(a is q for q in probe) for a in out.args[2]) \
                        and not any(contains(out.args[1], q) for q in probe):
                    return self.mk_choice(out.args[0], out.args[1], [trees[[q.id for q in probe].index(a.id)] for a in out.args[2]])
        # static containers: map over the items (only when no is_leaf or items are leaves)
        if t0.kind in ("list", "tuple", "dict") and all(t.kind == t0.kind for t in trees):
            seqs = [t.args[1] if t.kind == "dict" else t.args[0] for t in trees]
            if len({len(s) for s in seqs}) == 1 and not any(x.kind == "star" for s in seqs for x in s):
                outs = []
                for items in zip(*seqs):
                    if items[0].kind in ("list", "tuple", "dict") and is_leaf is None:
                        outs.append(self._tree_map([f] + list(items), kw, fr, node))
                    elif items[0].kind == "construct" and is_leaf is None:
                        outs.append(self._tree_map([f] + list(items), kw, fr, node))
                    else:
                        outs.append(self.callback(f, list(items), {}, fr, node))
                if t0.kind == "dict":
                    return mk("dict", t0.args[0], tuple(outs))
                return mk(t0.kind, tuple(outs))
        if t0.kind == "construct" and is_leaf is None and all(
                t.kind == "construct" and len(t.args[1]) == len(t0.args[1]) for t in trees):
            outs = []
            for i, (n, v) in enumerate(t0.args[1]):
                items = [t.args[1][i][1] for t in trees]
                if items[0].kind in ("construct", "list", "tuple", "dict"):
                    outs.append((n, self._tree_map([f] + items, kw, fr, node)))
                else:
                    outs.append((n, self.callback(f, items, {}, fr, node)))
            return mk("construct", t0.args[0], tuple(outs))
        leaves = [mk("leaf", t) for t in trees]
        out = self.callback(f, leaves, {}, fr, node)
        r = mk("call", mk("ext", "jax.tree_util.tree_map"), (out,) + tuple(trees), ())
        c = self.typeof(t0)
        if c is not None:
            self.term_type[r.id] = c
        return r

    def x_jax_tree_util_tree_map(self, args, kw, fr, node):
        return self._tree_map(args, kw, fr, node)

    def x_jax_tree_map(self, args, kw, fr, node):
        return self._tree_map(args, kw, fr, node)

    def x_tree_map_structure(self, args, kw, fr, node):
        return self._tree_map(args, kw, fr, node)

    def x_jax_tree_util_tree_leaves(self, args, kw, fr, node):
        return None

    # ---- dataclasses.replace
    def x_dataclasses_replace(self, args, kw, fr, node):
        if len(args) == 1:
            out = self.mk_copy(args[0])
            for n, v in kw.items():
                out = self.mk_update(out, n, v)
            return out
        return None

    # ---- builtins
    def x_builtins_tuple(self, args, kw, fr, node):
        if not args:
            return mk("tuple", ())
        v = args[0]
        if v.kind in ("tuple", "list"):
            return mk("tuple", v.args[0])
        if v.kind == "construct":
            ci = self.tree.classes.get(v.args[0])
            if ci is not None and self.tree.is_record(ci) == "namedtuple":
                return mk("tuple", tuple(x for _, x in v.args[1]))
        ci = self.typeof(v)
        if ci is not None and self.tree.is_record(ci) == "namedtuple":
            return mk("tuple", tuple(self.mk_attr(v, n, fr) for n in self.tree.fields(ci)))
        return None

    def x_builtins_list(self, args, kw, fr, node):
        if not args:
            return mk("list", ())
        v = args[0]
        if v.kind in ("tuple", "list"):
            return mk("list", v.args[0])
        if v.kind == "dict":
            return mk("list", v.args[0])
        return None

    def x_builtins_dict(self, args, kw, fr, node):
        if not args:
            return mk("dict", tuple(const(k) for k in kw), tuple(kw.values()))
        if args[0].kind == "dict" and not kw:
            return args[0]
        return None

    def x_builtins_len(self, args, kw, fr, node):
        if args and args[0].kind == "cls":
            ci = self.tree.classes.get(args[0].args[0])
            if ci is not None and any(b.split(".")[-1] in ("Enum", "IntEnum") for b in self.tree.external_bases(ci)):
                members = [n for n in ci.class_attrs if not n.startswith("_")]
                return const(len(members))
        if args and args[0].kind in ("tuple", "list", "dict") and not any(
                x.kind == "star" for x in args[0].args[0]):
            return const(len(args[0].args[0]))
        return None

    def x_builtins_range(self, args, kw, fr, node):
        if args and all(a.kind == "const" and isinstance(a.args[0], int) for a in args):
            r = range(*[a.args[0] for a in args])
            if len(r) <= MAX_UNROLL:
                return mk("list", tuple(const(i) for i in r))
        return None

    def x_builtins_zip(self, args, kw, fr, node):
        seqs = [self.static_items(a) if a.kind in ("tuple", "list") else None for a in args]
        if args and all(s is not None for s in seqs):
            return mk("list", tuple(mk("tuple", tuple(x)) for x in zip(*seqs)))
        if args:
            return self.wrap("batched", mk("tuple", tuple(self.wrap("elem", a) for a in args)))
        return None

    def x_builtins_enumerate(self, args, kw, fr, node):
        if args and args[0].kind in ("tuple", "list"):
            s = self.static_items(args[0])
            if s is not None:
                return mk("list", tuple(mk("tuple", (const(i), x)) for i, x in enumerate(s)))
        return None

    def x_itertools_product(self, args, kw, fr, node):
        import itertools
        seqs = [self.static_items(a) if a.kind in ("tuple", "list") else None for a in args]
        if args and all(s is not None for s in seqs) and not kw:
            prod = list(itertools.product(*seqs))
            if len(prod) <= MAX_UNROLL:
                return mk("list", tuple(mk("tuple", tuple(x)) for x in prod))
        return None

    def x_builtins_isinstance(self, args, kw, fr, node):
        if len(args) == 2 and args[1].kind == "cls":
            ci = self.typeof(args[0])
            if ci is not None:
                return const(self.tree.is_subclass(ci, args[1].args[0]))
        return None

    def _op_cmp(self, op, args, kw, fr):
        return self.mk_cmp(op, args[0], args[1], fr) if len(args) == 2 and not kw else None

    def x_operator_eq(self, args, kw, fr, node):
        return self._op_cmp("==", args, kw, fr)

    def x_operator_ne(self, args, kw, fr, node):
        return self._op_cmp("!=", args, kw, fr)

    def x_operator_lt(self, args, kw, fr, node):
        return self._op_cmp("<", args, kw, fr)

    def x_operator_le(self, args, kw, fr, node):
        return self._op_cmp("<=", args, kw, fr)

    def x_operator_gt(self, args, kw, fr, node):
        return self._op_cmp(">", args, kw, fr)

    def x_operator_ge(self, args, kw, fr, node):
        return self._op_cmp(">=", args, kw, fr)

    def x_operator_and_(self, args, kw, fr, node):
        return self.mk_bin("&", args[0], args[1], fr) if len(args) == 2 and not kw else None

    def x_operator_or_(self, args, kw, fr, node):
        return self.mk_bin("|", args[0], args[1], fr) if len(args) == 2 and not kw else None

    def x_operator_add(self, args, kw, fr, node):
        return self.mk_bin("+", args[0], args[1], fr) if len(args) == 2 and not kw else None

    def x_operator_sub(self, args, kw, fr, node):
        return self.mk_bin("-", args[0], args[1], fr) if len(args) == 2 and not kw else None

    def x_operator_invert(self, args, kw, fr, node):
        return self.mk_un("~", args[0]) if len(args) == 1 and not kw else None

    def x_operator_not_(self, args, kw, fr, node):
        return self.mk_un("not", args[0]) if len(args) == 1 and not kw else None

    def x_builtins_staticmethod(self, args, kw, fr, node):
        return args[0] if len(args) == 1 and not kw else None     # staticmethod(f) called through the class is f

    def x_operator_getitem(self, args, kw, fr, node):
        if len(args) == 2 and not kw:
            return self.mk_index(args[0], args[1])
        return None

    def x_builtins_getattr(self, args, kw, fr, node):
        if len(args) >= 2 and args[1].kind == "const" and isinstance(args[1].args[0], str):
            return self.mk_attr(args[0], args[1].args[0], fr)
        return None

    def x_builtins_setattr(self, args, kw, fr, node):
        if len(args) == 3:
            self.record("store_attr", args[0], "<setattr>", args[2], fr, node, extra=args[1])
        return None

    def x_builtins_vars(self, args, kw, fr, node):
        if len(args) == 1 and args[0].kind == "construct":
            return mk("dict", tuple(const(n) for n, _ in args[0].args[1]), tuple(v for _, v in args[0].args[1]))
        return None

    def x_builtins_bool(self, args, kw, fr, node):
        if args and args[0].kind == "const" and isinstance(args[0].args[0], (int, float, bool, str, type(None))):
            return const(bool(args[0].args[0]))
        if args:
            self.record("py_branch", args[0], "bool()", None, fr, node)
        return None

    def x_builtins_int(self, args, kw, fr, node):
        if args:
            if args[0].kind == "const" and isinstance(args[0].args[0], (int, float, bool)):
                return const(int(args[0].args[0]))
            self.record("py_branch", args[0], "int()", None, fr, node)
        return None

    def x_builtins_float(self, args, kw, fr, node):
        if args:
            self.record("py_branch", args[0], "float()", None, fr, node)
        return None
