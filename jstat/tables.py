"""Evaluator for the closed table sub-language used by the permutation puzzles (C17.R4).

This is partial evaluation of *constant index tables taken from the source* by the analyser itself,
with the analyser's own definitions of the few array operators involved (arange, repeat, flip,
concatenate, roll, rot90, fancy gather / scatter).  No repository code is imported or executed.  Cube
entries are opaque `Label`s: any attempt to compute with them is an error, which is how data-independence
of the moves (C17.R3) is enforced."""
from __future__ import annotations

import ast
from typing import Any, Dict, List, Optional, Tuple

from .loader import AnalysisError, Tree


class Unsupported(AnalysisError):
    pass


class Label:
    __slots__ = ("i",)

    def __init__(self, i: int):
        self.i = i

    def __repr__(self):
        return f"L{self.i}"


class Arr:
    """n-dimensional array as a flat list + shape."""

    def __init__(self, data: List[Any], shape: Tuple[int, ...]):
        self.data = list(data)
        self.shape = tuple(shape)

    @staticmethod
    def of(x) -> "Arr":
        if isinstance(x, Arr):
            return x
        if isinstance(x, (list, tuple)):
            items = [Arr.of(y) for y in x]
            if not items:
                return Arr([], (0,))
            sh = items[0].shape
            if any(i.shape != sh for i in items):
                raise Unsupported("ragged array literal")
            return Arr([d for i in items for d in i.data], (len(items),) + sh)
        return Arr([x], ())

    def get(self, idx: Tuple[int, ...]):
        off = 0
        for i, n in zip(idx, self.shape):
            if i < 0:
                i += n
            if not 0 <= i < n:
                raise Unsupported(f"index {idx} out of range for shape {self.shape}")
            off = off * n + i
        return off

    def sub(self, i: int) -> "Arr":
        n = self.shape[0]
        if i < 0:
            i += n
        size = 1
        for s in self.shape[1:]:
            size *= s
        return Arr(self.data[i * size:(i + 1) * size], self.shape[1:])

    def tolist(self):
        if not self.shape:
            return self.data[0]
        return [self.sub(i).tolist() for i in range(self.shape[0])]


def a_arange(n: int) -> Arr:
    return Arr(list(range(n)), (n,))


def a_repeat(x, n: int) -> Arr:
    a = Arr.of(x)
    if a.shape == ():
        return Arr([a.data[0]] * n, (n,))
    if len(a.shape) != 1:
        raise Unsupported("repeat of a non 1-D array")
    return Arr([v for v in a.data for _ in range(n)], (a.shape[0] * n,))


def a_flip(x) -> Arr:
    a = Arr.of(x)
    if len(a.shape) != 1:
        raise Unsupported("flip of a non 1-D array")
    return Arr(list(reversed(a.data)), a.shape)


def a_concat(xs) -> Arr:
    arrs = [Arr.of(x) for x in xs]
    if any(len(a.shape) != 1 for a in arrs):
        raise Unsupported("concatenate of non 1-D arrays")
    return Arr([v for a in arrs for v in a.data], (sum(a.shape[0] for a in arrs),))


def a_roll(x, shift: int) -> Arr:
    a = Arr.of(x)
    if len(a.shape) != 1:
        raise Unsupported("roll of a non 1-D array")
    n = a.shape[0]
    if n == 0:
        return a
    s = shift % n
    # numpy.roll: element i moves to position (i + shift) mod n
    return Arr(a.data[-s:] + a.data[:-s] if s else list(a.data), a.shape)


def a_rot90(x, k: int) -> Arr:
    """numpy.rot90 of a square 2-D array: k > 0 counter-clockwise quarter turns."""
    a = Arr.of(x)
    if len(a.shape) != 2 or a.shape[0] != a.shape[1]:
        raise Unsupported("rot90 of a non-square array")
    n = a.shape[0]
    m = [[a.data[r * n + c] for c in range(n)] for r in range(n)]
    for _ in range(k % 4):
        # one counter-clockwise quarter turn: new[r][c] = old[c][n-1-r]
        m = [[m[c][n - 1 - r] for c in range(n)] for r in range(n)]
    return Arr([v for row in m for v in row], a.shape)


class EnumVal:
    def __init__(self, cls: str, name: str, value):
        self.cls, self.name, self.value = cls, name, value

    def __repr__(self):
        return f"{self.cls}.{self.name}"


class Closure:
    def __init__(self, node, env: Dict[str, Any], module):
        self.node, self.env, self.module = node, env, module


class AtIndexer:
    def __init__(self, arr: Arr, idx):
        self.arr, self.idx = arr, idx


class MiniEval:
    """Evaluates the table sub-language over python ints, Arr, EnumVal and closures."""

    def __init__(self, tree: Tree):
        self.tree = tree
        self.trace: List[Tuple[str, Dict[str, Any]]] = []  # (function name, bound args) for hooks

    # ---- name resolution in a module
    def global_name(self, m, name: str):
        q = self.tree.resolve_name(m, name)
        if q is None:
            import builtins
            if name in ("len", "range", "int", "list", "tuple"):
                return ("builtin", name)
            raise Unsupported(f"name {name} not resolvable in {m.name}")
        r = self.tree.lookup(q)
        if r is None:
            return ("ext", q)
        kind, obj = r
        if kind == "func":
            return Closure(obj.node, {}, obj.module)
        if kind == "class":
            ext = self.tree.external_bases(obj)
            if any(b.split(".")[-1] in ("Enum", "IntEnum") for b in ext):
                return ("enum", obj)
            raise Unsupported(f"class {q} in table code")
        if kind == "const":
            mm, e = obj
            return self.eval(e, {}, mm)
        if kind == "module":
            return ("mod", obj)
        raise Unsupported(f"{q}: {kind}")

    def enum_members(self, ci) -> List[EnumVal]:
        out = []
        for st in ci.node.body:
            if isinstance(st, ast.Assign) and isinstance(st.targets[0], ast.Name):
                out.append(EnumVal(ci.name, st.targets[0].id, self.eval(st.value, {}, ci.module)))
            elif isinstance(st, ast.AnnAssign) and st.value is not None and isinstance(st.target, ast.Name):
                out.append(EnumVal(ci.name, st.target.id, self.eval(st.value, {}, ci.module)))
        return out

    # ---- calls
    def call(self, f, args: List[Any], kw: Dict[str, Any]):
        if isinstance(f, Closure):
            node = f.node
            env = dict(f.env)
            a = node.args
            params = [x.arg for x in a.args]
            defaults = [None] * (len(params) - len(a.defaults)) + list(a.defaults)
            for i, (p, d) in enumerate(zip(params, defaults)):
                if i < len(args):
                    env[p] = args[i]
                elif p in kw:
                    env[p] = kw[p]
                elif d is not None:
                    env[p] = self.eval(d, f.env, f.module)
                else:
                    raise Unsupported(f"missing argument {p}")
            if a.vararg is not None:
                env[a.vararg.arg] = tuple(args[len(params):])
            if isinstance(node, ast.Lambda):
                return self.eval(node.body, env, f.module)
            self.trace.append((node.name, {p: env.get(p) for p in params}))
            return self.exec_body(node.body, env, f.module)
        raise Unsupported(f"call of {f!r}")

    def exec_body(self, body, env, m):
        for st in body:
            if isinstance(st, ast.Expr) and isinstance(st.value, ast.Constant):
                continue
            if isinstance(st, ast.Return):
                return self.eval(st.value, env, m)
            if isinstance(st, ast.Assign):
                v = self.eval(st.value, env, m)
                for t in st.targets:
                    self.assign(t, v, env)
            elif isinstance(st, ast.AnnAssign) and st.value is not None:
                self.assign(st.target, self.eval(st.value, env, m), env)
            elif isinstance(st, ast.If):
                t = self.eval(st.test, env, m)
                if not isinstance(t, bool):
                    raise Unsupported("non-static if in table code")
                r = self.exec_body(st.body if t else st.orelse, env, m)
                if r is not None:
                    return r
            elif isinstance(st, (ast.FunctionDef,)):
                env[st.name] = Closure(st, env, m)
            elif isinstance(st, ast.For) and not st.orelse:
                it = self.eval(st.iter, env, m)
                if isinstance(it, tuple) and it and it[0] == "enum":
                    it = self.enum_members(it[1])
                if isinstance(it, Arr):
                    it = it.tolist()
                for x in list(it):
                    self.assign(st.target, x, env)
                    r = self.exec_body(st.body, env, m)
                    if r is not None:
                        return r
            elif isinstance(st, ast.AugAssign) and isinstance(st.target, ast.Name):
                cur = env.get(st.target.id)
                v = self.eval(st.value, env, m)
                if isinstance(cur, list) and isinstance(st.op, ast.Add):
                    env[st.target.id] = cur + list(v)
                else:
                    self._num(cur)
                    self._num(v)
                    ops = {ast.Add: lambda: cur + v, ast.Sub: lambda: cur - v, ast.Mult: lambda: cur * v}
                    if type(st.op) not in ops:
                        raise Unsupported("augmented assignment operator")
                    env[st.target.id] = ops[type(st.op)]()
            elif isinstance(st, ast.Expr) and isinstance(st.value, ast.Call) and isinstance(st.value.func, ast.Attribute) \
                    and st.value.func.attr in ("append", "extend") and isinstance(st.value.func.value, ast.Name) \
                    and isinstance(env.get(st.value.func.value.id), list):
                arg = self.eval(st.value.args[0], env, m)
                if st.value.func.attr == "append":
                    env[st.value.func.value.id].append(arg)
                else:
                    env[st.value.func.value.id].extend(list(arg))
            elif isinstance(st, ast.Pass):
                pass
            else:
                raise Unsupported(f"statement {type(st).__name__} in table code")
        return None

    def assign(self, t, v, env):
        if isinstance(t, ast.Name):
            env[t.id] = v
        elif isinstance(t, (ast.Tuple, ast.List)):
            vals = list(v) if isinstance(v, (tuple, list)) else (v.tolist() if isinstance(v, Arr) else None)
            if vals is None or len(vals) != len(t.elts):
                raise Unsupported("tuple unpack")
            for x, y in zip(t.elts, vals):
                self.assign(x, y, env)
        else:
            raise Unsupported("assignment target")

    # ---- expressions
    def eval(self, e, env, m):
        if isinstance(e, ast.Constant):
            return e.value
        if isinstance(e, ast.Name):
            if e.id in env:
                return env[e.id]
            return self.global_name(m, e.id)
        if isinstance(e, (ast.List, ast.Tuple)):
            vals = [self.eval(x, env, m) for x in e.elts]
            return vals if isinstance(e, ast.List) else tuple(vals)
        if isinstance(e, ast.UnaryOp) and isinstance(e.op, ast.USub):
            v = self.eval(e.operand, env, m)
            self._num(v)
            return -v
        if isinstance(e, ast.BinOp):
            a, b = self.eval(e.left, env, m), self.eval(e.right, env, m)
            self._num(a)
            self._num(b)
            ops = {ast.Add: lambda: a + b, ast.Sub: lambda: a - b, ast.Mult: lambda: a * b, ast.FloorDiv: lambda: a // b, ast.Mod: lambda: a % b}
            if type(e.op) not in ops:
                raise Unsupported(f"operator {type(e.op).__name__}")
            return ops[type(e.op)]()
        if isinstance(e, ast.Compare) and len(e.ops) == 1:
            a, b = self.eval(e.left, env, m), self.eval(e.comparators[0], env, m)
            self._num(a)
            self._num(b)
            if isinstance(e.ops[0], ast.Eq):
                return a == b
            if isinstance(e.ops[0], ast.NotEq):
                return a != b
            ops = {ast.Lt: a < b, ast.LtE: a <= b, ast.Gt: a > b, ast.GtE: a >= b}
            if type(e.ops[0]) in ops:
                return ops[type(e.ops[0])]
            raise Unsupported("comparison in table code")
        if isinstance(e, ast.Attribute):
            v = self.eval(e.value, env, m)
            if isinstance(v, tuple) and v and v[0] == "enum":
                for mem in self.enum_members(v[1]):
                    if mem.name == e.attr:
                        return mem
                raise Unsupported(f"enum member {e.attr}")
            if isinstance(v, EnumVal) and e.attr == "value":
                return v.value
            if isinstance(v, Arr) and e.attr == "shape":
                return v.shape
            if isinstance(v, Arr) and e.attr == "at":
                return ("at", v)
            if isinstance(v, tuple) and v and v[0] in ("ext", "mod"):
                base = v[1] if v[0] == "ext" else v[1].name
                if v[0] == "mod":
                    return self.global_name(v[1], e.attr)
                return ("ext", base + "." + e.attr)
            if isinstance(v, AtIndexer) and e.attr == "set":
                return ("at_set", v)
            raise Unsupported(f"attribute .{e.attr} on {type(v).__name__}")
        if isinstance(e, ast.Subscript):
            v = self.eval(e.value, env, m)
            idx = self.eval(e.slice, env, m)
            if isinstance(v, tuple) and v and v[0] == "at":
                return AtIndexer(v[1], idx)
            if isinstance(v, tuple):
                return v[idx]
            if isinstance(v, list):
                return v[idx]
            if isinstance(v, Arr):
                return self.gather(v, idx)
            raise Unsupported("subscript")
        if isinstance(e, ast.Call):
            f = self.eval(e.func, env, m)
            args = []
            for a in e.args:
                if isinstance(a, ast.Starred):
                    args.extend(list(self.eval(a.value, env, m)))
                else:
                    args.append(self.eval(a, env, m))
            kw = {k.arg: self.eval(k.value, env, m) for k in e.keywords}
            return self.apply(f, args, kw)
        if isinstance(e, ast.ListComp) and len(e.generators) >= 1:
            out = []

            def rec(i, env2):
                if i == len(e.generators):
                    out.append(self.eval(e.elt, env2, m))
                    return
                g = e.generators[i]
                it = self.eval(g.iter, env2, m)
                if isinstance(it, tuple) and it and it[0] == "enum":
                    it = self.enum_members(it[1])
                for x in list(it):
                    env3 = dict(env2)
                    self.assign(g.target, x, env3)
                    rec(i + 1, env3)

            rec(0, dict(env))
            return out
        if isinstance(e, ast.Lambda):
            return Closure(e, env, m)
        raise Unsupported(f"expression {type(e).__name__} in table code")

    def _num(self, v):
        if isinstance(v, Label) or (isinstance(v, Arr) and any(isinstance(x, Label) for x in v.data)):
            raise Unsupported("arithmetic on cube values: the move is not a data-independent rearrangement")
        if not isinstance(v, (int, bool)):
            raise Unsupported(f"arithmetic on {type(v).__name__}")

    def gather(self, v: Arr, idx):
        if isinstance(idx, int):
            return v.sub(idx)
        if isinstance(idx, tuple) and all(isinstance(i, int) for i in idx):
            if len(idx) == len(v.shape):
                return v.data[v.get(idx)]
            raise Unsupported("partial integer index")
        if isinstance(idx, tuple) and all(isinstance(i, Arr) for i in idx) and len(idx) == len(v.shape):
            n = idx[0].shape[0]
            if any(i.shape != (n,) for i in idx):
                raise Unsupported("fancy index shapes")
            return Arr([v.data[v.get(tuple(i.data[k] for i in idx))] for k in range(n)], (n,))
        raise Unsupported("index form")

    def scatter(self, v: Arr, idx, val) -> Arr:
        out = Arr(list(v.data), v.shape)
        if isinstance(idx, int):
            val = Arr.of(val)
            if val.shape != v.shape[1:]:
                raise Unsupported("scatter shape")
            size = len(val.data)
            i = idx + v.shape[0] if idx < 0 else idx
            out.data[i * size:(i + 1) * size] = val.data
            return out
        if isinstance(idx, tuple) and all(isinstance(i, Arr) for i in idx) and len(idx) == len(v.shape):
            val = Arr.of(val)
            n = idx[0].shape[0]
            if val.shape != (n,):
                raise Unsupported("scatter value shape")
            targets = [v.get(tuple(i.data[k] for i in idx)) for k in range(n)]
            if len(set(targets)) != len(targets):
                raise Unsupported("scatter with repeated target positions")
            for k, t in enumerate(targets):
                out.data[t] = val.data[k]
            return out
        raise Unsupported("scatter index form")

    def apply(self, f, args, kw):
        if isinstance(f, Closure):
            return self.call(f, args, kw)
        if isinstance(f, tuple) and f and f[0] == "at_set":
            ai = f[1]
            return self.scatter(ai.arr, ai.idx, args[0])
        if isinstance(f, tuple) and f and f[0] == "builtin":
            n = f[1]
            if n == "len":
                x = args[0]
                if isinstance(x, tuple) and x and x[0] == "enum":
                    return len(self.enum_members(x[1]))
                return len(x) if not isinstance(x, Arr) else x.shape[0]
            if n == "range":
                return list(range(*args))
            if n == "int":
                return int(args[0])
            if n in ("list", "tuple"):
                x = args[0]
                if isinstance(x, tuple) and x and x[0] == "enum":
                    return self.enum_members(x[1])
                return list(x)
        if isinstance(f, tuple) and f and f[0] == "ext":
            q = f[1]
            short = q.split(".")[-1]
            if not (q.startswith("jax.numpy.") or q.startswith("numpy.")):
                raise Unsupported(f"external call {q}")
            if short in ("array", "asarray"):
                return Arr.of(args[0])
            if short == "arange" and len(args) == 1:
                return a_arange(args[0])
            if short == "repeat":
                return a_repeat(args[0], kw.get("repeats", args[1] if len(args) > 1 else None))
            if short == "flip":
                return a_flip(args[0])
            if short == "concatenate":
                return a_concat(args[0])
            if short == "roll":
                return a_roll(args[0], kw.get("shift", args[1] if len(args) > 1 else None))
            if short == "rot90":
                return a_rot90(args[0], kw.get("k", args[1] if len(args) > 1 else 1))
            if short == "divmod":
                return divmod(args[0], args[1])
            if short == "stack":
                return tuple(args[0])
            raise Unsupported(f"operator {q} outside the table sub-language")
        raise Unsupported(f"call of {f!r}")
