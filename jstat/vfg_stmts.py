"""Statement walk of the value-flow builder (mixin for vfg.Evaluator)."""
from __future__ import annotations

import ast
from typing import Dict, List, Optional

from . import terms as tm
from .terms import NONE, T, const, mk
from .vfg import BINOPS, MAX_UNROLL, Frame, Scope


def assigned_names(stmts) -> List[str]:
    out: List[str] = []

    def tgt(t):
        if isinstance(t, ast.Name):
            if t.id not in out:
                out.append(t.id)
        elif isinstance(t, (ast.Tuple, ast.List)):
            for x in t.elts:
                tgt(x)
        elif isinstance(t, ast.Starred):
            tgt(t.value)
        elif isinstance(t, (ast.Attribute, ast.Subscript)):
            tgt(t.value)

    class V(ast.NodeVisitor):
        def visit_Assign(self, n):
            for t in n.targets:
                tgt(t)
            self.generic_visit(n)

        def visit_AugAssign(self, n):
            tgt(n.target)
            self.generic_visit(n)

        def visit_AnnAssign(self, n):
            if n.value is not None:
                tgt(n.target)
            self.generic_visit(n)

        def visit_For(self, n):
            tgt(n.target)
            self.generic_visit(n)

        def visit_NamedExpr(self, n):
            tgt(n.target)
            self.generic_visit(n)

        def visit_With(self, n):
            for i in n.items:
                if i.optional_vars is not None:
                    tgt(i.optional_vars)
            self.generic_visit(n)

        def visit_FunctionDef(self, n):
            if n.name not in out:
                out.append(n.name)

        def visit_Lambda(self, n):
            pass

    v = V()
    for s in stmts:
        v.visit(s)
    return out


class StmtMixin:
    def exec_block(self, stmts, fr: Frame) -> bool:
        for st in stmts:
            m = getattr(self, "s_" + type(st).__name__, None)
            if m is None:
                self.opaque("stmt " + type(st).__name__, st, fr)
                continue
            if m(st, fr):
                return True
        return False

    def s_Expr(self, st, fr):
        if isinstance(st.value, ast.Constant):
            return False
        v = self.eval(st.value, fr)
        return v is tm.NORETURN   # a call that always raises ends the block

    def s_Pass(self, st, fr):
        return False

    def s_Import(self, st, fr):
        for a in st.names:
            if a.asname:
                fr.scope.vars[a.asname] = self.resolve_qual(a.name)
            else:
                top = a.name.split(".")[0]
                fr.scope.vars[top] = self.resolve_qual(top)
        return False

    def s_ImportFrom(self, st, fr):
        base = st.module or ""
        if st.level:
            parts = fr.module.name.split(".")
            if not fr.module.is_pkg:
                parts = parts[:-1]
            parts = parts[: len(parts) - (st.level - 1)]
            base = ".".join(parts + ([st.module] if st.module else []))
        for a in st.names:
            fr.scope.vars[a.asname or a.name] = self.resolve_qual(f"{base}.{a.name}" if base else a.name)
        return False

    def s_Assign(self, st, fr):
        v = self.eval(st.value, fr)
        for t in st.targets:
            self.assign(t, v, fr)
        return False

    def s_AnnAssign(self, st, fr):
        if st.value is not None:
            self.assign(st.target, self.eval(st.value, fr), fr)
        return False

    def s_AugAssign(self, st, fr):
        cur = self.eval(st.target, fr)
        v = self.eval(st.value, fr)
        self.assign(st.target, self.mk_bin(BINOPS[type(st.op)], cur, v, fr), fr, aug=True)
        return False

    def s_Return(self, st, fr):
        v = self.eval(st.value, fr) if st.value is not None else NONE
        fr.returns.append(v)
        fr.return_paths.append(tuple(self.path))
        if len(self.exits) < 20000:
            self.exits.append(("return", fr.func, st, tuple(self.path), v))
        return True

    def s_Raise(self, st, fr):
        v = self.eval(st.exc, fr) if st.exc is not None else None
        if len(self.exits) < 20000:
            self.exits.append(("raise", fr.func, st, tuple(self.path), v))
        return True

    def s_Assert(self, st, fr):
        t = self.eval(st.test, fr)
        self.record("py_branch", t, "assert", None, fr, st)
        if len(self.exits) < 20000:
            self.exits.append(("raise", fr.func, st, tuple(self.path) + ((t, False, fr.func),), None))
        self.path.append((t, True, fr.func))
        return False

    def s_Delete(self, st, fr):
        for t in st.targets:
            if isinstance(t, ast.Name):
                fr.scope.vars.pop(t.id, None)
        return False

    def s_Global(self, st, fr):
        self.record("global_decl", None, ",".join(st.names), None, fr, st)
        return False

    def s_Nonlocal(self, st, fr):
        self.record("nonlocal_decl", None, ",".join(st.names), None, fr, st)
        return False

    def s_FunctionDef(self, st, fr):
        from .loader import FuncInfo
        fi = FuncInfo(st.name, f"{fr.func.qual}.<locals>.{st.name}", fr.module, st, cls=fr.cls)
        t = self.fn_value(fi, None, fr.cls, scope=fr.scope)
        t.meta["def_self"] = fr.self_term
        t.meta["def_frame_func"] = fr.func
        fr.scope.vars[st.name] = t
        return False

    def s_ClassDef(self, st, fr):
        fr.scope.vars[st.name] = self.opaque("local class", st, fr)
        return False

    def _merge(self, fr: Frame, test: T, before: Dict[str, T], a: Optional[Dict[str, T]],
               b: Optional[Dict[str, T]]):
        """Join variable maps of the two branches of a python `if` (None = branch terminated)."""
        if a is None and b is None:
            return
        if a is None:
            fr.scope.vars = b
            return
        if b is None:
            fr.scope.vars = a
            return
        out = {}
        for k in list(a.keys()) + [k for k in b.keys() if k not in a]:
            va, vb = a.get(k), b.get(k)
            if va is None or vb is None:
                # defined on one path only: keep the definition (use is guarded by the same test)
                out[k] = va if va is not None else vb
            elif va is vb:
                out[k] = va
            else:
                out[k] = self.zip_struct(lambda x, y: x if x is y else self.mk_phi([x, y]), va, vb)
        fr.scope.vars = out

    def s_If(self, st, fr):
        test = self.eval(st.test, fr)
        self.record("py_branch", test, "if", None, fr, st)
        if test.kind == "const":
            return self.exec_block(st.body if test.args[0] else st.orelse, fr)
        before = dict(fr.scope.vars)
        nret = len(fr.returns)
        base = len(self.path)
        self.path.append((test, True, fr.func))
        ta = self.exec_block(st.body, fr)
        del self.path[base:]
        a = None if ta else fr.scope.vars
        fr.scope.vars = dict(before)
        self.path.append((test, False, fr.func))
        tb = self.exec_block(st.orelse, fr)
        del self.path[base:]
        b = None if tb else fr.scope.vars
        self._merge(fr, test, before, a, b)
        if ta and not tb:       # the code after the `if` runs only when the test was false
            self.path.append((test, False, fr.func))
        elif tb and not ta:
            self.path.append((test, True, fr.func))
        return ta and tb

    def s_For(self, st, fr):
        it = self.eval(st.iter, fr)
        items = self.static_items(it)
        if items is not None and len(items) <= MAX_UNROLL:
            for x in items:
                self.assign(st.target, x, fr)
                if self.exec_block(st.body, fr):
                    return True
            if st.orelse:
                return self.exec_block(st.orelse, fr)
            return False
        # one symbolic pass
        names = [n for n in assigned_names(st.body)]
        uid = next(tm._uid)
        before = {}
        for n in names:
            v = fr.scope.lookup(n)
            if v is not None:
                before[n] = v
                fr.scope.vars[n] = self.map_struct(lambda x: self._wrap1("loopin", x, uid), v)
        self.assign(st.target, self.wrap("elem", it), fr)
        base = len(self.path)
        self.exec_block(st.body, fr)
        del self.path[base:]
        for n in names:
            v = fr.scope.lookup(n)
            if v is not None and n in before:
                fr.scope.vars[n] = self.zip_struct(lambda x, y: x if x is y else mk("loop", x, y), before[n], v)
            elif v is not None:
                fr.scope.vars[n] = self.map_struct(lambda y: mk("loop", NONE, y), v)
        if st.orelse:
            self.exec_block(st.orelse, fr)
        return False

    def s_While(self, st, fr):
        names = [n for n in assigned_names(st.body)]
        uid = next(tm._uid)
        before = {}
        for n in names:
            v = fr.scope.lookup(n)
            if v is not None:
                before[n] = v
                fr.scope.vars[n] = self.map_struct(lambda x: self._wrap1("loopin", x, uid), v)
        test = self.eval(st.test, fr)
        self.record("py_branch", test, "while", None, fr, st)
        base = len(self.path)
        self.exec_block(st.body, fr)
        del self.path[base:]
        for n in names:
            v = fr.scope.lookup(n)
            if v is not None and n in before:
                fr.scope.vars[n] = self.zip_struct(lambda x, y: x if x is y else mk("loop", x, y), before[n], v)
        return False

    def s_With(self, st, fr):
        for i in st.items:
            v = self.eval(i.context_expr, fr)
            if i.optional_vars is not None:
                self.assign(i.optional_vars, mk("call", mk("ext", "builtins.enter"), (v,), ()), fr)
        return self.exec_block(st.body, fr)

    def s_Try(self, st, fr):
        t = self.exec_block(st.body, fr)
        for h in st.handlers:
            saved = dict(fr.scope.vars)
            self.exec_block(h.body, fr)
            fr.scope.vars = saved
        if st.finalbody:
            self.exec_block(st.finalbody, fr)
        return t

    def s_Break(self, st, fr):
        return False

    def s_Continue(self, st, fr):
        return False
