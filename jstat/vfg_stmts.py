"""Statement walk of the value-flow builder (mixin for vfg.Evaluator)."""
from __future__ import annotations

import ast
from typing import Dict, List, Optional

from . import terms as tm
from .terms import NONE, T, const, mk
from .vfg import BINOPS, MAX_UNROLL, Frame, Scope


def assigned_names(stmts) -> List[str]:
    out: List[str] = []

    def tgt(t):
        if isinstance(t, ast.Name):
            if t.id not in out:
                out.append(t.id)
        elif isinstance(t, (ast.Tuple, ast.List)):
            for x in t.elts:
                tgt(x)
        elif isinstance(t, ast.Starred):
            tgt(t.value)
        elif isinstance(t, (ast.Attribute, ast.Subscript)):
            tgt(t.value)

    class V(ast.NodeVisitor):
        def visit_Assign(self, n):
            for t in n.targets:
                tgt(t)
            self.generic_visit(n)

        def visit_AugAssign(self, n):
            tgt(n.target)
            self.generic_visit(n)

        def visit_AnnAssign(self, n):
            if n.value is not None:
                tgt(n.target)
            self.generic_visit(n)

        def visit_For(self, n):
            tgt(n.target)
            self.generic_visit(n)

        def visit_NamedExpr(self, n):
            tgt(n.target)
            self.generic_visit(n)

        def visit_With(self, n):
            for i in n.items:
                if i.optional_vars is not None:
                    tgt(i.optional_vars)
            self.generic_visit(n)

        def visit_FunctionDef(self, n):
            if n.name not in out:
                out.append(n.name)

        def visit_Lambda(self, n):
            pass

    v = V()
    for s in stmts:
        v.visit(s)
    return out


class StmtMixin:
    def exec_block(self, stmts, fr: Frame) -> bool:
        for st in stmts:
            m = getattr(self, "s_" + type(st).__name__, None)
            if m is None:
                self.opaque("stmt " + type(st).__name__, st, fr)
                continue
            if m(st, fr):
                return True
        return False

    def s_Expr(self, st, fr):
        if isinstance(st.value, ast.Constant):
            return False
        v = self.eval(st.value, fr)
        return v is tm.NORETURN   # a call that always raises ends the block

    def s_Pass(self, st, fr):
        return False

    def s_Import(self, st, fr):
        for a in st.names:
            if a.asname:
                fr.scope.vars[a.asname] = self.resolve_qual(a.name)
            else:
                top = a.name.split(".")[0]
                fr.scope.vars[top] = self.resolve_qual(top)
        return False

    def s_ImportFrom(self, st, fr):
        base = st.module or ""
        if st.level:
            parts = fr.module.name.split(".")
            if not fr.module.is_pkg:
                parts = parts[:-1]
            parts = parts[: len(parts) - (st.level - 1)]
            base = ".".join(parts + ([st.module] if st.module else []))
        for a in st.names:
            fr.scope.vars[a.asname or a.name] = self.resolve_qual(f"{base}.{a.name}" if base else a.name)
        return False

    def s_Assign(self, st, fr):
        v = self.eval(st.value, fr)
        for t in st.targets:
            self.assign(t, v, fr)
        return False

    def s_AnnAssign(self, st, fr):
        if st.value is not None:
            self.assign(st.target, self.eval(st.value, fr), fr)
        return False

    def s_AugAssign(self, st, fr):
        cur = self.eval(st.target, fr)
        v = self.eval(st.value, fr)
        self.assign(st.target, self.mk_bin(BINOPS[type(st.op)], cur, v, fr), fr, aug=True)
        return False

    def s_Return(self, st, fr):
        v = self.eval(st.value, fr) if st.value is not None else NONE
        fr.returns.append(v)
        fr.return_paths.append(tuple(self.path))
        if len(self.exits) < 20000:
            self.exits.append(("return", fr.func, st, tuple(self.path), v))
        return True

    def s_Raise(self, st, fr):
        v = self.eval(st.exc, fr) if st.exc is not None else None
        if len(self.exits) < 20000:
            self.exits.append(("raise", fr.func, st, tuple(self.path), v))
        return True

    def s_Assert(self, st, fr):
        t = self.eval(st.test, fr)
        self.record("py_branch", t, "assert", None, fr, st)
        if len(self.exits) < 20000:
            self.exits.append(("raise", fr.func, st, tuple(self.path) + ((t, False, fr.func),), None))
        self.path.append((t, True, fr.func))
        return False

    def s_Delete(self, st, fr):
        for t in st.targets:
            if isinstance(t, ast.Name):
                fr.scope.vars.pop(t.id, None)
        return False

    def s_Global(self, st, fr):
        self.record("global_decl", None, ",".join(st.names), None, fr, st)
        return False

    def s_Nonlocal(self, st, fr):
        self.record("nonlocal_decl", None, ",".join(st.names), None, fr, st)
        return False

    def s_FunctionDef(self, st, fr):
        from .loader import FuncInfo
        fi = FuncInfo(st.name, f"{fr.func.qual}.<locals>.{st.name}", fr.module, st, cls=fr.cls)
        t = self.fn_value(fi, None, fr.cls, scope=fr.scope)
        t.meta["def_self"] = fr.self_term
        t.meta["def_frame_func"] = fr.func
        fr.scope.vars[st.name] = t
        return False

    def s_ClassDef(self, st, fr):
        fr.scope.vars[st.name] = self.opaque("local class", st, fr)
        return False

    def _merge(self, fr: Frame, test: T, before: Dict[str, T], a: Optional[Dict[str, T]],
               b: Optional[Dict[str, T]]):
        """Join variable maps of the two branches of a python `if` (None = branch terminated)."""
        if a is None and b is None:
            return
        if a is None:
            fr.scope.vars = b
            return
        if b is None:
            fr.scope.vars = a
            return
        out = {}
        for k in list(a.keys()) + [k for k in b.keys() if k not in a]:
            va, vb = a.get(k), b.get(k)
            if va is None or vb is None:
                # defined on one path only: keep the definition (use is guarded by the same test)
                out[k] = va if va is not None else vb
            elif va is vb:
                out[k] = va
            else:
                out[k] = self.zip_struct(lambda x, y: x if x is y else self.mk_phi([x, y]), va, vb)
        fr.scope.vars = out

    def s_If(self, st, fr):
        test = self.eval(st.test, fr)
        self.record("py_branch", test, "if", None, fr, st)
        if test.kind == "const":
            return self.exec_block(st.body if test.args[0] else st.orelse, fr)
        before = dict(fr.scope.vars)
        nret = len(fr.returns)
        base = len(self.path)
        self.path.append((test, True, fr.func))
        ta = self.exec_block(st.body, fr)
        del self.path[base:]
        a = None if ta else fr.scope.vars
        fr.scope.vars = dict(before)
        self.path.append((test, False, fr.func))
        tb = self.exec_block(st.orelse, fr)
        del self.path[base:]
        b = None if tb else fr.scope.vars
        self._merge(fr, test, before, a, b)
        if ta and not tb:       # the code after the `if` runs only when the test was false
            self.path.append((test, False, fr.func))
        elif tb and not ta:
            self.path.append((test, True, fr.func))
        return ta and tb

    def s_Match(self, st, fr):
        """`match subject: case ...` as an if / elif chain: class patterns are isinstance tests, literal patterns
        equality tests, `_` / a bare capture always matches; other patterns are opaque tests."""
        subj = self.eval(st.subject, fr)

        def test_of(pat):
            if isinstance(pat, ast.MatchClass) and not pat.patterns and not pat.kwd_patterns:
                return mk("call", mk("ext", "builtins.isinstance"), (subj, self.eval(pat.cls, fr)), ())
            if isinstance(pat, ast.MatchValue):
                return self.mk_cmp("==", subj, self.eval(pat.value, fr), fr)
            if isinstance(pat, ast.MatchSingleton):
                return self.mk_cmp("is", subj, const(pat.value), fr)
            if isinstance(pat, ast.MatchAs) and pat.pattern is None:
                if pat.name is not None:
                    fr.scope.vars[pat.name] = subj
                return tm.TRUE
            if isinstance(pat, ast.MatchOr):
                ts = [test_of(p) for p in pat.patterns]
                return mk("bool", "or", tuple(ts))
            return self.opaque("match pattern " + type(pat).__name__, pat, fr)

        def run(cases):
            if not cases:
                return False
            c = cases[0]
            test = test_of(c.pattern)
            if c.guard is not None:
                test = mk("bool", "and", (test, self.eval(c.guard, fr)))
            self.record("py_branch", test, "if", None, fr, c.pattern)
            if test is tm.TRUE:
                return self.exec_block(c.body, fr)
            before = dict(fr.scope.vars)
            base = len(self.path)
            self.path.append((test, True, fr.func))
            ta = self.exec_block(c.body, fr)
            del self.path[base:]
            a = None if ta else fr.scope.vars
            fr.scope.vars = dict(before)
            self.path.append((test, False, fr.func))
            tb = run(cases[1:])
            del self.path[base:]
            b = None if tb else fr.scope.vars
            self._merge(fr, test, before, a, b)
            if ta and not tb:
                self.path.append((test, False, fr.func))
            elif tb and not ta:
                self.path.append((test, True, fr.func))
            return ta and tb

        return run(list(st.cases))

    def s_For(self, st, fr):
        it = self.eval(st.iter, fr)
        items = self.static_items(it)
        if items is not None and len(items) <= MAX_UNROLL:
            ctx = {"breaks": [], "continues": []}
            fr.loops.append(ctx)
            base = len(self.path)
            alive = True      # normal control flow reaches the next iteration / the else clause
            try:
                for x in items:
                    self.assign(st.target, x, fr)
                    ctx["continues"] = []
                    ended = self.exec_block(st.body, fr)
                    states = ([fr.scope.vars] if not ended else []) + ctx["continues"]
                    if not states:
                        alive = False
                        break
                    fr.scope.vars = self._join_states(states)
            finally:
                fr.loops.pop()
            ended_else = (not alive) or (self.exec_block(st.orelse, fr) if st.orelse else False)
            exits = ([fr.scope.vars] if not ended_else else []) + ctx["breaks"]
            if ctx["breaks"]:
                del self.path[base:]     # exits under different conditions are joined
            if not exits:
                return True
            fr.scope.vars = self._join_states(exits)
            return False
        # one symbolic pass
        names = [n for n in assigned_names(st.body)]
        uid = next(tm._uid)
        before = {}
        for n in names:
            v = fr.scope.lookup(n)
            if v is not None:
                before[n] = v
                fr.scope.vars[n] = self.map_struct(lambda x: self._wrap1("loopin", x, uid), v)
        self.assign(st.target, self.wrap("elem", it), fr)
        base = len(self.path)
        ctx = {"breaks": [], "continues": []}
        fr.loops.append(ctx)
        try:
            ended = self.exec_block(st.body, fr)
        finally:
            fr.loops.pop()
        states = ([fr.scope.vars] if not ended else []) + ctx["continues"] + ctx["breaks"]
        if states:
            fr.scope.vars = self._join_states(states)
        del self.path[base:]
        for n in names:
            v = fr.scope.lookup(n)
            if v is not None and n in before:
                fr.scope.vars[n] = self.zip_struct(lambda x, y: x if x is y else mk("loop", x, y), before[n], v)
            elif v is not None:
                fr.scope.vars[n] = self.map_struct(lambda y: mk("loop", NONE, y), v)
        if st.orelse:
            self.exec_block(st.orelse, fr)
        return False

    def s_While(self, st, fr):
        names = [n for n in assigned_names(st.body)]
        uid = next(tm._uid)
        before = {}
        for n in names:
            v = fr.scope.lookup(n)
            if v is not None:
                before[n] = v
                fr.scope.vars[n] = self.map_struct(lambda x: self._wrap1("loopin", x, uid), v)
        test = self.eval(st.test, fr)
        self.record("py_branch", test, "while", None, fr, st)
        base = len(self.path)
        ctx = {"breaks": [], "continues": []}
        fr.loops.append(ctx)
        try:
            ended = self.exec_block(st.body, fr)
        finally:
            fr.loops.pop()
        states = ([fr.scope.vars] if not ended else []) + ctx["continues"] + ctx["breaks"]
        if states:
            fr.scope.vars = self._join_states(states)
        del self.path[base:]
        for n in names:
            v = fr.scope.lookup(n)
            if v is not None and n in before:
                fr.scope.vars[n] = self.zip_struct(lambda x, y: x if x is y else mk("loop", x, y), before[n], v)
        return False

    def s_With(self, st, fr):
        for i in st.items:
            v = self.eval(i.context_expr, fr)
            if i.optional_vars is not None:
                self.assign(i.optional_vars, mk("call", mk("ext", "builtins.enter"), (v,), ()), fr)
        return self.exec_block(st.body, fr)

    def s_Try(self, st, fr):
        t = self.exec_block(st.body, fr)
        for h in st.handlers:
            saved = dict(fr.scope.vars)
            self.exec_block(h.body, fr)
            fr.scope.vars = saved
        if st.finalbody:
            self.exec_block(st.finalbody, fr)
        return t

    def s_Break(self, st, fr):
        if fr.loops:
            fr.loops[-1]["breaks"].append(dict(fr.scope.vars))
            return True
        return False

    def s_Continue(self, st, fr):
        if fr.loops:
            fr.loops[-1]["continues"].append(dict(fr.scope.vars))
            return True
        return False

    def _join_states(self, states):
        """Join of variable maps reaching one program point along different paths."""
        out = dict(states[0])
        for b in states[1:]:
            nxt = {}
            for k in list(out.keys()) + [k for k in b.keys() if k not in out]:
                va, vb = out.get(k), b.get(k)
                if va is None or vb is None:
                    nxt[k] = va if va is not None else vb
                elif va is vb:
                    nxt[k] = va
                else:
                    nxt[k] = self.zip_struct(lambda x, y: x if x is y else self.mk_phi([x, y]), va, vb)
            out = nxt
        return out
