"""Environment model: collaborators stored on `self` (generator, reward_fn, observer, ...)
are resolved from `__init__` to the set of candidate classes in the tree."""
from __future__ import annotations

import ast
from typing import Dict, List, Optional

from .loader import ClassInfo, Tree


def _strip_annotation(tree: Tree, m, ann: ast.expr) -> Optional[str]:
    """Optional[X] / "X" / X  ->  qualified name of X (None if not a class of the tree)."""
    if ann is None:
        return None
    if isinstance(ann, ast.Constant) and isinstance(ann.value, str):
        try:
            ann = ast.parse(ann.value, mode="eval").body
        except SyntaxError:
            return None
    if isinstance(ann, ast.Subscript):
        head = ast.unparse(ann.value).split(".")[-1]
        if head in ("Optional", "Union"):
            elts = ann.slice.elts if isinstance(ann.slice, ast.Tuple) else [ann.slice]
            for e in elts:
                q = _strip_annotation(tree, m, e)
                if q:
                    return q
            return None
        return _strip_annotation(tree, m, ann.value)
    if isinstance(ann, ast.BinOp) and isinstance(ann.op, ast.BitOr):
        return _strip_annotation(tree, m, ann.left) or _strip_annotation(tree, m, ann.right)
    q = tree.resolve_expr(m, ann)
    if q and q in tree.classes:
        return q
    return None


class Model:
    def __init__(self, tree: Tree):
        self.tree = tree
        self._cand: Dict[tuple, List[ClassInfo]] = {}

    def concrete_subclasses(self, base_qual: str) -> List[ClassInfo]:
        t = self.tree
        out = []
        for ci in t.subclasses(base_qual, strict=False):
            if not t.is_abstract(ci) and not ci.module.name.startswith("jumanji.testing"):
                out.append(ci)
        return out

    def annotation_class(self, m, ann) -> Optional[ClassInfo]:
        q = _strip_annotation(self.tree, m, ann)
        return self.tree.classes.get(q) if q else None

    def candidates(self, ci: ClassInfo, attr: str) -> List[ClassInfo]:
        """Candidate classes of `self.<attr>` from every assignment in the class's __init__
        chain (all branches)."""
        key = (ci.qual, attr)
        if key in self._cand:
            return self._cand[key]
        self._cand[key] = []  # recursion guard
        t = self.tree
        out: List[ClassInfo] = []

        def add(c: ClassInfo):
            if c not in out:
                out.append(c)

        def from_expr(e: ast.expr, init, m):
            if isinstance(e, ast.BoolOp):
                for v in e.values:
                    from_expr(v, init, m)
            elif isinstance(e, ast.IfExp):
                from_expr(e.body, init, m)
                from_expr(e.orelse, init, m)
            elif isinstance(e, ast.Call):
                q = t.resolve_expr(m, e.func)
                if q in t.classes:
                    add(t.classes[q])
                elif isinstance(e.func, ast.Name) and q not in t.classes:
                    # cls = A if flag else B ; self.x = cls(...)
                    for st in ast.walk(init.node):
                        if isinstance(st, ast.Assign) and any(isinstance(tg, ast.Name) and tg.id == e.func.id for tg in st.targets):
                            v_ = st.value
                            alts_ = [v_.body, v_.orelse] if isinstance(v_, ast.IfExp) else ([v_] if isinstance(v_, (ast.Name, ast.Attribute)) else [])
                            for alt in alts_:
                                qa = t.resolve_expr(m, alt)
                                if qa in t.classes:
                                    add(t.classes[qa])
                elif isinstance(e.func, ast.IfExp):
                    # (GridObserver if flag else VectorObserver)(...): both classes are candidates
                    for alt in (e.func.body, e.func.orelse):
                        qa = t.resolve_expr(m, alt)
                        if qa in t.classes:
                            add(t.classes[qa])
            elif isinstance(e, ast.Name):
                for a in init.node.args.args + init.node.args.kwonlyargs:
                    if a.arg == e.id:
                        c = self.annotation_class(m, a.annotation)
                        if c is not None and c.qual == "jumanji.env.Environment":
                            return  # a wrapped environment is deliberately left abstract
                        if c is not None:
                            for s in self.concrete_subclasses(c.qual):
                                add(s)
                        return
                # local variable: look for its assignments in __init__
                for st in ast.walk(init.node):
                    if isinstance(st, ast.Assign):
                        for tg in st.targets:
                            if isinstance(tg, ast.Name) and tg.id == e.id:
                                from_expr(st.value, init, m)
            elif isinstance(e, ast.Attribute) and isinstance(e.value, ast.Name) and e.value.id == "self":
                for c in self.candidates(ci, e.attr):
                    add(c)

        for c in t.mro(ci):
            init = c.methods.get("__init__")
            if init is None:
                continue
            for st in ast.walk(init.node):
                targets = []
                if isinstance(st, ast.Assign):
                    targets, val = st.targets, st.value
                elif isinstance(st, ast.AnnAssign) and st.value is not None:
                    targets, val = [st.target], st.value
                for tg in targets:
                    if (isinstance(tg, ast.Attribute) and isinstance(tg.value, ast.Name)
                            and tg.value.id == "self" and tg.attr == attr):
                        from_expr(val, init, c.module)
        self._cand[key] = out
        return out

    def collaborator_attrs(self, ci: ClassInfo) -> Dict[str, List[ClassInfo]]:
        """{attribute: candidate classes} for every `self.<attr> = ...` of the __init__ chain that resolves to classes."""
        names = []
        for c in self.tree.mro(ci):
            init = c.methods.get("__init__")
            if init is None:
                continue
            for st in ast.walk(init.node):
                tgs = st.targets if isinstance(st, ast.Assign) else ([st.target] if isinstance(st, ast.AnnAssign) and st.value is not None else [])
                for tg in tgs:
                    if isinstance(tg, ast.Attribute) and isinstance(tg.value, ast.Name) and tg.value.id == "self" and tg.attr not in names:
                        names.append(tg.attr)
        out = {}
        for n in names:
            c = self.candidates(ci, n)
            if c:
                out[n] = c
        return out

    def init_assignments(self, ci: ClassInfo, attr: str):
        """[(FuncInfo __init__, value expr)] for `self.<attr> = value` in the __init__ chain."""
        out = []
        for c in self.tree.mro(ci):
            init = c.methods.get("__init__")
            if init is None:
                continue
            for st in ast.walk(init.node):
                if isinstance(st, ast.Assign):
                    for tg in st.targets:
                        if (isinstance(tg, ast.Attribute) and isinstance(tg.value, ast.Name)
                                and tg.value.id == "self" and tg.attr == attr):
                            out.append((init, st.value))
                elif isinstance(st, ast.AnnAssign) and st.value is not None:
                    tg = st.target
                    if (isinstance(tg, ast.Attribute) and isinstance(tg.value, ast.Name)
                            and tg.value.id == "self" and tg.attr == attr):
                        out.append((init, st.value))
        return out
