"""Symbolic shape inference on value-flow terms.

A shape is a tuple of dimensions or None (unknown).  A dimension is a pair (key, offset): key is None for
a literal size, otherwise a string naming the symbolic extent (the last attribute name of a configuration
attribute such as `num_rows`, or the printed term for other expressions).  Only facts that follow from the
constructors and operators listed below are used; anything else is unknown and unknown never produces a
report."""
from __future__ import annotations

from typing import Dict, List, Optional, Tuple

from .normal import CAST_FUNCS, ext_name, linear, strip_cast
from .terms import NONE, T, deps, show

Dim = Tuple[Optional[str], int]
Shape = Optional[Tuple[Dim, ...]]

ELEMENTWISE = {"abs", "negative", "clip", "minimum", "maximum", "sqrt", "exp", "log", "floor", "ceil", "round", "sign", "square",
               "logical_not", "isnan", "mod", "remainder", "power", "float32", "int32", "int8", "int16", "bool_", "asarray", "astype",
               "array", "float_", "uint8", "isin_first", "cumsum", "flip", "roll", "sort", "argsort", "tril", "triu", "rot90_same"}
REDUCTIONS = {"sum", "max", "min", "all", "any", "mean", "prod", "argmax", "argmin", "std", "var", "count_nonzero"}
FILL = {"zeros", "ones", "full", "empty"}


DERIVED: Dict[Tuple[str, str], Optional[Dim]] = {}
_ALIAS: Dict[int, Dict[str, str]] = {}


def canon(vfg, name: str) -> str:
    """Canonical name of a configuration extent.  Names are merged when the code says they hold the same value:
    `self.A = B` / `self.A = x.B` in an __init__ (A ~ B) and `@property P: return self.A` (P ~ A); a leading
    underscore is ignored.  So a private storage name never makes two spellings of one extent look different."""
    name = name.lstrip("_")
    if vfg is None:
        return name
    tree = vfg.tree
    al = _ALIAS.get(id(tree))
    if al is None:
        import ast as _ast
        parent: Dict[str, str] = {}

        def find(x):
            while parent.get(x, x) != x:
                parent[x] = parent.get(parent[x], parent[x])
                x = parent[x]
            return x

        def union(a, b):
            a, b = find(a.lstrip("_")), find(b.lstrip("_"))
            if a != b:
                # keep the shorter / lexicographically smaller public-looking name as representative
                r, o = sorted((a, b), key=lambda z: (len(z), z))
                parent[o] = r
                parent.setdefault(r, r)

        for ci in tree.classes.values():
            init = ci.methods.get("__init__")
            if init is not None:
                pnames = {a.arg for a in init.node.args.args + init.node.args.kwonlyargs}
                for st in _ast.walk(init.node):
                    if isinstance(st, _ast.Assign) and len(st.targets) == 1:
                        t, v = st.targets[0], st.value
                        if isinstance(t, _ast.Attribute) and isinstance(t.value, _ast.Name) and t.value.id == "self":
                            if isinstance(v, _ast.Name) and v.id in pnames:
                                union(t.attr, v.id)
                            elif isinstance(v, _ast.Attribute):
                                union(t.attr, v.attr)
            for pname, f in ci.methods.items():
                if f.is_property and len(f.node.body) >= 1:
                    rets = [n for n in _ast.walk(f.node) if isinstance(n, _ast.Return) and n.value is not None]
                    if len(rets) == 1 and isinstance(rets[0].value, _ast.Attribute) and isinstance(rets[0].value.value, _ast.Name) \
                            and rets[0].value.value.id == "self":
                        union(pname, rets[0].value.attr)
        al = {k: find(k) for k in list(parent)}
        _ALIAS[id(tree)] = al
    return al.get(name, name)


def derived_attr(vfg, t: T) -> Optional[Dim]:
    """self.padded_num_rows = num_rows + 3  ->  ('num_rows', 3): configuration attributes that __init__ defines as
    another configuration value plus a constant are expressed in terms of that value."""
    import ast as _ast
    base, name = t.args
    ci = vfg.typeof(base) if vfg is not None else None
    if ci is None:
        return None
    key = (ci.qual, name)
    if key in DERIVED:
        return DERIVED[key]
    DERIVED[key] = None
    out = None
    vals = vfg.model.init_assignments(ci, name)
    if len(vals) == 1:
        e = vals[0][1]
        k = 0
        if isinstance(e, _ast.BinOp) and isinstance(e.op, (_ast.Add, _ast.Sub)) and isinstance(e.right, _ast.Constant) and isinstance(e.right.value, int):
            k = e.right.value if isinstance(e.op, _ast.Add) else -e.right.value
            e = e.left
        nm = e.id if isinstance(e, _ast.Name) else (e.attr if isinstance(e, _ast.Attribute) else None)
        if nm is not None and canon(vfg, nm) != canon(vfg, name):
            out = (canon(vfg, nm), k)
    DERIVED[key] = out
    return out


def dim_of(t: T, vfg=None) -> Optional[Dim]:
    t = strip_cast(t)
    b, k = linear(t)
    if k is None:
        return None
    if b is None:
        return (None, k)
    b = strip_cast(b)
    if b.kind == "attr":
        dv = derived_attr(vfg, b) if vfg is not None else None
        if dv is not None:
            return (dv[0], dv[1] + k)
        return (canon(vfg, b.args[1]), k)
    if b.kind == "call" and ext_name(b) == "builtins.len" and b.args[1]:
        return ("len(" + show(b.args[1][0], 2)[:40] + ")", k)
    if b.kind in ("bin", "index", "proj", "param", "call"):
        return (show(b, 4)[:80], k)
    return None


TUPLE_ATTRS: Dict[Tuple[str, str], Shape] = {}


def tuple_attr(vfg, t: T) -> Shape:
    """Shape stored in a configuration attribute such as self.board_shape = (num_rows, num_cols)."""
    import ast as _ast
    base, name = t.args
    ci = vfg.typeof(base)
    if ci is None:
        return None
    key = (ci.qual, name)
    if key in TUPLE_ATTRS:
        return TUPLE_ATTRS[key]
    out: Shape = None
    vals = vfg.model.init_assignments(ci, name)
    if len(vals) == 1 and isinstance(vals[0][1], _ast.Tuple):
        dims = []
        for e in vals[0][1].elts:
            if isinstance(e, _ast.Constant) and isinstance(e.value, int):
                dims.append((None, e.value))
            elif isinstance(e, _ast.Name):
                dims.append((canon(vfg, e.id), 0))
            elif isinstance(e, _ast.Attribute):
                dims.append((canon(vfg, e.attr), 0))
            else:
                dims = None
                break
        out = tuple(dims) if dims is not None else None
    TUPLE_ATTRS[key] = out
    return out


def dims_from_shape_arg(t: Optional[T], vfg=None) -> Shape:
    if t is None:
        return None
    t = strip_cast(t)
    if t.kind == "attr" and vfg is not None and ("shape" in t.args[1] or "dims" in t.args[1] or "size" == t.args[1]):
        ta = tuple_attr(vfg, t)
        if ta is not None:
            return ta
        if "shape" in t.args[1] or "dims" in t.args[1]:
            return None
    if t.kind in ("tuple", "list"):
        out = []
        for x in t.args[0]:
            if x.kind == "star":
                return None
            d = dim_of(x, vfg)
            if d is None:
                return None
            out.append(d)
        return tuple(out)
    if t.kind == "attr" and t.args[1] == "shape":
        return None
    d = dim_of(t, vfg)
    return (d,) if d is not None else None


def broadcast(a: Shape, b: Shape) -> Shape:
    if a is None or b is None:
        return None
    out = []
    la, lb = list(a), list(b)
    while len(la) < len(lb):
        la.insert(0, (None, 1))
    while len(lb) < len(la):
        lb.insert(0, (None, 1))
    for x, y in zip(la, lb):
        if x == y:
            out.append(x)
        elif x == (None, 1):
            out.append(y)
        elif y == (None, 1):
            out.append(x)
        else:
            return None
    return tuple(out)


class Shapes:
    def __init__(self, vfg, field_shapes: Optional[Dict[int, Shape]] = None):
        self.vfg = vfg
        self.memo: Dict[int, Shape] = {}
        self.given: Dict[int, Shape] = dict(field_shapes or {})

    def of(self, t: T, depth: int = 0) -> Shape:
        if t.id in self.given:
            return self.given[t.id]
        if t.id in self.memo:
            return self.memo[t.id]
        self.memo[t.id] = None
        r = self._of(t, depth + 1) if depth < 80 else None
        self.memo[t.id] = r
        return r

    def _kw(self, t: T):
        return t.args[1], dict(t.args[2])

    def _axis(self, ax: Optional[T], rank: int):
        if ax is None or ax is NONE:
            return "all"
        ax = strip_cast(ax)
        if ax.kind == "const" and isinstance(ax.args[0], int):
            a = ax.args[0]
            return [a + rank if a < 0 else a]
        if ax.kind in ("tuple", "list") and all(strip_cast(x).kind == "const" for x in ax.args[0]):
            return [(strip_cast(x).args[0] + rank if strip_cast(x).args[0] < 0 else strip_cast(x).args[0]) for x in ax.args[0]]
        return None

    def _of(self, t: T, d: int) -> Shape:
        k = t.kind
        if k == "const":
            return () if isinstance(t.args[0], (int, float, bool)) else None
        if k in ("bin",):
            if t.args[0] == "@":
                return None
            return broadcast(self.of(t.args[1], d), self.of(t.args[2], d))
        if k == "cmp":
            return broadcast(self.of(t.args[1], d), self.of(t.args[2], d))
        if k == "un":
            return self.of(t.args[1], d)
        if k == "copy":
            return self.of(t.args[0], d)
        if k == "choice":
            alts = [self.of(a, d) for a in t.args[2]]
            if t.args[0] == "where":
                out = self.of(t.args[1], d)
                for a in alts:
                    out = broadcast(out, a)
                return out
            if all(a is not None and a == alts[0] for a in alts):
                return alts[0]
            return None
        if k == "phi":
            alts = [self.of(a, d) for a in t.args[0]]
            if all(a is not None and a == alts[0] for a in alts):
                return alts[0]
            return None
        if k == "elem":
            s = self.of(t.args[0], d)
            return s[1:] if s else None
        if k == "batched":
            inner = self.of(t.args[0], d)
            if inner is None:
                return None
            for n in deps(t.args[0]):
                if n.kind == "elem":
                    s = self.of(n.args[0], d)
                    if s:
                        return (s[0],) + inner
            return None
        if k == "loop":
            a, b = self.of(t.args[0], d), self.of(t.args[1], d)
            if a is not None and (b is None or a == b):
                return a
            return None
        if k == "loopin":
            return self.of(t.args[0], d)
        if k == "proj":
            s = self.of(t.args[0], d)
            return s[1:] if s else None
        if k == "index":
            return self._index(t, d)
        if k == "call":
            return self._call(t, d)
        return None

    def _index(self, t: T, d: int) -> Shape:
        base, idx = t.args
        s = self.of(base, d)
        if s is None:
            return None
        items = list(idx.args[0]) if idx.kind == "tuple" else [idx]
        out: List[Dim] = []
        pos = 0
        adv: List[Shape] = []
        n_explicit = sum(1 for it in items if not (it is NONE or (it.kind == "ext" and it.args[0].endswith("Ellipsis"))))
        for it in items:
            if it is NONE:
                out.append((None, 1))
                continue
            if it.kind == "ext" and it.args[0].endswith("Ellipsis"):
                keep = len(s) - n_explicit
                out.extend(s[pos:pos + keep])
                pos += keep
                continue
            if pos >= len(s):
                return None
            if it.kind == "slice":
                lo, hi, st = it.args
                if st is not NONE:
                    return None
                if lo is NONE and hi is NONE:
                    out.append(s[pos])
                elif lo is NONE:
                    dh = dim_of(hi, self.vfg)
                    if dh is None or (dh[0] is None and dh[1] < 0):
                        if dh is not None and dh[0] is None and s[pos][0] is None:
                            out.append((None, max(0, s[pos][1] + dh[1])))
                        elif dh is not None and dh[0] is None:
                            out.append((s[pos][0], s[pos][1] + dh[1]))
                        else:
                            return None
                    else:
                        out.append(dh)
                else:
                    return None
                pos += 1
                continue
            si = self.of(it, d)
            if si == ():
                pos += 1
                continue
            if si is None:
                return None
            adv.append(si)
            pos += 1
            out.append(("__adv__", len(adv)))
        out.extend(s[pos:])
        if adv:
            b = adv[0]
            for a in adv[1:]:
                b = broadcast(b, a)
            if b is None:
                return None
            # numpy: adjacent advanced indices are replaced in place by the broadcast shape
            res: List[Dim] = []
            placed = False
            for x in out:
                if x[0] == "__adv__":
                    if not placed:
                        res.extend(b)
                        placed = True
                else:
                    res.append(x)
            return tuple(res)
        return tuple(out)

    def _call(self, t: T, d: int) -> Shape:
        n = ext_name(t)
        args, kw = self._kw(t)
        if n is None:
            f = t.args[0]
            # x.at[idx].set(v) and friends keep the shape of x
            if f.kind == "attr" and f.args[1] in ("set", "add", "multiply", "min", "max", "get") and f.args[0].kind == "index" \
                    and f.args[0].args[0].kind == "attr" and f.args[0].args[0].args[1] == "at":
                if f.args[1] == "get":
                    return None
                return self.of(f.args[0].args[0].args[0], d)
            return None
        short = n.split(".")[-1]
        if n.startswith("jax.random."):
            if short in ("uniform", "normal", "randint", "bernoulli", "choice", "permutation", "categorical", "truncated_normal"):
                sh = kw.get("shape")
                if sh is None and short in ("uniform", "normal", "randint") and len(args) > 1:
                    sh = args[1]
                if sh is None and short == "choice" and len(args) > 2:
                    sh = args[2]
                if sh is None:
                    return () if short in ("uniform", "normal") and len(args) <= 1 else None
                return dims_from_shape_arg(sh, self.vfg)
            return None
        if not (n.startswith("jax.numpy.") or n.startswith("numpy.") or n.startswith("jax.lax.") or n.startswith("builtins.")):
            return None
        if n in ("builtins.int", "builtins.float", "builtins.bool"):
            return ()
        if short in FILL:
            sh = kw.get("shape", args[0] if args else None)
            return dims_from_shape_arg(sh, self.vfg)
        if short in ("zeros_like", "ones_like", "full_like", "empty_like"):
            return self.of(args[0], d) if args else None
        if short in ("array", "asarray") and args:
            a0 = args[0]
            if a0.kind in ("list", "tuple"):
                items = a0.args[0]
                if any(x.kind == "star" for x in items):
                    return None
                shs = [self.of(x, d) for x in items]
                if shs and all(s is not None and s == shs[0] for s in shs):
                    return ((None, len(items)),) + shs[0]
                return None
            return self.of(a0, d)
        if short == "arange":
            if len(args) == 1:
                dd = dim_of(args[0], self.vfg)
                return (dd,) if dd else None
            if len(args) == 2:
                a, b = dim_of(args[0], self.vfg), dim_of(args[1], self.vfg)
                if a and b and a[0] is None:
                    return ((b[0], b[1] - a[1]),)
            return None
        if short == "eye" and args:
            dd = dim_of(args[0], self.vfg)
            return (dd, dd) if dd else None
        if short in REDUCTIONS and args:
            s = self.of(args[0], d)
            if s is None:
                return None
            ax = self._axis(kw.get("axis", args[1] if len(args) > 1 else None), len(s))
            keep = kw.get("keepdims")
            if keep is not None and not (keep.kind == "const" and keep.args[0] is False):
                return None
            if ax == "all":
                return ()
            if ax is None:
                return None
            return tuple(x for i, x in enumerate(s) if i not in ax)
        if short in ("where",) and len(args) == 3:
            return broadcast(broadcast(self.of(args[0], d), self.of(args[1], d)), self.of(args[2], d))
        if short in ELEMENTWISE or short in CAST_SHORT:
            if short in ("clip", "minimum", "maximum", "power", "mod", "remainder") and len(args) >= 2:
                out = self.of(args[0], d)
                for a in args[1:]:
                    if a is NONE:
                        continue
                    out = broadcast(out, self.of(a, d))
                return out
            return self.of(args[0], d) if args else None
        if short in ("stack", "concatenate") and args and args[0].kind in ("list", "tuple"):
            items = args[0].args[0]
            if any(x.kind == "star" for x in items):
                return None
            shs = [self.of(x, d) for x in items]
            if not shs or any(s is None for s in shs):
                return None
            ax = kw.get("axis", args[1] if len(args) > 1 else None)
            rank = len(shs[0]) + (1 if short == "stack" else 0)
            axl = self._axis(ax, rank) if ax is not None else [0]
            if not axl or axl == "all" or len(axl) != 1:
                return None
            a = axl[0]
            if short == "stack":
                if not all(s == shs[0] for s in shs):
                    return None
                return shs[0][:a] + ((None, len(items)),) + shs[0][a:]
            if any(len(s) != len(shs[0]) for s in shs):
                return None
            for i in range(len(shs[0])):
                if i != a and not all(s[i] == shs[0][i] for s in shs):
                    return None
            keys = {s[a][0] for s in shs}
            if keys == {None}:
                return shs[0][:a] + ((None, sum(s[a][1] for s in shs)),) + shs[0][a + 1:]
            return None
        if short == "reshape" and len(args) >= 2:
            sh = args[1] if len(args) == 2 else None
            if sh is None:
                from .terms import mk
                sh = mk("tuple", tuple(args[1:]))
            r = dims_from_shape_arg(sh, self.vfg)
            if r is not None and any(x == (None, -1) for x in r):
                return None
            return r
        if short in ("transpose",) and len(args) == 1:
            s = self.of(args[0], d)
            return tuple(reversed(s)) if s is not None else None
        if short == "expand_dims" and len(args) >= 1:
            s = self.of(args[0], d)
            ax = self._axis(kw.get("axis", args[1] if len(args) > 1 else None), (len(s) + 1) if s is not None else 0)
            if s is None or not ax or ax == "all" or len(ax) != 1:
                return None
            return s[:ax[0]] + ((None, 1),) + s[ax[0]:]
        if short == "squeeze" and args:
            s = self.of(args[0], d)
            if s is None:
                return None
            ax = kw.get("axis", args[1] if len(args) > 1 else None)
            if ax is None:
                if all(x[0] is None for x in s):
                    return tuple(x for x in s if x != (None, 1))
                return None
            axl = self._axis(ax, len(s))
            if not axl or axl == "all":
                return None
            return tuple(x for i, x in enumerate(s) if i not in axl)
        if short in ("flatten", "ravel"):
            s = self.of(args[0], d) if args else None
            if s is not None and all(x[0] is None for x in s):
                p = 1
                for x in s:
                    p *= x[1]
                return ((None, p),)
            return None
        if short == "array_equal":
            return ()
        if short in ("dynamic_update_slice", "dynamic_update_slice_in_dim") and args:
            return self.of(args[0], d)
        if short == "take_along_axis" and len(args) >= 2:
            s, si = self.of(args[0], d), self.of(args[1], d)
            ax = self._axis(kw.get("axis", args[2] if len(args) > 2 else None), len(s) if s is not None else 0)
            if s is None or si is None or not ax or ax == "all" or len(ax) != 1 or len(si) != len(s):
                return None
            return tuple(si[i] if i == ax[0] else s[i] for i in range(len(s)))
        return None


CAST_SHORT = {c.split(".")[-1] for c in CAST_FUNCS}


def fmt(s: Shape) -> str:
    if s is None:
        return "?"
    return "(" + ", ".join((str(k) if b is None else (b + (f"{k:+d}" if k else ""))) for b, k in s) + ")"


def definitely_different(a: Shape, b: Shape) -> Optional[str]:
    """A reason when the two shapes certainly differ for some configuration; None when equal or unknown."""
    if a is None or b is None:
        return None
    if len(a) != len(b):
        return f"rank {len(a)} vs {len(b)}"
    for i, (x, y) in enumerate(zip(a, b)):
        if x == y:
            continue
        if x[0] is None and y[0] is None:
            return f"axis {i}: {x[1]} vs {y[1]}"
        if x[0] == y[0]:
            return f"axis {i}: {x[0]}{x[1]:+d} vs {y[0]}{y[1]:+d}"
        if x[0] is not None and y[0] is not None and _plain(x[0]) and _plain(y[0]):
            return f"axis {i}: extent {x[0]} vs extent {y[0]} (independent configuration values)"
    return None


def _plain(key: str) -> bool:
    return key.replace("_", "").isalnum() and not key[0].isdigit()
