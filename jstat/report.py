"""Obligation records, evidence writer, known-findings matching, exit-code contract."""
from __future__ import annotations

import hashlib
import json
import os
import sys
import time
import traceback
from dataclasses import dataclass, field
from typing import Callable, Dict, List, Optional

from .loader import AnalysisError

VERIF = os.path.dirname(os.path.dirname(os.path.abspath(__file__)))
EVID = os.environ.get("JSTAT_EVIDENCE_DIR", os.path.join(VERIF, "evidence"))
KNOWN = os.path.join(VERIF, "known_findings.json")


@dataclass
class Ob:
    rule: str                 # e.g. "C11.R4"
    site: str                 # file:line
    func: str                 # qualified function / class
    construct: str            # normalised construct text (key material; no line numbers)
    ok: Optional[bool]        # True holds / False violated / None undecided (not reported)
    detail: str = ""
    nontrivial: bool = True   # matched a real construct in the tree

    def key(self) -> str:
        return f"{self.rule}|{self.func}|{self.construct}"

    def as_dict(self) -> dict:
        return {"rule": self.rule, "site": self.site, "function": self.func, "construct": self.construct,
                "verdict": {True: "holds", False: "VIOLATED", None: "undecided"}[self.ok], "detail": self.detail}


@dataclass
class Result:
    obligations: List[Ob] = field(default_factory=list)
    analysed: Dict[str, object] = field(default_factory=dict)
    explanation: str = ""
    assumptions: List[str] = field(default_factory=list)
    extra: Dict[str, object] = field(default_factory=dict)

    def add(self, *a, **k) -> Ob:
        ob = Ob(*a, **k)
        self.obligations.append(ob)
        return ob


def load_known() -> List[dict]:
    if not os.path.exists(KNOWN):
        return []
    try:
        data = json.load(open(KNOWN))
    except Exception as e:  # a broken known-findings file must not hide violations
        raise AnalysisError(f"known_findings.json unreadable: {e}")
    return data.get("findings", [])


def run(pid: str, tier: str, fn: Callable[[str], Result], replay: Optional[str] = None) -> int:
    t0 = time.time()
    seed = int(os.environ.get("VERIF_SEED", "0") or 0)
    try:
        from .rules.common import _IN_PROGRESS
        _IN_PROGRESS.add(pid.lower())
        res = fn(tier)
        _IN_PROGRESS.discard(pid.lower())
    except AnalysisError as e:
        print(f"ANALYSIS-ERROR property={pid} {e}")
        return 2
    except Exception:
        traceback.print_exc()
        print(f"ANALYSIS-ERROR property={pid} internal error (traceback above)")
        return 2
    try:
        known = [k for k in load_known() if k.get("property") == pid and k.get("status", "open") == "open"]
    except AnalysisError as e:
        print(f"ANALYSIS-ERROR property={pid} {e}")
        return 2
    known_keys = {k["key"]: k for k in known}
    violated = [o for o in res.obligations if o.ok is False]
    if replay:
        want = json.load(open(replay)).get("key")
        violated = [o for o in violated if o.key() == want]
        for o in violated:
            print(f"REPLAY still violated: {o.rule} {o.site} {o.func}: {o.construct} -- {o.detail}")
        if not violated:
            print("REPLAY: the recorded instance no longer violates its rule")
        return 1 if violated else 0
    new = [o for o in violated if o.key() not in known_keys]
    for o in violated:
        if o.key() in known_keys:
            print(f"KNOWN-FINDING: property={pid} {o.rule} {o.site} {o.func}: {o.construct} -- {known_keys[o.key()].get('what_fails', o.detail)}")
    os.makedirs(os.path.join(EVID, "replay"), exist_ok=True)
    seen = set()
    for o in new:
        h = hashlib.sha1(o.key().encode()).hexdigest()[:10]
        path = os.path.join(EVID, "replay", f"{pid}-{h}.json")
        if h not in seen:
            seen.add(h)
            json.dump({"property": pid, "key": o.key(), **o.as_dict()}, open(path, "w"), indent=1)
            print(f"  {o.rule} {o.site} in {o.func}: {o.construct} -- {o.detail}")
            print(f"VIOLATION property={pid} replay={path}")
    if tier == "thorough" and not os.environ.get("JSTAT_REPO_IS_VARIANT"):
        try:
            from .selftest.run import run as selftest_run
            st = selftest_run([pid], jobs=int(os.environ.get("JSTAT_JOBS", "16")), archived=True)
            unexpected = [r for r in st if r["status"] not in ("caught", "silent", "fail-closed")]
            res.extra["selftest"] = {
                "what": "scratch variants of the current tree: AST-computed edits (breaking variants must be reported with the "
                        "expected rule, behaviour-preserving twins must stay silent), plus the archived independent seeded "
                        "changes (must still be reported) and independent behaviour-preserving refactorings (must stay silent)",
                "variants": len(st), "breaking_caught": sum(1 for r in st if r["status"] == "caught"),
                "twins_silent": sum(1 for r in st if r["status"] == "silent"),
                "unexpected": [{k: r.get(k) for k in ("id", "status", "rules", "first", "detail")} for r in unexpected],
                "results": [{k: r.get(k) for k in ("id", "kind", "status", "rules")} for r in st],
            }
            for r in unexpected:
                print(f"SELFTEST-NOTE property={pid} variant={r['id']} status={r['status']}")
        except Exception as e:  # the self-test never decides the property
            res.extra["selftest"] = {"error": repr(e)}
    n_ob = len(res.obligations)
    n_ok = sum(1 for o in res.obligations if o.ok is True)
    n_und = sum(1 for o in res.obligations if o.ok is None)
    distinct = len({o.key() for o in res.obligations if o.nontrivial and o.ok is not None})
    per_rule: Dict[str, Dict[str, int]] = {}
    for o in res.obligations:
        d = per_rule.setdefault(o.rule, {"holds": 0, "violated": 0, "undecided": 0})
        d[{True: "holds", False: "violated", None: "undecided"}[o.ok]] += 1
    samples = []
    by_rule_seen: Dict[str, int] = {}
    for o in res.obligations:
        if by_rule_seen.get(o.rule, 0) < 3 or o.ok is False:
            by_rule_seen[o.rule] = by_rule_seen.get(o.rule, 0) + 1
            samples.append(o.as_dict())
    ev = {
        "property_id": pid,
        "tier": tier,
        "seed": seed,
        "level": "other",
        "coverage": {
            "explanation": res.explanation,
            "obligations": n_ob,
            "discharged": n_ok,
            "undecided": n_und,
            "evaluations": n_ob,
            "distinct_nontrivial": distinct,
            "rule": "one obligation per rule instance enumerated from the current tree; an instance is "
                    "non-trivial when it matched a real construct (site) and received a definite verdict; "
                    "distinct = distinct (rule, function, normalised construct) keys",
            "per_rule": per_rule,
            "analysed": res.analysed,
            "samples": samples[:60],
            **res.extra,
        },
        "assumptions": res.assumptions,
        "wall_s": round(time.time() - t0, 3),
        "violations": len(new),
        "known_findings_present": len(violated) - len(new),
    }
    os.makedirs(EVID, exist_ok=True)
    json.dump(ev, open(os.path.join(EVID, f"{pid}.json"), "w"), indent=1)
    print(f"{pid} [{tier}] obligations={n_ob} hold={n_ok} undecided={n_und} violated={len(violated)} "
          f"(new={len(new)}) analysed={json.dumps(res.analysed)[:300]} wall={ev['wall_s']}s")
    return 1 if new else 0
