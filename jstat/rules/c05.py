"""C05 -- illegal actions have only their documented effect (structural part)."""
from __future__ import annotations

from typing import List, Optional, Tuple

from ..engine import analyse_env, get_tree
from ..loader import AnalysisError, short
from ..normal import disjuncts, ext_name, is_negation, negand, strip_cast
from ..report import Result
from ..terms import T, children, contains, deps, mk
from .common import analyses, env_site, last_conditions, leaves, step_types, timestep_kind, txt
from .stale import StepFlow, flat_fields, observation_leaves
from .validity import compare, old_mask

EXPLANATION = (
    "Decided: (R1) in the 11 terminate-on-invalid environments the predicate that selects the LAST timestep has a "
    "disjunct that is the negation of the validity test V applied to the action, where V is located structurally (the "
    "value read from state.action_mask at the action, the guard of the state update, or -- Minesweeper -- the test that "
    "equals the displayed mask), so every invalid action ends the episode; (R2) where the docs promise an untouched "
    "state (TSP, CVRP, Knapsack, BinPack) every problem-state field of the returned state is either the incoming "
    "field or a selection guarded by that same V whose else-branch is the incoming field; in Cleaner the displacement "
    "of an agent is selected to 0 when its action is invalid; (R3) in the ignore-invalid environments the fields "
    "holding the acting entity (position, grid, holdings) are selections with an identity alternative (the incoming "
    "value) guarded by a test on the action / mask, or the action is replaced by the no-op constant when masked out "
    "(Maze: select(mask[a], a, 4) with identity branch 4; RobotWarehouse: cond(mask[a], a, 0) with NOOP = 0; Sokoban: "
    "NOOP sentinel). (R5) reward and done function classes store each constructor parameter under its own name (no crossing such as invalid_action_reward <- revealed_mine_reward). Not decided: exact penalty values; that nothing else changes beyond the named fields.")
EXPLANATION += ' (R6) Connector / SlidingTilePuzzle: every clause with which the mask forbids an action is also a clause of the guard step applies (borrowed from C04.R3b, one direction only).'

TERMINATE_ON_INVALID = ["TSP", "CVRP", "Knapsack", "BinPack", "JobShop", "GraphColoring", "Sudoku", "Minesweeper", "Snake", "Tetris", "Cleaner"]
UNTOUCHED = {"TSP": None, "CVRP": None, "Knapsack": None,
             "BinPack": ("action_mask", "sorted_ems_indexes")}   # derived views recomputed after the guarded update
# environments whose every reward function selects on the validity value on the pinned tree (reference for later changes)
R4_REFERENCE = {"Tetris": "documented: reward multiplied by validity", "GraphColoring": "documented penalty -num_nodes",
                "JobShop": "documented penalty", "Minesweeper": "documented invalid-action reward", "Knapsack": "zero reward when invalid",
                "TSP": "penalty when invalid", "CVRP": "penalty when invalid", "BinPack": "zero / penalty when invalid"}
IGNORE = {
    "Maze": ["agent_position"],
    "SlidingTilePuzzle": ["puzzle", "empty_tile_position"],
    "FlatPack": ["grid", "placed_blocks"],
    "Sokoban": ["agent_location", "variable_grid"],
    "PacMan": ["player_locations"],
    "Connector": ["agents"],
    "LevelBasedForaging": ["agents.position"],
}


def view_core(t: T) -> T:
    while t.kind in ("elem", "loopin", "copy", "leaf"):
        t = t.args[0]
    return strip_cast(t) if t.kind == "copy" else t


def identity_guards(t: T, old: T, depth: int = 0) -> List[T]:
    """Guards of selections inside t one of whose alternatives is the incoming value `old` (modulo mapped
    views)."""
    out: List[T] = []
    seen = set()

    def walk(x: T, d: int):
        if x.id in seen or d > 12:
            return
        seen.add(x.id)
        if x.kind == "choice":
            if any(view_core(a) is old for a in x.args[2]):
                out.append(x.args[1])
            for a in x.args[2]:
                walk(a, d + 1)
        elif x.kind in ("batched", "elem", "loopin", "copy"):
            walk(x.args[0], d + 1)
        elif x.kind == "loop":
            walk(x.args[1], d + 1)
        elif x.kind == "phi":
            for a in x.args[0]:
                walk(a, d + 1)

    walk(t, 0)
    return out


def check(tier: str) -> Result:
    tree = get_tree()
    res = Result(explanation=EXPLANATION)
    by_name = {ea.cls.name: ea for ea in analyses(tree)}
    for n in TERMINATE_ON_INVALID + list(IGNORE) + ["Game2048", "RobotWarehouse"]:
        if n not in by_name:
            raise AnalysisError(f"environment {n} not found")
    n_sites = 0
    # ------------------------------------------------------------------ R1
    validity = {}
    for name in TERMINATE_ON_INVALID:
        ea = by_name[name]
        vfg = ea.vfg
        sf = StepFlow(ea)
        site, fn = env_site(ea, "step")
        conds = last_conditions(ea)
        old_m = sf.old.get("action_mask")
        guards = set()
        if ea.step_state.kind == "choice":
            guards.add(ea.step_state.args[1])
        for f in sf.fields:
            nv = sf.new[f]
            if nv.kind == "choice" and nv.args[0] == "cond":
                guards.add(nv.args[1])
        masks = [dict(flat_fields(vfg, o)).get("action_mask") for o in observation_leaves(ea, ea.step_ts)]
        masks = [old_mask(ea, sf, m) for m in masks if m is not None]
        found = None
        cand_seen = 0
        for c in conds:
            if not contains(c, ea.action):
                continue
            V = negand(c)
            if V is None:
                V = mk("un", "~", strip_cast(c))
            cand_seen += 1
            how = None
            core = strip_cast(V)
            if ext_name(core) in ("jax.numpy.all",) and core.args[1]:
                core = strip_cast(core.args[1][0])
            if old_m is not None and any(n.kind == "index" and (n.args[0] is old_m or view_core(n.args[0]) is old_m) and contains(n.args[1], ea.action) for n in deps(core)) \
                    and core.kind == "index":
                how = "value of state.action_mask at the action"
            elif V in guards:
                how = "guard of the state update"
            else:
                for m in masks:
                    ok, _ = compare(m, V, ea.action)
                    if ok:
                        how = "equals the displayed mask at the action"
                        break
            if how:
                found = (c, V, how)
                break
        if found is None:
            # not(V) with V = a & b appears in the flattened predicate as the two disjuncts not a, not b (De Morgan)
            from ..normal import neg as _neg
            cset = {strip_cast(c) for c in conds}
            for G in guards:
                parts = [strip_cast(d) for d in disjuncts(_neg(G))]
                if len(parts) > 1 and all(p_ in cset for p_ in parts):
                    found = (parts[0], G, "guard of the state update (its negation is spread over several disjuncts)")
                    break
            if found is None:
                acts = [c for c in conds if contains(c, ea.action)]
                for k_ in range(len(acts), 1, -1):
                    import itertools as _it
                    for sub in _it.combinations(acts, k_):
                        Vs = _neg(sub[0])
                        for x_ in sub[1:]:
                            Vs = mk("bin", "&", Vs, _neg(x_))
                        if Vs in guards:
                            found = (sub[0], Vs, "guard of the state update")
                            break
                        for m in masks:
                            ok, _ = compare(m, Vs, ea.action)
                            if ok:
                                found = (sub[0], Vs, "equals the displayed mask at the action (its negation is spread over several disjuncts)")
                                break
                        if found:
                            break
                    if found:
                        break
        if found is None and cand_seen == 0:
            res.add("C05.R1", site, fn, "an invalid action terminates the episode (LAST predicate has a disjunct not V)", False,
                    f"no termination condition depends on the action; conditions: {[txt(c, 3, 70) for c in conds]}")
        elif found is None:
            res.add("C05.R1", site, fn, "an invalid action terminates the episode (LAST predicate has a disjunct not V)", False,
                    f"no termination condition is the negation of the validity test (mask value, update guard or mask-equivalent test); action-dependent conditions: {[txt(c, 3, 70) for c in conds if contains(c, ea.action)]}")
        else:
            c, V, how = found
            validity[name] = V
            res.add("C05.R1", site, fn, "an invalid action terminates the episode (LAST predicate has a disjunct not V)", True, f"V = {txt(V, 4, 100)} [{how}]")
        n_sites += 1
    # ------------------------------------------------------------------ R4 the invalid-move reward has priority
    from ..normal import conjuncts as _conj, disjuncts as _disj
    for name in TERMINATE_ON_INVALID:
        V = validity.get(name)
        if V is None:
            continue
        ea = by_name[name]
        vfg = ea.vfg
        site, fn = env_site(ea, "step")
        Vc = strip_cast(V)
        rewards = []
        for l, _ in leaves(ea.step_ts):
            if l.kind == "construct":
                rw = vfg.mk_attr(l, "reward")
                for alt in (rw.args[0] if rw.kind == "phi" else (rw,)):
                    if alt not in rewards:
                        rewards.append(alt)
        for rw in rewards:
            t = strip_cast(rw)
            if not contains(t, Vc) and not any(negand(d_) is Vc for d_ in deps(t) if d_.kind == "call"):
                if name in R4_REFERENCE:
                    res.add("C05.R4", site, fn, "when the action is invalid the reward is the invalid-move reward (not overridden by another condition)", False,
                            f"reward {txt(t, 3, 90)} no longer depends on the validity value ({R4_REFERENCE[name]}): an invalid action is rewarded like a valid one")
                else:
                    res.add("C05.R4", site, fn, "when the action is invalid the reward is the invalid-move reward (not overridden by another condition)", None,
                            f"reward {txt(t, 3, 90)} does not depend on the validity value: not decided", nontrivial=False)
                continue
            path = []
            verdict = None
            cur = t
            for _i in range(8):
                cur = strip_cast(cur)
                if cur.kind == "bin" and cur.args[0] == "*" and (strip_cast(cur.args[1]) is Vc or strip_cast(cur.args[2]) is Vc):
                    verdict = (True, "reward is multiplied by the validity value: zero when invalid")
                    break
                if cur.kind != "choice" or len(cur.args[2]) != 2:
                    verdict = (True, f"invalid-move reward = {txt(cur, 3, 70)}") if path else (None, f"reward {txt(cur, 3, 80)}: no selection on validity at the top")
                    break
                p_ = cur.args[1]
                ds = [strip_cast(x) for x in _disj(p_)]
                cs = [strip_cast(x) for x in _conj(p_)]
                vset = {strip_cast(x).id for x in _conj(Vc)}
                if any(negand(x) is Vc or is_negation(x, Vc) for x in ds):
                    path.append("not V => first branch")
                    cur = cur.args[2][0]
                elif any(x is Vc for x in cs) or vset <= {x.id for x in cs}:
                    path.append("V false => second branch")
                    cur = cur.args[2][1]
                elif any(len(_conj(d)) > 1 and any(negand(strip_cast(c_)) is Vc or is_negation(strip_cast(c_), Vc) for c_ in _conj(d)) for d in ds):
                    verdict = (False, f"the invalid-move reward is selected on {txt(p_, 3, 90)}: an invalid action receives it only when another condition holds as well")
                    break
                elif contains(p_, Vc) or any(negand(d_) is Vc for d_ in deps(p_) if d_.kind == "call"):
                    verdict = (None, f"condition {txt(p_, 3, 80)} mixes validity with other tests: not decided")
                    break
                else:
                    verdict = (False, f"the selection on {txt(p_, 3, 80)} is decided before validity is looked at: an invalid action can receive "
                                      f"{txt(cur.args[2][0], 3, 50)} instead of the invalid-move reward")
                    break
            if verdict is None:
                verdict = (None, "selection chain too deep")
            res.add("C05.R4", site, fn, "when the action is invalid the reward is the invalid-move reward (not overridden by another condition)", verdict[0],
                    verdict[1] + (f" [{'; '.join(path)}]" if path else ""), nontrivial=verdict[0] is not None)
    # ------------------------------------------------------------------ R2
    for name, derived in UNTOUCHED.items():
        ea = by_name[name]
        sf = StepFlow(ea)
        site, fn = env_site(ea, "step")
        V = validity.get(name)
        for f in sf.fields:
            if derived and f in derived:
                continue
            nv, ov = sf.new[f], sf.old[f]
            if nv is ov:
                res.add("C05.R2", site, fn, f"State.{f} untouched by an invalid action", True, "field is passed through unchanged")
                continue
            ok = nv.kind == "choice" and nv.args[0] == "cond" and len(nv.args[2]) == 2 and view_core(nv.args[2][1]) is ov and (V is None or nv.args[1] is V)
            why = f"cond(V, updated, incoming)" if ok else f"{txt(nv, 4, 140)} is not `cond(V, updated, state.{f})` with the validity guard"
            res.add("C05.R2", site, fn, f"State.{f} untouched by an invalid action", ok, why)
            n_sites += 1
    # Cleaner: displacement selected to 0 for invalid agents
    ea = by_name["Cleaner"]
    sf = StepFlow(ea)
    site, fn = env_site(ea, "step")
    nv, ov = sf.new["agents_locations"], sf.old["agents_locations"]
    ok = False
    why = txt(nv, 4, 160)
    if nv.kind == "bin" and nv.args[0] == "+":
        for a, b in ((nv.args[1], nv.args[2]), (nv.args[2], nv.args[1])):
            if a is ov and b.kind == "choice" and len(b.args[2]) == 2:
                zero = strip_cast(b.args[2][1])
                dep = any(n.kind == "index" and view_core(n.args[0]) is sf.old["action_mask"] for n in deps(b.args[1]))
                is_zero = (zero.kind == "const" and zero.args[0] == 0) or ext_name(zero) in ("jax.numpy.zeros_like", "jax.numpy.zeros", "numpy.zeros_like", "numpy.zeros")
                ok = is_zero and dep
                why = f"locations + where(valid, move, {txt(zero)}); guard reads state.action_mask: {dep}"
    res.add("C05.R2", site, fn, "an agent with an invalid action keeps its location (displacement selected to 0)", ok, why)
    n_sites += 1
    # ------------------------------------------------------------------ R3
    for name, paths in IGNORE.items():
        ea = by_name[name]
        vfg = ea.vfg
        sf = StepFlow(ea)
        site, fn = env_site(ea, "step")
        for path in paths:
            parts = path.split(".")
            nv, ov = sf.new[parts[0]], sf.old[parts[0]]
            for p in parts[1:]:
                nv, ov = vfg.mk_attr(nv, p), vfg.mk_attr(ov, p)
            guards = [g for g in identity_guards(nv, ov)]
            act = [g for g in guards if contains(g, ea.action) or any(contains(g, sf.old[m]) for m in ("action_mask",) if m in sf.old)]
            ok = bool(act) if name != "Sokoban" else bool(guards)
            res.add("C05.R3", site, fn, f"State.{path} has an identity alternative guarded by a test on the action", ok,
                    f"guard {txt((act or guards)[0], 4, 120)} keeps the incoming value" if (act or guards) else f"no selection keeps the incoming value: {txt(nv, 4, 140)}")
            n_sites += 1
    # FlatPack: both updates use the same guard
    ea = by_name["FlatPack"]
    sf = StepFlow(ea)
    g1, g2 = sf.new["grid"], sf.new["placed_blocks"]
    same = g1.kind == "choice" and g2.kind == "choice" and g1.args[1] is g2.args[1]
    res.add("C05.R3", *env_site(ea, "step"), "grid and placed_blocks are updated under the same guard", same,
            "same guard" if same else f"{txt(g1.args[1] if g1.kind == 'choice' else g1, 3, 60)} vs {txt(g2.args[1] if g2.kind == 'choice' else g2, 3, 60)}")
    # Maze: NOOP substitution
    ea = by_name["Maze"]
    sf = StepFlow(ea)
    nv = sf.new["agent_position"]
    ok = False
    why = txt(nv, 3, 160)
    if nv.kind == "choice" and nv.args[0] == "switch":
        idx = nv.args[1]
        if idx.kind == "choice" and len(idx.args[2]) == 2:
            a, k = idx.args[2]
            kk = strip_cast(k)
            mask_read = idx.args[1].kind == "index" and idx.args[1].args[0] is sf.old["action_mask"] and idx.args[1].args[1] is ea.action
            if a is ea.action and kk.kind == "const" and isinstance(kk.args[0], int) and 0 <= kk.args[0] < len(nv.args[2]):
                ok = mask_read and view_core(nv.args[2][kk.args[0]]) is sf.old["agent_position"]
                why = f"select(mask[a], a, {kk.args[0]}); branch {kk.args[0]} is the identity: {view_core(nv.args[2][kk.args[0]]) is sf.old['agent_position']}; guard reads the mask at the action: {mask_read}"
    res.add("C05.R3", *env_site(ea, "step"), "masked-out actions are replaced by the no-op whose branch is the identity", ok, why)
    # RobotWarehouse: cond(mask[a], a, NOOP) with Action.NOOP == 0
    ea = by_name["RobotWarehouse"]
    sf = StepFlow(ea)
    vfg = ea.vfg
    noop = vfg.resolve_qual("jumanji.environments.routing.robot_warehouse.types.Action.NOOP")
    subs = []
    for n in deps(ea.step_result):
        if n.kind == "choice" and len(n.args[2]) == 2 and view_core(n.args[2][0]) is ea.action:
            g = n.args[1]
            if g.kind == "index" and view_core(g.args[0]) is sf.old["action_mask"]:
                subs.append(n)
    ok = False
    why = f"{len(subs)} substitution site(s)"
    if subs:
        z = strip_cast(subs[0].args[2][1])
        nz = strip_cast(noop) if noop.kind != "ext" else None
        zero_is_noop = z.kind == "const" and nz is not None and nz.kind == "const" and z.args[0] == nz.args[0]
        if nz is not None and nz.kind == "attr":
            zero_is_noop = False
        ok = zero_is_noop
        why = f"cond(mask[a], a, {txt(z)}); Action.NOOP = {txt(noop)}"
    res.add("C05.R3", *env_site(ea, "step"), "masked-out actions are replaced by Action.NOOP", ok, why)
    # Game2048: the random cell is spawned only for a valid move
    ea = by_name["Game2048"]
    sf = StepFlow(ea)
    nv = sf.new["board"]
    ok = nv.kind == "choice" and nv.args[1].kind == "index" and nv.args[1].args[0] is sf.old["action_mask"] and nv.args[1].args[1] is ea.action
    else_plain = ok and not any(ext_name(n) in ("jax.random.choice", "jax.random.randint", "jax.random.uniform", "jax.random.categorical") for n in deps(nv.args[2][1]))
    res.add("C05.R3", *env_site(ea, "step"), "a new tile is spawned only when the move is valid (guard = mask at the action)", bool(ok and else_plain),
            f"guard {txt(nv.args[1], 3, 80) if nv.kind == 'choice' else txt(nv, 3, 80)}; else-branch draws no random tile: {bool(else_plain)}")
    n_sites += 4
    from . import wiring
    n_w = wiring.add_obligations(res, tree, "C05.R5", lambda ci: ci.module.name.endswith((".reward", ".done")) and ci.module.name.startswith("jumanji.environments."))
    from .common import borrow
    n_b = borrow(res, "c04", {"C04.R3b": "C05.R6"}, envs=["Connector", "SlidingTilePuzzle"], only_if=lambda ob: "mask forbids" in ob.detail)
    # ---- R7: an illegal move that would leave the grid (or push something out of it) is recognised exactly: border
    # tests are exact, decisive, and guard the cell that is read (rules/bounds_rules.py)
    from . import bounds_rules
    n_bd = bounds_rules.add_obligations(res, tree, "C05.R7", scope="all")
    from . import move_rules as _mr
    n_re = _mr.reencoding_obligations(res, tree, "C05.R8")
    from . import lbf_rules as _lbf
    _lbf.occupancy_obligations(res, tree, "C05.R9")
    res.analysed = {"mask_forbidden_action_ignored": n_b, "terminate_on_invalid": TERMINATE_ON_INVALID, "untouched_state": list(UNTOUCHED) + ["Cleaner"],
                    "ignore_invalid": list(IGNORE) + ["Game2048", "RobotWarehouse"], "sites": n_sites}
    res.assumptions = ["lax.cond / select / where pick their else-alternative when the guard is false",
                       "environment lists come from the property text (documented behaviour per environment)"]
    return res
