"""C17 -- permutation puzzles obey their group laws (structural part + constant-table evaluation)."""
from __future__ import annotations

import ast
from typing import Dict, List, Tuple

from ..engine import VFG, analyse_env, get_tree
from ..loader import AnalysisError, short
from ..model import Model
from ..normal import ext_name, strip_cast
from ..report import Result
from ..tables import Arr, Closure, EnumVal, Label, MiniEval, Unsupported
from ..terms import contains, deps, mk, uncopy
from .common import txt
from .stale import StepFlow

EXPLANATION = (
    "Decided: (R1) the five encodings of (face, depth, amount) agree as mixed-radix numbers: the comprehension order of "
    "generate_all_moves, the polynomial in flatten_action, the divmod chain of unflatten_action (exhaustively for cube "
    "sizes 2..7 and every (face, depth, amount)), action_spec.num_values and the generator's maxval product; (R2) the "
    "i-th move generator rotates Face(i); (R3) every move is a data-independent rearrangement: the analyser's evaluator "
    "of the table sub-language (arange, repeat, flip, concatenate, integer arithmetic on cube_size/depth, rot90, roll, "
    "gather, .at[].set) runs each move on a cube of opaque labels -- any computation on cube values, or an operator "
    "outside the sub-language, is an error (exit 2), scatter targets must be distinct; (R4) on the resulting explicit "
    "maps sigma over the 6n^2 sticker positions, for all 18*floor(n/2) moves: sigma is a bijection (pieces conserved), "
    "clockwise o anticlockwise = id, half turn = clockwise^2, clockwise^4 = id, plus embedding-free relations of the physical cube group (a quarter turn of depth d moves exactly 4n stickers -- plus the face when d = 0 -- all in 4-cycles; layers of one face are disjoint; turns of opposite faces commute on disjoint stickers; for n = 2, 3 and adjacent faces X, Y: order(XY) = 15 / 105 and order(XYX'Y') = 6); because of R3 this holds for every "
    "colouring; (R5) sliding tile: the step is a guarded exchange of the blank with the neighbour selected by MOVES "
    "(identity when out of bounds), environment and generator build the goal with the same make_solved_puzzle, and the "
    "generator's random walk draws moves from MOVES with the in-bounds mask as probabilities (only legal moves => only "
    "reachable states). Tables are constant-folded from the source by the analyser; no repository code runs. "
    "Not decided: that each sigma equals the physical quarter turn in a chosen 3-D embedding; is_solved accepting "
    "exactly the goal set; solvability beyond 'reached by legal moves from the goal'.")

RC = "jumanji.environments.logic.rubiks_cube."
ST = "jumanji.environments.logic.sliding_tile_puzzle."


def compose(p: List[int], q: List[int]) -> List[int]:
    """(p after q): new[i] = old[q[p[i]]]  when each is given as new[i] = old[s[i]]."""
    return [q[p[i]] for i in range(len(p))]


def cube_moves(tree, n: int):
    ev = MiniEval(tree)
    m = tree.modules.get(RC + "utils")
    if m is None or "generate_all_moves" not in m.functions:
        raise AnalysisError("anchor rubiks_cube.utils.generate_all_moves not found")
    gen = m.functions["generate_all_moves"]
    moves = ev.call(Closure(gen.node, {}, m), [n], {})
    if not isinstance(moves, list):
        raise AnalysisError("generate_all_moves does not evaluate to a list")
    out = []
    for k, mv in enumerate(moves):
        if not isinstance(mv, Closure):
            raise AnalysisError("move is not a function")
        cube = Arr([Label(i) for i in range(6 * n * n)], (6, n, n))
        ev.trace.clear()
        res = ev.call(mv, [cube], {})
        if not isinstance(res, Arr) or res.shape != (6, n, n) or not all(isinstance(x, Label) for x in res.data):
            raise AnalysisError(f"move {k} for n={n} does not return a rearranged cube")
        sigma = [x.i for x in res.data]
        rot = [t for t in ev.trace if t[0] == "do_rotation"]
        face = rot[0][1].get("face") if rot else None
        amount = mv.env.get("amount")
        depth = mv.env.get("depth")
        out.append({"k": k, "sigma": sigma, "face": face, "amount": amount, "depth": depth})
    return out, ev


def check(tier: str) -> Result:
    tree = get_tree()
    res = Result(explanation=EXPLANATION)
    sizes = range(2, 8)
    m = tree.modules.get(RC + "utils")
    if m is None:
        raise AnalysisError("rubiks_cube.utils not found")
    site_all = m.functions["generate_all_moves"].loc() if "generate_all_moves" in m.functions else m.relpath
    n_moves = 0
    ev0 = MiniEval(tree)
    faces = ev0.enum_members(tree.classes[RC + "constants.Face"])
    amounts = ev0.enum_members(tree.classes[RC + "constants.CubeMovementAmount"])
    by_val = {a.value: i for i, a in enumerate(amounts)}
    if sorted(by_val) != [-1, 1, 2]:
        raise AnalysisError(f"CubeMovementAmount values {sorted(by_val)} are not {{1, -1, 2}}")
    for n in sizes:
        try:
            moves, ev = cube_moves(tree, n)
        except Unsupported as e:
            raise AnalysisError(f"cube move tables (n={n}) leave the evaluable sub-language: {e}")
        n_moves += len(moves)
        half = n // 2
        exp = len(faces) * half * len(amounts)
        res.add("C17.R1", site_all, "rubiks_cube.utils.generate_all_moves", f"n={n}: number of moves == |Face| * (n//2) * |Amount|", len(moves) == exp, f"{len(moves)} vs {exp}")
        N = 6 * n * n
        ident = list(range(N))
        # ---- R2 + R1 (comprehension order / flatten / unflatten)
        fl = m.functions.get("flatten_action")
        ufl = m.functions.get("unflatten_action")
        if fl is None or ufl is None:
            raise AnalysisError("flatten_action / unflatten_action not found")
        bad_face, bad_flat, bad_unflat = [], [], []
        index: Dict[Tuple[int, int, int], int] = {}
        for mv in moves:
            f_i = mv["face"].value if isinstance(mv["face"], EnumVal) else None
            a_i = by_val.get(mv["amount"].value) if isinstance(mv["amount"], EnumVal) else None
            index[(f_i, mv["depth"], a_i)] = mv["k"]
        for (f_i, d, a_i), k in sorted(index.items(), key=lambda kv: kv[1]):
            if f_i is None or a_i is None:
                raise AnalysisError("face / amount of a move not recovered")
            if k // (half * len(amounts)) != f_i:
                bad_face.append((k, f_i))
            try:
                flat = ev.call(Closure(fl.node, {}, m), [(f_i, d, a_i), n], {})
                un = ev.call(Closure(ufl.node, {}, m), [k, n], {})
            except Unsupported as e:
                raise AnalysisError(f"flatten/unflatten_action leave the evaluable sub-language: {e}")
            if flat != k:
                bad_flat.append(((f_i, d, a_i), flat, k))
            if tuple(un) != (f_i, d, a_i):
                bad_unflat.append((k, tuple(un), (f_i, d, a_i)))
        res.add("C17.R2", site_all, "rubiks_cube.utils.generate_all_moves", f"n={n}: the i-th block of moves rotates Face(i)", not bad_face, f"{bad_face[:3]}" if bad_face else "face order UP, FRONT, RIGHT, BACK, LEFT, DOWN")
        res.add("C17.R1", fl.loc(), "rubiks_cube.utils.flatten_action", f"n={n}: flatten_action(face, depth, amount) is the index of that move in generate_all_moves", not bad_flat,
                f"{bad_flat[:3]}" if bad_flat else f"{len(index)} triples")
        res.add("C17.R1", ufl.loc(), "rubiks_cube.utils.unflatten_action", f"n={n}: unflatten_action inverts flatten_action", not bad_unflat,
                f"{bad_unflat[:3]}" if bad_unflat else f"{len(index)} indices")
        # ---- R4 group laws
        nb = sum(1 for mv in moves if sorted(mv["sigma"]) != ident)
        res.add("C17.R4", site_all, "rubiks_cube.utils", f"n={n}: every move is a bijection of the {N} sticker positions", nb == 0, f"{len(moves)} moves, {nb} not bijective")
        bad = {"cw_acw": [], "half": [], "cw4": [], "nontrivial": []}
        for f_i in range(len(faces)):
            for d in range(half):
                try:
                    cw = moves[index[(f_i, d, by_val[1])]]["sigma"]
                    acw = moves[index[(f_i, d, by_val[-1])]]["sigma"]
                    hf = moves[index[(f_i, d, by_val[2])]]["sigma"]
                except KeyError:
                    raise AnalysisError(f"move (face {f_i}, depth {d}) missing")
                if compose(acw, cw) != ident or compose(cw, acw) != ident:
                    bad["cw_acw"].append((f_i, d))
                if compose(cw, cw) != hf:
                    bad["half"].append((f_i, d))
                c2 = compose(cw, cw)
                if compose(c2, c2) != ident:
                    bad["cw4"].append((f_i, d))
                if cw == ident or c2 == ident:
                    bad["nontrivial"].append((f_i, d))
        res.add("C17.R4", site_all, "rubiks_cube.utils", f"n={n}: clockwise followed by anticlockwise is the identity", not bad["cw_acw"], f"violating (face, depth): {bad['cw_acw'][:4]}" if bad["cw_acw"] else f"{len(faces) * half} layers")
        res.add("C17.R4", site_all, "rubiks_cube.utils", f"n={n}: half turn equals two clockwise quarter turns", not bad["half"], f"violating (face, depth): {bad['half'][:4]}" if bad["half"] else f"{len(faces) * half} layers")
        res.add("C17.R4", site_all, "rubiks_cube.utils", f"n={n}: four clockwise quarter turns restore the cube; a quarter turn has order exactly 4", not bad["cw4"] and not bad["nontrivial"],
                f"violating (face, depth): {(bad['cw4'] + bad['nontrivial'])[:4]}" if (bad["cw4"] or bad["nontrivial"]) else f"{len(faces) * half} layers")
        # ---- R4b relations of the cube group that need no 3-D embedding
        def order(p):
            seen = [False] * len(p)
            import math
            o = 1
            for i in range(len(p)):
                if not seen[i]:
                    c, j = 0, i
                    while not seen[j]:
                        seen[j] = True
                        j = p[j]
                        c += 1
                    o = o * c // math.gcd(o, c)
            return o

        def support(p):
            return {i for i in range(len(p)) if p[i] != i}

        CW = {(f_i, d): moves[index[(f_i, d, by_val[1])]]["sigma"] for f_i in range(len(faces)) for d in range(half)}
        # neighbours of a face = faces its outer move touches besides itself
        neigh = {}
        for f_i in range(len(faces)):
            sup = support(CW[(f_i, 0)])
            neigh[f_i] = sorted({i // (n * n) for i in sup} - {f_i})
        opp = {}
        for f_i in range(len(faces)):
            rest = [g for g in range(len(faces)) if g != f_i and g not in neigh[f_i]]
            opp[f_i] = rest[0] if len(rest) == 1 else None
        okn = all(len(neigh[f_i]) == 4 and opp[f_i] is not None and opp.get(opp[f_i]) == f_i for f_i in range(len(faces)))
        res.add("C17.R4", site_all, "rubiks_cube.utils", f"n={n}: every outer move touches exactly four neighbouring faces and 'opposite' is symmetric", okn, f"neighbours {neigh}")
        badc = []
        bads = []
        for f_i in range(len(faces)):
            for d in range(half):
                p = CW[(f_i, d)]
                sup = support(p)
                want = 4 * n + (n * n - (n % 2) if d == 0 else 0)
                cyc4 = all(p[p[p[p[i]]]] == i and p[p[i]] != i for i in sup)
                if len(sup) != want or not cyc4:
                    bads.append((f_i, d, len(sup), want))
                for e2 in range(half):
                    if e2 != d and support(CW[(f_i, e2)]) & sup:
                        bads.append((f_i, d, "overlaps depth", e2))
                if okn:
                    for e2 in range(half):
                        q = CW[(opp[f_i], e2)]
                        if compose(p, q) != compose(q, p) or (support(q) & sup):
                            badc.append((f_i, d, opp[f_i], e2))
        res.add("C17.R4", site_all, "rubiks_cube.utils", f"n={n}: a quarter turn of depth d moves exactly 4n (+ the face for d=0) stickers, all in 4-cycles; layers of one face are disjoint", not bads,
                f"{bads[:4]}" if bads else f"{len(CW)} layers")
        res.add("C17.R4", site_all, "rubiks_cube.utils", f"n={n}: turns of opposite faces commute and move disjoint stickers", okn and not badc, f"{badc[:4]}" if badc else "all opposite pairs")
        if n in (2, 3) and okn:
            want_o = {2: 15, 3: 105}[n]
            bado = []
            for f_i in range(len(faces)):
                for g in neigh[f_i]:
                    x, y = CW[(f_i, 0)], CW[(g, 0)]
                    xi = moves[index[(f_i, 0, by_val[-1])]]["sigma"]
                    yi = moves[index[(g, 0, by_val[-1])]]["sigma"]
                    o1 = order(compose(x, y))
                    comm = compose(compose(compose(x, y), xi), yi)
                    o2 = order(comm)
                    if o1 != want_o or o2 != 6:
                        bado.append((f_i, g, o1, o2))
            res.add("C17.R4", site_all, "rubiks_cube.utils", f"n={n}: for adjacent faces X, Y: order(XY) = {want_o} and order(X Y X' Y') = 6 (relations of the cube group)", not bado,
                    f"(X, Y, order XY, order commutator): {bado[:4]}" if bado else "all 24 ordered adjacent pairs")
    # ---- R1 action_spec and generator maxval
    envc = tree.classes.get(RC + "env.RubiksCube")
    aspec = tree.find_method(envc, "action_spec") if envc else None
    if aspec is None:
        raise AnalysisError("RubiksCube.action_spec not found")
    lst = [n_ for n_ in ast.walk(aspec.node) if isinstance(n_, ast.List) and len(n_.elts) == 3]
    ok = False
    why = "num_values list of three entries not found"
    if lst:
        a, b, c = lst[0].elts
        ok = ast.unparse(a) == "len(Face)" and ast.unparse(b).endswith("cube_size // 2") and (
            (isinstance(c, ast.Constant) and c.value == len(amounts)) or ast.unparse(c) == "len(CubeMovementAmount)")
        why = f"num_values = [{ast.unparse(a)}, {ast.unparse(b)}, {ast.unparse(c)}]; |CubeMovementAmount| = {len(amounts)}"
    res.add("C17.R1", aspec.loc(), "rubiks_cube.env.RubiksCube.action_spec", "action_spec.num_values == [|Face|, n//2, |Amount|]", ok, why)
    gmod = tree.modules.get(RC + "generator")
    gm = None
    if gmod:
        for ci in gmod.classes.values():
            if "generate_actions_for_scramble" in ci.methods:
                gm = ci.methods["generate_actions_for_scramble"]
    if gm is None:
        raise AnalysisError("generate_actions_for_scramble not found")
    mx = [k.value for c in ast.walk(gm.node) if isinstance(c, ast.Call) for k in c.keywords if k.arg == "maxval"]
    mn = [k.value for c in ast.walk(gm.node) if isinstance(c, ast.Call) for k in c.keywords if k.arg == "minval"]
    ok = False
    why = "maxval not found"
    if mx:
        parts = sorted(ast.unparse(x) for x in _factors(mx[0]))
        ok = parts == sorted(["len(Face)", "self.cube_size // 2", "len(CubeMovementAmount)"]) and (not mn or ast.unparse(mn[0]) == "0")
        why = f"maxval factors {parts}, minval {ast.unparse(mn[0]) if mn else 'default'}"
    res.add("C17.R1", gm.loc(), "rubiks_cube.generator.generate_actions_for_scramble", "scramble actions are drawn from [0, |Face| * (n//2) * |Amount|)", ok, why)
    # ---- R1: RubiksCube.step flattens the action with the cube size of the environment
    cenv = [c for c in tree.environment_classes() if c.name == "RubiksCube"]
    if not cenv:
        raise AnalysisError("RubiksCube environment not found")
    ea = analyse_env(tree, cenv[0])
    vfg = ea.vfg
    N = vfg.mk_attr(vfg.mk_attr(ea.self_t, "generator"), "cube_size")
    A_ = len(amounts)
    face, depth, amount = (vfg.mk_proj(ea.action, i, 3) for i in range(3))
    sw = [n_ for n_ in deps(ea.step_result) if ext_name(n_) == "jax.lax.switch" or (n_.kind == "choice" and n_.args[0] == "switch")]
    idx = None
    for n_ in sw:
        idx = n_.args[1][0] if n_.kind == "call" else n_.args[1]
        break
    ok = False
    why = "no lax.switch over the move list found in step"
    if idx is not None:
        from ..normal import strip_cast as _sc
        # expected: face * |A| * (N // 2) + depth * |A| + amount   (any association / order of the products)
        def factors(t):
            t = _sc(t)
            if t.kind == "bin" and t.args[0] == "*":
                return factors(t.args[1]) + factors(t.args[2])
            return [t]
        def terms(t):
            t = _sc(t)
            if t.kind == "bin" and t.args[0] == "+":
                return terms(t.args[1]) + terms(t.args[2])
            return [t]
        from ..shapes import canon as _canon

        def is_half_size(x):
            """<this environment's cube size> // 2, however the environment reaches its generator's cube_size"""
            x = _sc(x)
            if not (x.kind == "bin" and x.args[0] == "//" and _sc(x.args[2]) is mk("const", 2)):
                return False
            y = _sc(x.args[1])
            return y.kind == "attr" and _canon(vfg, y.args[1]) == _canon(vfg, "cube_size") and contains(y, ea.self_t)

        def norm_f(x):
            return "HALF" if is_half_size(x) else x.id
        got = sorted(sorted(map(str, (norm_f(x) for x in factors(tm_)))) for tm_ in terms(idx))
        want = sorted([sorted(map(str, [face.id, mk("const", A_).id, "HALF"])), sorted(map(str, [depth.id, mk("const", A_).id])), [str(amount.id)]])
        ok = got == want
        why = f"switch index {txt(idx, 6, 160)}; expected face*{A_}*(generator.cube_size//2) + depth*{A_} + amount"
        if not ok and any(x.kind == "bin" and x.args[0] == "//" and _sc(x.args[1]).kind == "const" for tm_ in terms(idx) for x in factors(tm_)):
            why += " -- a constant cube size is used instead of the environment's"
    site_s, fn_s = (tree.find_method(cenv[0], "step").loc(), "rubiks_cube.env.RubiksCube.step")
    res.add("C17.R1", site_s, fn_s, "step selects move flatten_action(action, cube_size of this environment)", ok, why)
    # ---- R3: the cube stored by step is exactly the selected move applied to the incoming cube (no dependence on its content)
    sfc = StepFlow(ea)
    newc = uncopy(sfc.new["cube"])
    oldc = sfc.old["cube"]
    pure = (ext_name(newc) == "jax.lax.switch" and len(newc.args[1]) >= 3 and newc.args[1][2] is oldc and not contains(newc.args[1][0], oldc)) or \
        (newc.kind == "choice" and newc.args[0] == "switch" and not contains(newc.args[1], oldc))
    res.add("C17.R3", site_s, fn_s, "State.cube after step is lax.switch(move index, all moves, incoming cube) and nothing else", pure,
            txt(newc, 3, 160) if pure else f"{txt(newc, 3, 160)} -- the move applied depends on the cube's content (actions must be state-independent permutations)")
    # ---- R5 sliding tile
    sliding_obligations(res, tree)
    res.analysed = {"cube_sizes": list(sizes), "moves_evaluated": n_moves, "sticker_positions_max": 6 * max(sizes) ** 2}
    res.extra["exhaustive"] = True
    res.assumptions = ["documented semantics of numpy rot90 (k>0 counter-clockwise) and roll (element i moves to i+shift), gather and .at[].set",
                       "the analyser's evaluator of the table sub-language; anything outside it is an analysis error, never a pass"]
    return res


def _factors(e: ast.expr):
    if isinstance(e, ast.BinOp) and isinstance(e.op, ast.Mult):
        return _factors(e.left) + _factors(e.right)
    return [e]


def sliding_obligations(res: Result, tree):
    envs = [c for c in tree.environment_classes() if c.name == "SlidingTilePuzzle"]
    if not envs:
        raise AnalysisError("SlidingTilePuzzle not found")
    ea = analyse_env(tree, envs[0])
    vfg = ea.vfg
    sf = StepFlow(ea)
    f = tree.find_method(ea.cls, "_move_empty_tile") or tree.find_method(ea.cls, "step")
    site, fn = f.loc(), short(f.qual)
    new_p, old_p = sf.new["puzzle"], sf.old["puzzle"]
    new_e, old_e = sf.new["empty_tile_position"], sf.old["empty_tile_position"]
    ok = False
    why = txt(new_p, 5, 220)
    if new_p.kind == "choice" and new_e.kind == "choice" and new_p.args[1] is new_e.args[1] and uncopy(new_p.args[2][1]) is old_p and uncopy(new_e.args[2][1]) is old_e:
        upd = new_p.args[2][0]
        tgt = new_e.args[2][0]
        # upd = old.at[tuple(old_e)].set(old[tuple(tgt)]).at[tuple(tgt)].set(EMPTY)
        def at_set(t):
            if t.kind == "call" and t.args[0].kind == "attr" and t.args[0].args[1] == "set" and t.args[0].args[0].kind == "index" \
                    and t.args[0].args[0].args[0].kind == "attr" and t.args[0].args[0].args[0].args[1] == "at":
                return t.args[0].args[0].args[0].args[0], t.args[0].args[0].args[1], t.args[1][0]
            return None
        o = at_set(upd)
        if o:
            inner, idx2, val2 = o
            i = at_set(inner)
            if i:
                base, idx1, val1 = i
                z = strip_cast(val2)
                empty = vfg.resolve_qual(ST + "constants.EMPTY_TILE")
                moved_from = val1.kind == "index" and val1.args[0] is old_p and val1.args[1] is idx2
                ok = base is old_p and contains(idx1, old_e) and contains(idx2, tgt) and moved_from and (z is strip_cast(empty) or (z.kind == "const" and z.args[0] == 0))
                why = f"puzzle.at[blank].set(puzzle[neighbour]).at[neighbour].set(EMPTY): blank cell receives the neighbour's tile: {moved_from}"
        moves_t = vfg.resolve_qual(ST + "constants.MOVES")
        uses_moves = any(n.kind == "index" and n.args[0] is moves_t and n.args[1] is ea.action for n in deps(tgt))
        res.add("C17.R5", site, fn, "the neighbour is blank + MOVES[action]", uses_moves, txt(tgt, 4, 120))
    res.add("C17.R5", site, fn, "a step is a guarded exchange of the blank with one neighbour; identity when the guard fails", ok, why)
    # goal and start from the same maker
    gmod = tree.modules.get(ST + "generator")
    mk_solved = gmod.classes["Generator"].methods.get("make_solved_puzzle") if gmod and "Generator" in gmod.classes else None
    init = tree.find_method(ea.cls, "__init__")
    uses_env = any(isinstance(n, ast.Call) and isinstance(n.func, ast.Attribute) and n.func.attr == "make_solved_puzzle" for n in ast.walk(init.node))
    rw = gmod.classes.get("RandomWalkGenerator") if gmod else None
    uses_gen = rw is not None and any(isinstance(n, ast.Call) and isinstance(n.func, ast.Attribute) and n.func.attr == "make_solved_puzzle"
                                      for mth in rw.methods.values() for n in ast.walk(mth.node))
    res.add("C17.R5", init.loc(), short(ea.cls.qual) + ".__init__", "environment goal and generator start both come from Generator.make_solved_puzzle",
            bool(mk_solved is not None and uses_env and uses_gen), f"env uses it: {uses_env}; RandomWalkGenerator uses it: {uses_gen}")
    # random walk draws legal moves only
    cands = [m_ for nm_, m_ in (rw.methods.items() if rw is not None else []) if nm_ != "__call__" and len(m_.params) >= 4 and
             any(isinstance(n, ast.Call) and ast.unparse(n.func).endswith("random.choice") for n in ast.walk(m_.node))]
    if len(cands) != 1:
        raise AnalysisError(f"RandomWalkGenerator: expected one helper drawing the random move (jax.random.choice), found {[c.name for c in cands]}")
    g = cands[0]
    v2 = VFG(tree, Model(tree))
    self_t = mk("self", rw.qual)
    k, p, e = (mk("param", g.qual, x) for x in g.params[1:4])
    r = uncopy(v2.apply_func(g, self_t, rw, [k, p, e], {}, None, None))
    moves_t = v2.resolve_qual(ST + "constants.MOVES")
    ch = [n for n in deps(r) if ext_name(n) == "jax.random.choice"]
    ok = False
    why = f"{len(ch)} jax.random.choice call(s)"
    if len(ch) == 1:
        c = ch[0]
        kw = dict(c.args[2])
        src = c.args[1][1] if len(c.args[1]) > 1 else kw.get("a")
        pr = kw.get("p")
        inb = pr is not None and ext_name(strip_cast(pr)) == "jax.numpy.all" and contains(pr, moves_t) and contains(pr, e)
        ok = src is moves_t and bool(inb)
        why = f"choice over MOVES: {src is moves_t}; p = in-bounds test of blank + MOVES: {bool(inb)}"
    res.add("C17.R5", g.loc(), short(g.qual), "scramble moves are drawn from MOVES with the in-bounds mask as probabilities", ok, why)
    # the generated puzzle is exactly the result of the random walk from the solved board (nothing applied afterwards)
    call = rw.methods.get("__call__")
    if call is None:
        raise AnalysisError("RandomWalkGenerator.__call__ not found")
    v3 = VFG(tree, Model(tree))
    kk = mk("param", call.qual, call.params[1])
    st = uncopy(v3.apply_func(call, self_t, rw, [kk], {}, None, None))
    pz = v3.mk_attr(st, "puzzle")
    ep = v3.mk_attr(st, "empty_tile_position")
    # the attribute(s) in which __init__ keeps the solved board (the result of make_solved_puzzle), by role
    rinit = tree.find_method(rw, "__init__")
    solved_attrs = set()
    if rinit is not None:
        for stn in ast.walk(rinit.node):
            if isinstance(stn, ast.Assign) and isinstance(stn.value, ast.Call) and isinstance(stn.value.func, ast.Attribute) and stn.value.func.attr == "make_solved_puzzle":
                for tg in stn.targets:
                    if isinstance(tg, ast.Attribute) and isinstance(tg.value, ast.Name) and tg.value.id == "self":
                        solved_attrs.add(tg.attr)
    start = uncopy(pz.args[0]) if pz.kind == "loop" else None
    from_solved = start is not None and ((start.kind == "attr" and start.args[0] is self_t and start.args[1] in solved_attrs) or
                                         (start.kind == "call" and start.args[0].kind == "attr" and start.args[0].args[1] == "make_solved_puzzle"))
    okw = pz.kind == "loop" and bool(from_solved) and ep.kind == "loop"
    # the walk body: an exchange of the blank with the drawn neighbour only
    res.add("C17.R5", call.loc(), "sliding_tile_puzzle.generator.RandomWalkGenerator.__call__", "the start position is the random walk applied to the solved board, with nothing applied afterwards", okw,
            txt(pz, 3, 140) if okw else f"{txt(pz, 3, 160)} -- the board is modified outside the legal random walk (parity / reachability is no longer guaranteed)")
