"""C12 -- observations are faithful views of the state (structural part)."""
from __future__ import annotations

from ..engine import analyse_env, get_tree
from ..loader import AnalysisError, short
from ..normal import strip_cast
from ..report import Result
from ..terms import T, deps
from .common import analyses, env_site, leaves, txt
from .stale import StepFlow, components, flat_fields, observation_leaves

EXPLANATION = (
    "Decided for reset and step of all 23 environments on the value-flow graph: (R1a) no observation field of step reads "
    "a state field that the same step supersedes, except through a value that is stored in the returned state (so the "
    "observation is a function of the state returned with it, never of the previous one); (R1b) every observation field "
    "that has the same name as a State field is the same value as (plain copy) or data-dependent on (computed view) that "
    "field of the returned state -- a constant or a differently sourced value is a violation; (R1c) the action mask "
    "shown to the agent is not computed from superseded state; (R2) wiring of documented computed views: Snake's five planes are "
    "[body, head at head_position, tail, fruit at fruit_position, body_state / max] of the returned state in that order; BinPack "
    "normalisers divide every coordinate by the container length of the same axis (observation / container), and ems / ems_mask "
    "show the first obs_num_ems entries of the descending-volume order with one shared selection; Tetris shows the visible window "
    "of the returned padded board and the next piece stored in the returned state. Not decided: the content of computed views (field of "
    "view, sensors, feature planes, largest-EMS selection, relabelling), which is value-level.")


def same_or_depends(vfg, A: T, B: T) -> str:
    if strip_cast(A) is strip_cast(B):
        return "copy"
    comp = {t.id for t in components(B, None, vfg) if t.kind not in ("const", "ext", "cls")}
    for n in deps(A):
        if n.id in comp:
            return "view"
        for src in vfg.projection_of.get(n.id, ()):
            if src.id in comp:
                return "view"
    return ""


def check(tier: str) -> Result:
    tree = get_tree()
    res = Result(explanation=EXPLANATION)
    n_fields = 0
    n_funcs = 0
    for ea in analyses(tree):
        vfg = ea.vfg
        env = short(ea.cls.qual)
        if ea.state_cls is None or ea.obs_cls is None:
            raise AnalysisError(f"{env}: State/Observation types not resolved")
        sfields = tree.fields(ea.state_cls)
        sf = StepFlow(ea)
        for which, ts, st in (("reset", ea.reset_ts, ea.reset_state), ("step", ea.step_ts, ea.step_state)):
            site, fn = env_site(ea, which)
            n_funcs += 1
            obs_list = observation_leaves(ea, ts)
            if not obs_list:
                raise AnalysisError(f"{env}.{which}: no observation found in the returned timestep")
            for oi, o in enumerate(obs_list):
                if o.kind != "construct":
                    raise AnalysisError(f"{env}.{which}: observation not resolved to a constructor: {txt(o, 3)}")
                tag = f"[{oi}]" if len(obs_list) > 1 else ""
                for path, val in flat_fields(vfg, o):
                    n_fields += 1
                    top = path.split(".")[0]
                    if which == "step":
                        stale = sf.stale_reads(val)
                        res.add("C12.R1a", site, fn, f"Observation.{path}{tag} is computed from the returned state", not stale,
                                f"reads superseded state field(s) {stale}: {txt(val, 4, 140)}" if stale else "no stale read")
                        if top == "action_mask" and "action_mask" in sfields and strip_cast(val) is strip_cast(sf.new["action_mask"]):
                            st2 = sf.stale_reads(sf.new["action_mask"], "action_mask")
                            st2 = [f for f in st2 if f != "action_mask"]
                            res.add("C12.R1c", site, fn, f"Observation.{path}{tag} (= State.action_mask) is computed from the returned state",
                                    not st2, f"mask reads superseded state field(s) {st2}" if st2 else "no stale read")
                    if top in sfields:
                        B = vfg.mk_attr(st, top)
                        # nested records: compare leaf with the leaf at the same path when the state has one
                        parts = path.split(".")[1:]
                        tB = vfg.typeof(B)
                        for part in parts:
                            if B.kind == "construct" and part in dict(B.args[1]):
                                B = dict(B.args[1])[part]
                            elif tB is not None and part in tree.fields(tB):
                                B = vfg.mk_attr(B, part)
                            else:
                                break
                            tB = vfg.typeof(B)
                        rel = same_or_depends(vfg, val, B)
                        res.add("C12.R1b", site, fn, f"Observation.{path}{tag} agrees with returned State.{path}", bool(rel),
                                {"copy": "plain copy (same value)", "view": "computed from the state field"}.get(rel) or
                                f"observation shows {txt(val, 4, 100)} but the returned state holds {txt(B, 4, 100)}")
    from . import lbf_rules
    n_lbf = lbf_rules.add_obligations(res, tree, "C12.R2", "observation")
    from . import views
    n_views = views.add_obligations(res, {ea.cls.name: ea for ea in analyses(tree)}, "C12.R2")
    res.analysed = {"environments": len(analyses(tree)), "functions": n_funcs, "observation_fields": n_fields, "view_wiring_obligations": n_views}
    if n_fields < 150:
        raise AnalysisError(f"only {n_fields} observation fields analysed (hand-confirmed minimum 150 over reset+step)")
    res.assumptions = ["records are not aliased across names inside step (attribute stores rebind the stored-to name)",
                       "a value stored in the returned state, or a field/element of it, is 'current'"]
    return res
