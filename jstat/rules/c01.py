"""C01 -- everything an environment emits conforms to the specs it declares (structural part)."""
from __future__ import annotations

from typing import Dict, List, Optional, Tuple

from ..engine import analyse_env, get_tree
from ..loader import AnalysisError, short
from ..normal import ext_name, linear, strip_cast
from ..report import Result
from ..terms import NONE, T, const, mk
from . import axis_rules
from .common import TIME_LIMITED, analyses, env_site, leaves, txt
from .stale import flat_fields, observation_leaves

EXPLANATION = (
    "Decided: (R1) the observation spec tree has exactly the structure of the Observation type: for every "
    "specs.Spec(Ctor, name, **children) the keyword set equals the field set of Ctor (NamedTuple / dataclass incl. "
    "inherited fields), recursively, and the top-level Ctor is the environment's Observation class -- "
    "Spec.validate/generate_value raise otherwise; (R2) reward/discount constructed by restart/termination/transition "
    "have the shapes declared by reward_spec/discount_spec (shared with C03.R6); (R3) where C11 proves that the emitted "
    "step counter reaches time_limit, the step_count spec admits it (maximum >= time_limit, or num_values >= "
    "time_limit + 1); (R4) observation leaves whose value is a literal (jnp.array(c), zeros, ones, full) lie inside the "
    "spec's literal bounds and have the spec's dtype category; (R5) the extent used in the bound of a coordinate field "
    "is the extent of the axis that field indexes (non-square grids; shared engine with C07); (R6) leaves that are a "
    "direct jax.random.uniform/randint draw lie inside the declared literal box; (R7) where the dtype category (bool / int / float) of a reward or observation leaf follows from literals, explicit dtype arguments and JAX promotion, it equals the category declared by the spec; (R8) where the symbolic shape of an observation leaf follows from array constructors, indexing, reductions, stacking and broadcasting, it equals the declared spec shape (rank, literal sizes, and which configuration extent sits on which axis). Not decided: dtypes and bounds of "
    "computed arrays (needs numeric abstract interpretation of JAX); that step accepts action_spec.generate_value() "
    "(behavioural; its spec side is C16.R5).")
EXPLANATION += ' (R5b) every row/column arithmetic site (flat-index divmod, wrap modulus, bounds test) whose result reaches an emitted observation uses the extent of the right axis.'

SP = "jumanji.specs."
SIG = {"Array": ["shape", "dtype", "name"], "BoundedArray": ["shape", "dtype", "minimum", "maximum", "name"],
       "DiscreteArray": ["num_values", "dtype", "name"], "MultiDiscreteArray": ["num_values", "dtype", "name"]}


def spec_args(s: T) -> Optional[Tuple[str, Dict[str, T]]]:
    if s.kind != "new" or not s.args[0].startswith(SP):
        return None
    k = s.args[0][len(SP):]
    if k not in SIG:
        return None
    out = dict(s.args[2])
    for n, v in zip(SIG[k], s.args[1]):
        out.setdefault(n, v)
    return k, out


def spec_paths(vfg, s: T, prefix: str = "") -> List[Tuple[str, T]]:
    """(dotted path, leaf spec term) ; phi alternatives are all returned under the same path."""
    out = []
    if s.kind == "phi":
        for a in s.args[0]:
            out += spec_paths(vfg, a, prefix)
        return out
    if s.kind == "new" and s.args[0] == SP + "Spec":
        for n, c in s.args[2]:
            if n in ("constructor", "name"):
                continue
            out += spec_paths(vfg, c, f"{prefix}{n}.")
        return out
    return [(prefix[:-1], s)]


def lit(t: Optional[T]):
    if t is None:
        return None
    t = strip_cast(t)
    if t.kind == "const" and isinstance(t.args[0], (int, float, bool)):
        return t.args[0]
    if t.kind == "un" and t.args[0] == "-":
        v = lit(t.args[1])
        return -v if v is not None else None
    return None


def bounds_of(info) -> Tuple[Optional[float], Optional[float]]:
    k, a = info
    if k == "BoundedArray":
        return lit(a.get("minimum")), lit(a.get("maximum"))
    if k in ("DiscreteArray",):
        n = lit(a.get("num_values"))
        return 0, (n - 1 if n is not None else None)
    if k == "MultiDiscreteArray":
        return 0, None
    return None, None


def literal_value(v: T):
    """(c, dtype term or None) when the leaf value is a literal fill."""
    c = strip_cast(v)
    n = ext_name(v)
    dt = None
    if n in ("jax.numpy.array", "jax.numpy.asarray") and v.args[1]:
        kw = dict(v.args[2])
        dt = kw.get("dtype", v.args[1][1] if len(v.args[1]) > 1 else None)
        x = lit(v.args[1][0])
        return (x, dt) if x is not None else None
    if n in ("jax.numpy.zeros", "jax.numpy.ones"):
        kw = dict(v.args[2])
        dt = kw.get("dtype", v.args[1][1] if len(v.args[1]) > 1 else None)
        return (0 if n.endswith("zeros") else 1, dt)
    if n == "jax.numpy.full" and len(v.args[1]) >= 2:
        kw = dict(v.args[2])
        dt = kw.get("dtype", v.args[1][2] if len(v.args[1]) > 2 else None)
        x = lit(v.args[1][1])
        return (x, dt) if x is not None else None
    return None


def dtype_cat(t: Optional[T]) -> Optional[str]:
    if t is None or t.kind != "ext":
        return None
    n = t.args[0].split(".")[-1]
    if n in ("bool", "bool_"):
        return "bool"
    if n.startswith("int") or n.startswith("uint"):
        return "int"
    if n.startswith("float"):
        return "float"
    return None


def sampled_range(v: T):
    """(lo, hi inclusive?, desc) for a direct uniform / randint draw."""
    x = v
    if x.kind == "proj":
        x = x.args[0]
    n = ext_name(x)
    if n in ("jax.random.uniform", "jax.random.randint"):
        kw = dict(x.args[2])
        args = x.args[1]
        if n.endswith("uniform"):
            lo = kw.get("minval", args[3] if len(args) > 3 else const(0.0))
            hi = kw.get("maxval", args[4] if len(args) > 4 else const(1.0))
            return lit(lo), lit(hi), "uniform"
        lo = kw.get("minval", args[2] if len(args) > 2 else None)
        hi = kw.get("maxval", args[3] if len(args) > 3 else None)
        l, h = lit(lo), lit(hi)
        return l, (h - 1 if h is not None else None), "randint"
    return None


def check(tier: str) -> Result:
    tree = get_tree()
    res = Result(explanation=EXPLANATION)
    n_specs = n_leaves = n_lit = n_samp = 0
    for ea in analyses(tree):
        vfg = ea.vfg
        env = short(ea.cls.qual)
        f_spec = tree.find_method(ea.cls, "observation_spec")
        site = f_spec.loc() if f_spec else ea.cls.loc()
        fn = env + ".observation_spec"
        spec = vfg.mk_attr(ea.self_t, "observation_spec")
        tops = list(spec.args[0]) if spec.kind == "phi" else [spec]
        # ---------------------------------------------------------------- R1
        def walk(s: T, path: str, top: bool):
            nonlocal n_specs
            if s.kind == "phi":
                for a in s.args[0]:
                    walk(a, path, top)
                return
            if not (s.kind == "new" and s.args[0] == SP + "Spec"):
                return
            n_specs += 1
            kw = dict(s.args[2])
            ctor = s.args[1][0] if s.args[1] else kw.get("constructor")
            children = {n: c for n, c in kw.items() if n not in ("constructor", "name")}
            if ctor is None or ctor.kind != "cls":
                raise AnalysisError(f"{env}: spec constructor at '{path or '<top>'}' not resolved: {txt(ctor) if ctor is not None else None}")
            ci = tree.classes[ctor.args[0]]
            fields = tree.fields(ci)
            missing = [f for f in fields if f not in children]
            extra = [c for c in children if c not in fields]
            res.add("C01.R1", site, fn, f"spec children of {ci.name} at '{path or '<top>'}' == fields of {ci.name}", not missing and not extra,
                    f"fields {fields}" if not missing and not extra else f"missing {missing}, unexpected {extra}")
            if top:
                ok = ea.obs_cls is not None and ci.qual == ea.obs_cls.qual
                res.add("C01.R1", site, fn, "top-level spec constructor is the environment's Observation type", ok,
                        f"{ci.qual.split('.')[-3:]} vs {ea.obs_cls.qual.split('.')[-3:] if ea.obs_cls else None}")
            for n, c in children.items():
                walk(c, f"{path}{n}.", False)
        for t in tops:
            if not (t.kind == "new" and t.args[0] == SP + "Spec"):
                raise AnalysisError(f"{env}.observation_spec not resolved to specs.Spec(...): {txt(t, 3)}")
            walk(t, "", True)
        spaths: Dict[str, List[T]] = {}
        for p, leaf in spec_paths(vfg, spec):
            spaths.setdefault(p, []).append(leaf)
        # ---------------------------------------------------------------- R4b boolean leaves: the only bounds a computed
        # boolean array (mask, adjacency, flags) always satisfies are [False, True]
        for p_, leaves_ in sorted(spaths.items()):
            for leaf in leaves_:
                info = spec_args(leaf)
                if info is None or info[0] != "BoundedArray" or dtype_cat(info[1].get("dtype")) != "bool":
                    continue
                lo_t, hi_t = strip_cast(info[1].get("minimum")) if info[1].get("minimum") is not None else None, strip_cast(info[1].get("maximum")) if info[1].get("maximum") is not None else None
                def _b(t):
                    return bool(t.args[0]) if t is not None and t.kind == "const" and isinstance(t.args[0], (bool, int)) else None
                lo_b, hi_b = _b(lo_t), _b(hi_t)
                verdict = None if lo_b is None or hi_b is None else (lo_b is False and hi_b is True)
                osite, ofn = env_site(ea, "observation_spec")
                res.add("C01.R4b", osite, ofn, f"boolean leaf Observation.{p_} is declared with the bounds [False, True]", verdict,
                        f"declared [{lo_b}, {hi_b}]" + ("" if verdict in (True, None) else ": every observation in which this array holds the excluded value fails validate()"))
        # ---------------------------------------------------------------- R3
        if ea.cls.name in TIME_LIMITED and "step_count" in spaths:
            T_ = vfg.mk_attr(ea.self_t, "time_limit")
            for leaf in spaths["step_count"]:
                info = spec_args(leaf)
                ok, why = None, f"spec {txt(leaf, 3, 100)}"
                if info is None:
                    pass
                elif info[0] == "Array":
                    ok, why = True, "unbounded Array"
                elif info[0] == "BoundedArray":
                    b, k = linear(info[1].get("maximum", NONE))
                    if b is T_:
                        ok, why = k >= 0, f"maximum = time_limit{k:+d}"
                elif info[0] == "DiscreteArray":
                    b, k = linear(info[1].get("num_values", NONE))
                    if b is T_:
                        ok, why = k >= 1, f"num_values = time_limit{k:+d}, i.e. maximum = time_limit{k - 1:+d}: the LAST observation at the limit carries step_count = time_limit"
                if ok is None and info is not None and info[0] in ("BoundedArray", "DiscreteArray"):
                    from ..terms import contains as _contains
                    bound = info[1].get("maximum", info[1].get("num_values"))
                    if bound is not None and not _contains(bound, T_):
                        ok, why = False, (f"bound {txt(bound, 3, 60)} does not depend on self.time_limit: a configured time_limit above it makes the emitted "
                                          f"step_count leave the declared range")
                res.add("C01.R3", site, fn, "step_count spec admits the value time_limit emitted on the last step", ok, why, nontrivial=ok is not None)
        # ---------------------------------------------------------------- R4 / R6 on emitted observation leaves
        for which, ts in (("reset", ea.reset_ts), ("step", ea.step_ts)):
            s2, f2 = env_site(ea, which)
            for o in observation_leaves(ea, ts):
                if o.kind != "construct":
                    continue
                for path, val in flat_fields(vfg, o):
                    n_leaves += 1
                    specs_here = spaths.get(path)
                    if not specs_here:
                        continue
                    vals = [x for x, _ in leaves(val)]
                    for v in vals:
                        lv = literal_value(v)
                        sr = sampled_range(v) if lv is None else None
                        if lv is None and sr is None:
                            continue
                        for leaf in specs_here:
                            info = spec_args(leaf)
                            if info is None:
                                continue
                            lo, hi = bounds_of(info)
                            if lv is not None:
                                c, dt = lv
                                n_lit += 1
                                bad = (lo is not None and c < lo) or (hi is not None and c > hi)
                                decided = lo is not None or hi is not None
                                res.add("C01.R4", s2, f2, f"literal Observation.{path} = {c} within the declared bounds", (not bad) if decided else None,
                                        f"value {c}; declared [{lo}, {hi}] ({info[0]})" + (" -- validate() raises on this observation" if bad else ""), nontrivial=decided)
                                cv, cs = dtype_cat(dt), dtype_cat(info[1].get("dtype"))
                                if cv and cs:
                                    res.add("C01.R4", s2, f2, f"literal Observation.{path} has the declared dtype category", cv == cs, f"value {cv}, spec {cs}")
                            else:
                                l, h, kind = sr
                                n_samp += 1
                                decided = (l is not None and lo is not None) or (h is not None and hi is not None)
                                bad = (l is not None and lo is not None and l < lo) or (h is not None and hi is not None and h > hi)
                                res.add("C01.R6", s2, f2, f"sampled Observation.{path} ({kind} in [{l}, {h}]) within the declared box", (not bad) if decided else None,
                                        f"declared [{lo}, {hi}]", nontrivial=decided)
    # ---------------------------------------------------------------- R7 dtype categories of rewards and observation leaves
    from ..dtypes import cat_of_dtype, dtype_cat as infer_cat
    from .common import step_types
    n_dt = 0
    for ea in analyses(tree):
        vfg = ea.vfg
        env = short(ea.cls.qual)
        rs = spec_args(vfg.mk_attr(ea.self_t, "reward_spec"))
        want = cat_of_dtype(rs[1].get("dtype")) if rs else None
        site, fn = env_site(ea, "step")
        seen_r = set()
        for l, _ in leaves(ea.step_ts):
            if l.kind != "construct":
                continue
            rw = vfg.mk_attr(l, "reward")
            for alt in (rw.args[0] if rw.kind == "phi" else (rw,)):
                if alt.id in seen_r:
                    continue
                seen_r.add(alt.id)
                c = infer_cat(alt)
                if c is None or want is None:
                    continue
                n_dt += 1
                res.add("C01.R7", site, fn, f"reward has the dtype category of reward_spec ({want})", c == want,
                        f"reward {txt(alt, 4, 110)} is {c}" + ("" if c == want else f": reward_spec.validate rejects it (declared {want})"))
        spec = vfg.mk_attr(ea.self_t, "observation_spec")
        sp: Dict[str, List[T]] = {}
        for p_, leaf in spec_paths(vfg, spec):
            sp.setdefault(p_, []).append(leaf)
        for which, ts in (("reset", ea.reset_ts), ("step", ea.step_ts)):
            s2, f2 = env_site(ea, which)
            for o in observation_leaves(ea, ts):
                if o.kind != "construct":
                    continue
                for path, val in flat_fields(vfg, o):
                    for alt in (val.args[0] if val.kind == "phi" else (val,)):
                        c = infer_cat(alt)
                        if c is None:
                            continue
                        for leaf in sp.get(path, []):
                            info = spec_args(leaf)
                            if info is None:
                                continue
                            w = cat_of_dtype(info[1].get("dtype"))
                            if w is None and info[0] in ("DiscreteArray", "MultiDiscreteArray") and "dtype" not in info[1]:
                                w = "int"
                            if w is None:
                                continue
                            if len(sp.get(path, [])) > 1 and c != w:
                                continue  # alternative specs (python-level configuration): pairing unknown
                            n_dt += 1
                            res.add("C01.R7", s2, f2, f"Observation.{path} has the declared dtype category ({w})", c == w,
                                    f"value {txt(alt, 3, 90)} is {c}" + ("" if c == w else f": the spec declares {w}"))
    from . import wiring
    n_w = wiring.add_obligations(res, tree, "C01.R9", lambda ci: tree.is_subclass(ci, tree.ENV_BASE) and ci.module.name.startswith("jumanji.environments."))
    # ---------------------------------------------------------------- R8 shapes of observation leaves
    from . import shape_rules
    n_shape = shape_rules.obs_shape_obligations(res, tree, "C01.R8")
    # ---------------------------------------------------------------- R2 (shared with C03)
    from .common import borrow as _borrow
    _borrow(res, "c03", {"C03.R6": "C01.R2"})
    # ---------------------------------------------------------------- R5
    n_axis = axis_rules.add_obligations(res, tree, "C01.R5", scope="spec")
    n_axis += axis_rules.add_obligations(res, tree, "C01.R5b", scope="observed")
    # ---- R3b: the emitted step counter stays inside its spec only if the episode really ends at time_limit: the
    # counter / limit-test premises decided by C11 are necessary for `step_count <= time_limit` on the terminal observation
    from .common import borrow
    n_c11 = borrow(res, "c11", {"C11.R2": "C01.R3b", "C11.R3": "C01.R3b", "C11.R4": "C01.R3b"})
    # ---- R5c: extent-named parameters of generator helpers receive the extent of their own axis (a transposed grid
    # has the shape (num_cols, num_rows) while the spec announces (num_rows, num_cols)): borrowed from C07.R1
    n_c07 = borrow(res, "c07", {"C07.R1": "C01.R5c"}, only_if=lambda ob: "argument for parameter" in ob.construct or "extent" in ob.construct)
    # ---- R3c: a node index that is advanced every step and declared with the bounds [0, num_nodes - 1] is reduced modulo
    # num_nodes: GraphColoring colours node after node and a full episode has exactly num_nodes steps, so the un-wrapped
    # successor index of the LAST step is num_nodes (frozen instance, confirmed by reading; two independent seeds removed the wrap)
    from ..normal import linear as _lin
    from ..shapes import canon as _canon
    from ..terms import uncopy as _unc
    for ea in analyses(tree):
        if ea.cls.name != "GraphColoring":
            continue
        vfg = ea.vfg
        site, fn = env_site(ea, "step")
        old = vfg.mk_attr(ea.state, "current_node_index")
        for o in observation_leaves(ea, ea.step_ts):
            if o.kind != "construct":
                continue
            v = dict(flat_fields(vfg, o)).get("current_node_index")
            if v is None:
                continue
            v0 = _unc(strip_cast(v))
            verdict, why = None, f"value {txt(v0, 4, 80)} (form not compared)"
            wrapped = (v0.kind == "bin" and v0.args[0] == "%") or ext_name(v0) in ("jax.numpy.mod", "jax.numpy.remainder")
            if wrapped:
                mod = strip_cast(v0.args[2] if v0.kind == "bin" else v0.args[1][1])
                same = mod.kind == "attr" and _canon(vfg, mod.args[1]) == _canon(vfg, "num_nodes")
                verdict, why = (True, "reduced modulo num_nodes") if same else (None, f"reduced modulo {txt(mod, 2, 40)} (not compared)")
            elif ext_name(v0) in ("jax.numpy.minimum", "jax.numpy.clip"):
                verdict, why = None, "clipped (bound not compared)"
            else:
                b, k = _lin(v0)
                if b is old and k is not None and k >= 1:
                    verdict, why = False, f"the emitted index is state.current_node_index + {k} without wrap: after the last node it equals num_nodes, above the declared maximum num_nodes - 1"
            res.add("C01.R3c", site, fn, "the advancing node index stays inside its declared range [0, num_nodes - 1]", verdict, why)
            break
    res.analysed = {"environments": len(analyses(tree)), "nested_spec_nodes": n_specs, "observation_leaves": n_leaves,
                    "literal_leaves_compared": n_lit, "sampled_leaves_compared": n_samp, "axis_bound_sites": n_axis, "dtype_categories_compared": n_dt, "leaf_shapes_compared": n_shape}
    if n_specs < 31:
        raise AnalysisError(f"only {n_specs} specs.Spec nodes analysed (hand-confirmed minimum 31: 23 top-level + 8 nested)")
    res.assumptions = ["Spec.validate / generate_value map children by keyword onto the constructor (jumanji/specs.py, checked by C16.R5)",
                       "literal folding of module constants only; symbolic bounds are recorded as undecided, never reported"]
    return res
