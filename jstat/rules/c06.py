"""C06 -- mask-respecting play keeps hard constraints (guard-dominates-update clauses only)."""
from __future__ import annotations

from typing import List, Optional

from ..engine import analyse_env, get_tree
from ..loader import AnalysisError, short
from ..normal import conjuncts, ext_name, linear, negand, strip_cast
from ..report import Result
from ..terms import T, contains, deps, mk, uncopy
from .common import analyses, env_site, txt
from .stale import StepFlow
from .table_rules import const_table
from .validity import atom_form

EXPLANATION = (
    "Only the constraints that reduce to 'a guard dominates an update' are decided: (R1) guarded subtraction -- the "
    "Knapsack budget and the CVRP capacity are updated as B' = cond(V, B - W[a], B) (CVRP: refill to max_capacity at the "
    "depot) where V has the conjunct B >= W[a] on the same terms, and reset initialises B to the configured total; by "
    "induction B never becomes negative; (R2) visit-once -- in TSP, CVRP and Knapsack the guard contains not visited[a] "
    "and the guarded update sets exactly visited[a] to True (else-branch identity), so no city / customer / item is "
    "taken twice; (R3) the literal Sudoku BOX_IDX table is a partition of 0..80 whose rows are the nine 3x3 boxes; (R4) "
    "(R5) in the CO environments whose step trusts the stored mask (BinPack, FlatPack, JobShop, Sudoku, GraphColoring) the mask "
    "handed to the agent is computed from the returned state, is the one the next step consults, has one entry per action and (FlatPack) is "
    "laid out in the order of the coordinates it was computed over -- a mask that is stale or mis-laid lets a mask-respecting action overlap / repeat; (R4) "
    "GraphColoring: the next mask is computed from the colours after the current assignment (the stale-mask rule of "
    "C04.R1), which is what 'adjacent nodes never share a colour under mask-respecting play' rests on. Not decided "
    "(runtime geometry / scheduling): BinPack EMS bookkeeping, FlatPack overlap, JobShop machine and job exclusivity, "
    "MultiCVRP unique-destination resolution, Connector and MMST route exclusivity, feasibility of completed episodes.")


def at_set(t: T):
    """(base, index, value) for base.at[index].set(value)."""
    if t.kind == "call" and t.args[0].kind == "attr" and t.args[0].args[1] == "set" and t.args[0].args[0].kind == "index" \
            and t.args[0].args[0].args[0].kind == "attr" and t.args[0].args[0].args[0].args[1] == "at" and len(t.args[1]) == 1:
        return t.args[0].args[0].args[0].args[0], t.args[0].args[0].args[1], t.args[1][0]
    return None


def check(tier: str) -> Result:
    tree = get_tree()
    res = Result(explanation=EXPLANATION)
    by = {ea.cls.name: ea for ea in analyses(tree)}
    for n in ("Knapsack", "CVRP", "TSP", "GraphColoring", "Sudoku"):
        if n not in by:
            raise AnalysisError(f"environment {n} not found")
    # ------------------------------------------------------------------ R1 guarded subtraction
    for name, fld, wfld, total in (("Knapsack", "remaining_budget", "weights", "total_budget"), ("CVRP", "capacity", "demands", "max_capacity")):
        ea = by[name]
        vfg = ea.vfg
        sf = StepFlow(ea)
        site, fn = env_site(ea, "step")
        nv, ov = sf.new[fld], sf.old[fld]
        ok = False
        why = txt(nv, 5, 200)
        if nv.kind == "choice" and nv.args[0] == "cond" and uncopy(nv.args[2][1]) is ov:
            V = nv.args[1]
            subs = [n_ for n_ in deps(nv.args[2][0]) if n_.kind == "bin" and n_.args[0] == "-" and strip_cast(n_.args[1]) is ov]
            if len(subs) == 1:
                W = strip_cast(subs[0].args[2])
                want = ("cmp", (ov.id,), (W.id,), 0, ">=")
                has = any(atom_form(c) == want for c in conjuncts(V))
                w_ok = W.kind == "index" and W.args[0] is sf.old[wfld] and W.args[1] is ea.action
                # the updated value is the subtraction itself or a selection between it and a refill with the configured total
                upd = nv.args[2][0]
                shape_ok = upd is subs[0] or (upd.kind == "choice" and any(strip_cast(a) is subs[0] for a in upd.args[2]) and
                                              all(strip_cast(a) is subs[0] or strip_cast(a) is vfg.mk_attr(ea.self_t, total) for a in upd.args[2]))
                ok = has and w_ok and shape_ok
                why = (f"B' = cond(V, B - {txt(W, 3, 40)}, B); V has conjunct B >= {txt(W, 3, 40)}: {has}; W is {wfld}[action]: {w_ok}; "
                       f"update is the subtraction (or a refill to the configured total): {shape_ok}")
            else:
                why = f"{len(subs)} subtraction(s) from the incoming {fld} found in the guarded update"
        res.add("C06.R1", site, fn, f"State.{fld} is decreased only under the guard {fld} >= {wfld}[action]", ok, why)
        s2, f2 = env_site(ea, "reset")
        init = strip_cast(vfg.mk_attr(ea.reset_state, fld))
        tot = None
        oki = init.kind == "attr" and init.args[1] == total
        res.add("C06.R1", s2, f2, f"reset initialises State.{fld} to the configured {total}", oki, txt(init, 4, 100))
    # ------------------------------------------------------------------ R2 visit-once
    for name, fld in (("TSP", "visited_mask"), ("CVRP", "visited_mask"), ("Knapsack", "packed_items")):
        ea = by[name]
        sf = StepFlow(ea)
        site, fn = env_site(ea, "step")
        nv, ov = sf.new[fld], sf.old[fld]
        ok = False
        why = txt(nv, 5, 200)
        if nv.kind == "choice" and nv.args[0] == "cond" and uncopy(nv.args[2][1]) is ov:
            V = nv.args[1]
            unvisited = mk("index", ov, ea.action)
            has = any(negand(c) is unvisited for c in conjuncts(V))
            u = at_set(nv.args[2][0])
            base_ok = False
            depot = ""
            if u is not None:
                base_ok = u[0] is ov
                inner = at_set(u[0])
                if not base_ok and inner is not None and inner[0] is ov and strip_cast(inner[1]).kind == "const" and name == "CVRP" \
                        and strip_cast(inner[2]).kind == "const" and strip_cast(inner[2]).args[0] is False:
                    base_ok = True   # documented exception: the depot (a constant index) becomes visitable again
                    depot = " (after the documented depot reset at a constant index)"
            setok = u is not None and base_ok and u[1] is ea.action and strip_cast(u[2]).kind == "const" and strip_cast(u[2]).args[0] is True
            ok = has and setok
            why = f"guard contains not {fld}[action]: {has}; guarded update is {fld}.at[action].set(True){depot}: {setok}"
        res.add("C06.R2", site, fn, f"State.{fld}[action] is set only under the guard not {fld}[action] (visit once)", ok, why)
    # ------------------------------------------------------------------ R3 Sudoku boxes
    t, site = const_table(tree, "jumanji.environments.logic.sudoku.constants.BOX_IDX")
    flat = [x for row in t for x in row]
    part = sorted(flat) == list(range(81)) and len(t) == 9 and all(len(r) == 9 for r in t)
    boxes = part
    if part:
        for row in t:
            cells = {(x // 9, x % 9) for x in row}
            r0, c0 = min(r for r, _ in cells), min(c for _, c in cells)
            if r0 % 3 or c0 % 3 or cells != {(r0 + i, c0 + j) for i in range(3) for j in range(3)}:
                boxes = False
    res.add("C06.R3", site, "logic.sudoku.constants.BOX_IDX", "BOX_IDX is a partition of the 81 cells whose rows are the nine aligned 3x3 boxes", part and boxes,
            "partition and box shape verified" if part and boxes else f"partition: {part}; rows are aligned 3x3 boxes: {boxes}")
    # ------------------------------------------------------------------ R4 GraphColoring mask freshness
    ea = by["GraphColoring"]
    sf = StepFlow(ea)
    site, fn = env_site(ea, "step")
    stale = [f for f in sf.stale_reads(sf.new["action_mask"], "action_mask") if f != "action_mask"]
    res.add("C06.R4", site, fn, "the next colour mask is computed from the colours after the current assignment", not stale,
            "no stale read" if not stale else f"mask reads superseded field(s) {stale}: a colour just given to a neighbour stays masked-in")
    nv = sf.new["colors"]
    u = at_set(nv)
    ok = u is not None and u[0] is sf.old["colors"] and u[1] is sf.old["current_node_index"] and u[2] is ea.action
    res.add("C06.R4", site, fn, "the chosen colour is written at the current node only", ok, txt(nv, 4, 120))
    from .common import borrow
    TRUSTS_MASK = ["BinPack", "FlatPack", "JobShop", "Sudoku", "GraphColoring"]   # CO environments whose step consults the stored mask
    n_b = borrow(res, "c04", {"C04.R1": "C06.R5", "C04.R3a": "C06.R5", "C04.R7": "C06.R5", "C04.R6": "C06.R5", "C04.R2": "C06.R5", "C04.R9": "C06.R5"}, envs=TRUSTS_MASK)
    # ---- R6: Connector / MMST routes never share a cell already at reset: starts and targets are drawn without replacement
    n_gen = borrow(res, "c10", {"C10.R2": "C06.R6"}, envs=["connector", "mmst"])
    # ---- R7: used-once flags (packed / visited / placed) are decisive in the mask (rules/used_rules.py)
    from . import used_rules
    n_used = used_rules.add_obligations(res, tree, "C06.R7")
    if n_used < 3:
        raise AnalysisError(f"only {n_used} used-flag mask formulas found (hand-confirmed on the pinned tree: Knapsack, TSP, BinPack, FlatPack; at most one may be out of the recognised form)")
    res.analysed = {"environments": ["Knapsack", "CVRP", "TSP", "Sudoku", "GraphColoring"], "mask_soundness_obligations": n_b, "obligations": len(res.obligations)}
    res.assumptions = ["lax.cond semantics; the induction over steps uses C05.R2 (state untouched on invalid actions)",
                       "constraints of BinPack, FlatPack, JobShop, MultiCVRP, Connector, MMST are not decided (runtime geometry / scheduling)"]
    return res
