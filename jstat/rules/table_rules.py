"""Move-table agreement rules (C04.R4, C09.R1): every encoding of an environment's
action -> displacement table agrees with its siblings and with the direction names used in the code.

Tables are literal constants of the analysed tree; they are folded by a small evaluator of the literal
sub-language (lists, ints, unary minus, names of other constants, jnp.array(<literal>)).  No repository
code runs."""
from __future__ import annotations

import ast
from typing import Dict, List, Optional, Tuple

from ..loader import AnalysisError, Tree, short

E = "jumanji.environments."
CONVENTION = {"up": (-1, 0), "down": (1, 0), "left": (0, -1), "right": (0, 1), "noop": (0, 0), "no_op": (0, 0), "load": (0, 0)}


def fold(tree: Tree, m, e: ast.expr, depth: int = 0):
    """Literal value of a constant expression, or None."""
    if depth > 8:
        return None
    if isinstance(e, ast.Constant) and isinstance(e.value, (int, float)) and not isinstance(e.value, bool):
        return e.value
    if isinstance(e, ast.UnaryOp) and isinstance(e.op, ast.USub):
        v = fold(tree, m, e.operand, depth + 1)
        return -v if isinstance(v, (int, float)) else None
    if isinstance(e, (ast.List, ast.Tuple)):
        out = [fold(tree, m, x, depth + 1) for x in e.elts]
        return None if any(x is None for x in out) else out
    if isinstance(e, ast.Call):
        q = tree.resolve_expr(m, e.func) or ""
        if q.split(".")[-1] in ("array", "asarray") and (q.startswith("jax.numpy") or q.startswith("numpy")) and e.args:
            return fold(tree, m, e.args[0], depth + 1)
        return None
    if isinstance(e, (ast.Name, ast.Attribute)):
        q = tree.resolve_expr(m, e)
        if q:
            r = tree.lookup(q)
            if r and r[0] == "const":
                return fold(tree, r[1][0], r[1][1], depth + 1)
            if r and r[0] == "classattr":
                return fold(tree, r[1][0].module, r[1][1], depth + 1)
    return None


def const_table(tree: Tree, qual: str):
    r = tree.lookup(qual)
    if not r or r[0] not in ("const", "classattr"):
        raise AnalysisError(f"table anchor {qual} not found")
    m = r[1][0] if r[0] == "const" else r[1][0].module
    v = fold(tree, m, r[1][1])
    if v is None:
        raise AnalysisError(f"table {qual} is not a foldable literal")
    return v, f"{m.relpath}:{r[1][1].lineno}"


def enum_members(tree: Tree, qual: str) -> Dict[str, int]:
    ci = tree.classes.get(qual)
    if ci is None:
        raise AnalysisError(f"enum anchor {qual} not found")
    out = {}
    for n, e in ci.class_attrs.items():
        v = fold(tree, ci.module, e)
        if isinstance(v, int):
            out[n] = v
    return out


def offsets(elts: List[ast.expr]) -> Optional[List[Tuple[str, str]]]:
    """[(base text, signed offset text)] of tuple/list elements of the form base, base + k, base - k."""
    out = []
    for x in elts:
        if not (isinstance(x, ast.BinOp) and isinstance(x.op, (ast.Add, ast.Sub))):
            # clamped forms such as jnp.max(jnp.array([0, x - 1])): take the single inner `name +/- k`
            inner = [b for b in ast.walk(x) if isinstance(b, ast.BinOp) and isinstance(b.op, (ast.Add, ast.Sub))
                     and isinstance(b.left, (ast.Name, ast.Attribute, ast.Subscript)) and isinstance(b.right, (ast.Constant, ast.Name))
                     and not (isinstance(b.left, ast.Name) and isinstance(b.right, ast.Constant) and b.left.id.startswith("grid"))]
            inner = [b for b in inner if not any(isinstance(n, ast.Name) and n.id.startswith("grid") for n in ast.walk(b))]
            if len(inner) == 1:
                x = inner[0]
        if isinstance(x, ast.BinOp) and isinstance(x.op, (ast.Add, ast.Sub)):
            sign = "+" if isinstance(x.op, ast.Add) else "-"
            out.append((ast.unparse(x.left), sign + ast.unparse(x.right)))
        else:
            out.append((ast.unparse(x), "0"))
    return out


def delta_int(off: str) -> Optional[int]:
    try:
        return int(off.replace("+", ""))
    except ValueError:
        return None


def lambda_elts(lam) -> Optional[List[ast.expr]]:
    b = lam.body
    if b is None:
        return None
    if isinstance(b, (ast.Tuple, ast.List)):
        return list(b.elts)
    if isinstance(b, ast.Call) and b.args and isinstance(b.args[0], (ast.List, ast.Tuple)):
        return list(b.args[0].elts)
    if isinstance(b, ast.Call) and b.keywords and not b.args:
        return [k.value for k in b.keywords]
    if isinstance(b, ast.Call) and b.args and not b.keywords:
        return list(b.args)
    return None


class _DefAsLambda:
    """A nested `def name(...): return <expr>` seen as the lambda it is equivalent to."""

    def __init__(self, fd: ast.FunctionDef):
        rets = [n for n in fd.body if isinstance(n, ast.Return)]
        self.body = rets[0].value if len(rets) == 1 and isinstance(fd.body[-1], ast.Return) else None
        self.lineno = fd.lineno
        self.args = fd.args


def named_lambdas(fn_node: ast.AST) -> Dict[str, ast.Lambda]:
    out = {}
    for st in ast.walk(fn_node):
        if isinstance(st, ast.Assign) and len(st.targets) == 1 and isinstance(st.targets[0], ast.Name) and isinstance(st.value, ast.Lambda):
            out[st.targets[0].id] = st.value
        elif isinstance(st, ast.FunctionDef) and st is not fn_node:
            d = _DefAsLambda(st)
            if d.body is not None:
                out[st.name] = d
    return out


def switch_lists(fn_node: ast.AST) -> List[List[ast.expr]]:
    out = []
    assigns = {}
    for st in ast.walk(fn_node):
        if isinstance(st, ast.Assign) and len(st.targets) == 1 and isinstance(st.targets[0], ast.Name) and isinstance(st.value, (ast.List, ast.Tuple)):
            assigns.setdefault(st.targets[0].id, []).append(st.value)
    for n in ast.walk(fn_node):
        if isinstance(n, ast.Call) and ast.unparse(n.func).endswith("lax.switch"):
            br = n.args[1] if len(n.args) >= 2 else next((k.value for k in n.keywords if k.arg == "branches"), None)
            if isinstance(br, ast.Name) and len(assigns.get(br.id, [])) == 1:
                br = assigns[br.id][0]
            if isinstance(br, (ast.List, ast.Tuple)):
                out.append(list(br.elts))
    return out


def direction_of(name: str) -> Optional[str]:
    n = name.lower()
    for d in ("noop", "no_op", "left", "right", "down", "up", "load"):
        if n == d or n.endswith("_" + d) or n.startswith(d + "_") or n == "move_" + d:
            return d
    return None


def add_obligations(res, tree: Tree, rule: str, only_mask_tables: bool = False) -> int:
    n = 0

    def ob(site, fn, construct, ok, detail):
        nonlocal n
        res.add(rule, site, fn, construct, ok, detail, nontrivial=ok is not None)
        n += 1

    def fn_of(qual: str):
        f = tree.functions.get(qual)
        if f is None:
            raise AnalysisError(f"anchor {qual} not found")
        return f

    # ---- Maze: switch lambdas in step <-> MOVES used by the mask
    f = fn_of(E + "routing.maze.env.Maze.step")
    moves, msite = const_table(tree, E + "routing.maze.constants.MOVES")
    sl = switch_lists(f.node)
    if not sl:
        # the switch was moved into a helper / rewritten in a form this (syntactic) pairing does not read: not decided here
        # (the value-flow rules on the same code -- displacement added, border tests, stale reads -- still apply)
        ob(f.loc(), "routing.maze.env.Maze.step", "switch branches of step agree with MOVES", None, "no lax.switch branch list in the recognised form inside Maze.step")
        sl = [[]]
    maze_named = named_lambdas(f.node)
    for i, br in enumerate(sl[0]):
        if isinstance(br, ast.Name) and br.id in maze_named:
            br = maze_named[br.id]
        if not isinstance(br, (ast.Lambda, _DefAsLambda)):
            continue
        el = lambda_elts(br)
        if el is None or i >= len(moves):
            continue
        off = offsets(el)
        d = [delta_int(o) for _, o in off]
        ok = d == list(moves[i])
        ob(f"{f.module.relpath}:{br.lineno}", "routing.maze.env.Maze.step", f"switch branch {i} displacement == MOVES[{i}]", ok,
           f"branch moves by {d}; MOVES[{i}] = {moves[i]} (the mask tests MOVES, step applies the branch)")
    if only_mask_tables:
        return n
    # ---- unit-vector tables: rows are unit steps, i and i+2 cancel, pairwise distinct
    for q in ("routing.maze.constants.MOVES", "routing.cleaner.constants.MOVES", "routing.sokoban.constants.MOVES",
              "logic.sliding_tile_puzzle.constants.MOVES", "routing.snake.env.Snake.MOVES"):
        t, site = const_table(tree, E + q)
        rows = [tuple(r) for r in t]
        unit = all(len(r) == 2 and sorted(abs(x) for x in r) == [0, 1] for r in rows)
        cancel = len(rows) == 4 and all(rows[i][0] + rows[(i + 2) % 4][0] == 0 and rows[i][1] + rows[(i + 2) % 4][1] == 0 for i in range(4))
        ob(site, q, "4 distinct unit moves; moves i and i+2 cancel", unit and cancel and len(set(rows)) == 4, f"{rows}")
        exp = [CONVENTION[d] for d in ("up", "right", "down", "left")]
        ob(site, q, "row order is Up, Right, Down, Left (documented action encoding)", rows == exp, f"{rows} vs {exp}")
    # ---- Snake: Actions enum <-> MOVES rows
    acts = enum_members(tree, E + "routing.snake.types.Actions")
    t, site = const_table(tree, E + "routing.snake.env.Snake.MOVES")
    for name, v in sorted(acts.items(), key=lambda kv: kv[1]):
        d = direction_of(name)
        ok = d is not None and 0 <= v < len(t) and tuple(t[v]) == CONVENTION[d]
        ob(site, "routing.snake.env.Snake.MOVES", f"Actions.{name} = {v} selects the '{d}' displacement", ok, f"MOVES[{v}] = {t[v] if 0 <= v < len(t) else None}")
    # ---- SlidingTile: named vectors
    for name in ("UP", "RIGHT", "DOWN", "LEFT"):
        t, site = const_table(tree, E + "logic.sliding_tile_puzzle.constants." + name)
        ob(site, "logic.sliding_tile_puzzle.constants", f"{name} is the '{name.lower()}' displacement", tuple(t) == CONVENTION[name.lower()], f"{t}")
    # ---- LBF: action constants <-> MOVES rows
    t, site = const_table(tree, E + "routing.lbf.constants.MOVES")
    for name in ("NOOP", "UP", "DOWN", "LEFT", "RIGHT", "LOAD"):
        v, _ = const_table(tree, E + "routing.lbf.constants." + name)
        ok = isinstance(v, int) and 0 <= v < len(t) and tuple(t[v]) == CONVENTION[name.lower()]
        ob(site, "routing.lbf.constants.MOVES", f"{name} = {v} selects the '{name.lower()}' displacement", ok, f"MOVES[{v}] = {t[v] if isinstance(v, int) and 0 <= v < len(t) else None}")
    # ---- Connector: constants <-> lambda order and names; generator pairs
    f = fn_of(E + "routing.connector.utils.move_position")
    lams = named_lambdas(f.node)
    sl = switch_lists(f.node)
    if not sl or not lams:
        ob(f.loc(), "routing.connector.utils.move_position", "switch branches of move_position agree with the action constants", None,
           "switch list / named branch functions not in the recognised form")
        sl = [[]]
    cvals = {nm: const_table(tree, E + "routing.connector.constants." + nm)[0] for nm in ("NOOP", "UP", "RIGHT", "DOWN", "LEFT")}
    for i, br in enumerate(sl[0]):
        nm = br.id if isinstance(br, ast.Name) else None
        d = direction_of(nm) if nm else None
        lam = lams.get(nm)
        el = lambda_elts(lam) if lam is not None else None
        delta = tuple(delta_int(o) for _, o in offsets(el)) if el else None
        ok_name = (delta == CONVENTION[d]) if (d is not None and delta is not None) else None
        ob(f"{f.module.relpath}:{lam.lineno if lam is not None else f.node.lineno}", "routing.connector.utils.move_position", f"lambda {nm} moves '{d}'", ok_name,
           f"displacement {delta}" if ok_name is not None else "the lambda's name carries no direction: undecided")
        # the branch index is tied to the action constant through the displacement when the name is silent
        if d is None and delta is not None:
            d = next((k for k, v in CONVENTION.items() if v == delta and k not in ("no_op", "load")), None)
        const_name = {"noop": "NOOP", "no_op": "NOOP"}.get(d, (d or "").upper())
        ok_idx = const_name in cvals and cvals[const_name] == i
        ob(f"{f.module.relpath}:{f.node.lineno}", "routing.connector.utils.move_position", f"branch {i} of the switch is the action constant {const_name}", ok_idx,
           f"{const_name} = {cvals.get(const_name)}; branch index {i}")
    # the generator's displacement -> action translation, located by what it contains (a list of action constants and
    # a list of displacement comparisons), not by its name
    g = mult = tuples = None
    for q, fi in sorted(tree.functions.items()):
        if not q.startswith(E + "routing.connector.generator.") or isinstance(fi.node, ast.Lambda):
            continue
        m_ = t_ = None
        for call in ast.walk(fi.node):
            if not (isinstance(call, ast.Call) and ast.unparse(call.func).endswith("array") and call.args and isinstance(call.args[0], (ast.List, ast.Tuple))):
                continue
            elts = call.args[0].elts
            if elts and all(isinstance(x, ast.Name) and direction_of(x.id) for x in elts) and m_ is None:
                m_ = [x.id for x in elts]
            elif elts and all(any(isinstance(c, ast.Compare) for c in ast.walk(x)) for x in elts) and t_ is None:
                t_ = []
                for x in elts:
                    lits = [fold(tree, fi.module, c) for c in ast.walk(x) if isinstance(c, ast.Call) and ast.unparse(c.func).endswith("array")]
                    lits = [l for l in lits if isinstance(l, list) and len(l) == 2 and all(isinstance(v, int) for v in l)]
                    t_.append(tuple(lits[0]) if lits else None)
        if m_ is not None and t_ is not None and len(m_) == len(t_):
            g, mult, tuples = fi, m_, t_
            break
    if g is None:
        raise AnalysisError("connector generator: no function pairing displacement tests with action constants was recognised")
    for nm, tp in zip(mult, tuples):
        d = direction_of(nm)
        ob(g.loc(), short(g.qual), f"displacement {tp} is paired with action {nm}", d is not None and tp == CONVENTION[d], f"'{d}' means {CONVENTION.get(d)}")
    # ---- PacMan: the three copies of the player-move table agree
    copies = []
    for q in ("routing.pac_man.env.PacMan.player_step", "routing.pac_man.utils.player_step", "routing.pac_man.utils.ghost_move"):
        fi = tree.functions.get(E + q)
        if fi is None:
            raise AnalysisError(f"anchor {E}{q} not found")
        lams = named_lambdas(fi.node)
        order = [[b.id for b in lst if isinstance(b, ast.Name)] for lst in switch_lists(fi.node)]
        order = [o for o in order if o and all(x in lams for x in o)]
        if not order:
            copies.append((q, fi, None))
            continue
        sig = []
        for nm in order[0]:
            el = lambda_elts(lams[nm])
            off = offsets(el)
            norm = []
            for base, o in off:
                base = base.replace("position[1]", "position.y").replace("position[0]", "position.x")
                o = o.replace("steps", "1")
                norm.append((base, o))
            sig.append((nm, tuple(norm)))
        copies.append((q, fi, sig))
    ref = copies[0][2]

    def _deltas(sg):
        """displacements only (branch function names are private spellings)"""
        return [tuple(o for _, o in nrm) for _, nrm in sg] if sg is not None else None
    for q, fi, sig in copies[1:]:
        da, db = _deltas(sig), _deltas(ref)
        if da is None or db is None:
            verdict = None
        elif da == db:
            verdict = True
        else:
            # definite only when both are fully numeric tables of the same length
            numeric = all(all(delta_int(o) is not None for o in row) for row in da + db)
            verdict = False if (numeric and len(da) == len(db)) else None
        ob(fi.loc(), q, "player move table equals the one in PacMan.player_step (order and displacements)", verdict,
           "identical displacements" if verdict else (f"{da} vs {db}" if verdict is False else "not in a comparable form"))
    # ---- RobotWarehouse: Direction enum <-> forward displacement
    dirs = enum_members(tree, E + "routing.robot_warehouse.types.Direction")
    fi = tree.functions.get(E + "routing.robot_warehouse.utils_agent.get_new_position_after_forward")
    if fi is None:
        raise AnalysisError("robot_warehouse get_new_position_after_forward not found")
    lams = named_lambdas(fi.node)
    sl = switch_lists(fi.node)
    if sl:
        for i, br in enumerate(sl[0]):
            lam = br if isinstance(br, ast.Lambda) else lams.get(getattr(br, "id", None))
            nm = getattr(br, "id", None)
            if lam is None:
                continue
            el = lambda_elts(lam)
            if el is None:
                continue
            off = offsets(el)
            delta = tuple(delta_int(o) for _, o in off)
            want = [k for k, v in dirs.items() if v == i]
            d = direction_of(want[0]) if want else None
            ok = d is not None and len(delta) >= 2 and None not in delta[:2]
            if ok:
                # the warehouse stores (x, y) with x along axis 0: the displacement must be a unit step and
                # opposite directions must cancel (checked below); name agreement is checked when the lambda is named
                pass
            ob(f"{fi.module.relpath}:{lam.lineno}", "routing.robot_warehouse.utils_agent.get_new_position_after_forward",
               f"branch {i} (Direction.{want[0] if want else '?'}) is a unit step", ok and sorted(abs(x) for x in delta[:2]) == [0, 1], f"displacement {delta}")
            if nm and direction_of(nm) and d and len(delta) >= 2:
                ob(f"{fi.module.relpath}:{lam.lineno}", "routing.robot_warehouse.utils_agent.get_new_position_after_forward",
                   f"branch {i} is the lambda named for Direction.{want[0]} and moves '{d}'", direction_of(nm) == d and tuple(delta[:2]) == CONVENTION[d],
                   f"lambda {nm}, displacement {delta[:2]}, convention {CONVENTION[d]}")
        deltas = []
        for br in sl[0]:
            lam = br if isinstance(br, ast.Lambda) else lams.get(getattr(br, "id", None))
            el = lambda_elts(lam) if lam is not None else None
            deltas.append(tuple(delta_int(o) for _, o in offsets(el))[:2] if el else None)
        if len(deltas) == 4 and None not in deltas and all(None not in d for d in deltas):
            cancel = all(deltas[i][0] + deltas[(i + 2) % 4][0] == 0 and deltas[i][1] + deltas[(i + 2) % 4][1] == 0 for i in range(4))
            ob(fi.loc(), "routing.robot_warehouse.utils_agent.get_new_position_after_forward", "opposite directions cancel; four distinct steps",
               cancel and len(set(deltas)) == 4, f"{deltas}")
    return n
