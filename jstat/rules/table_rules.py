"""Move-table agreement rules (C04.R4, C09.R1)."""
def add_obligations(res, tree, rule, only_mask_tables=False):
    return 0
