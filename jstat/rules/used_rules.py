"""Used-once flags are respected by the mask (C06.R7, C04.R10).

A *used flag* is a boolean State field that step only ever switches on: its new value is the incoming value after
`.at[<index derived from the action>].set(True)` (possibly under the validity guard) -- packed items (Knapsack),
visited cities (TSP), placed items (BinPack), placed blocks (FlatPack); found from the code, not from a list.  The
action mask shown with the new state, written over the state it is computed from, must make "already used" decisive:
in every boolean formula of the mask that reads the flag, forcing the flag to True forces the formula to False whatever
the other sub-formulas are (truth table over the formula's own atoms, rules/bounds_rules.decisive).  An `&` turned into
`|`, or a lost negation, offers an entity twice: the partial solution then violates the problem's hard constraint
(item packed twice, city visited twice, overlapping blocks)."""
from __future__ import annotations

from typing import Dict, List

from ..engine import EnvAnalysis
from ..loader import AnalysisError
from ..normal import strip_cast
from ..terms import T, deps, uncopy
from . import bounds_rules as B
from .common import analyses, env_site, txt
from .stale import StepFlow, observation_leaves
from .validity import rewrite
from .views import flat_fields


def _set_true_chain(new: T, old: T) -> bool:
    t = uncopy(strip_cast(new))
    for _ in range(6):
        if t is old:
            return True
        if t.kind == "choice":
            alts = [uncopy(strip_cast(a)) for a in t.args[2]]
            if any(a is old for a in alts):
                return all(_set_true_chain(a, old) for a in alts if a is not old)
            return False
        if t.kind == "call" and t.args[0].kind == "attr" and t.args[0].args[1] == "set" and t.args[1] \
                and strip_cast(t.args[1][0]).kind == "const" and strip_cast(t.args[1][0]).args[0] is True:
            b = t.args[0].args[0]
            if b.kind == "index" and b.args[0].kind == "attr" and b.args[0].args[1] == "at":
                t = uncopy(strip_cast(b.args[0].args[0]))
                continue
        return False
    return False


class _Universe:
    def __init__(self, terms):
        self.terms = terms


def add_obligations(res, tree, rule: str) -> int:
    n = 0
    found_envs: List[str] = []
    for ea in analyses(tree):
        if ea.state_cls is None:
            continue
        try:
            sf = StepFlow(ea)
        except AnalysisError:
            continue
        vfg = ea.vfg
        flags = [f for f in sf.fields if f in sf.superseded and not f.endswith("action_mask") and _set_true_chain(sf.new[f], sf.old[f])]
        if not flags and not any(g.endswith("_mask") and not g.endswith("action_mask") for g in sf.fields):
            continue
        mapping: Dict[int, T] = {}
        for g in sf.fields:
            if g in sf.superseded and not g.endswith("action_mask"):
                new, old = sf.new[g], sf.old[g]
                mapping[new.id] = old
                mapping.setdefault(strip_cast(new).id, old)
                if new.kind == "batched":
                    mapping.setdefault(new.args[0].id, vfg.wrap("elem", old))
        masks = [dict(flat_fields(vfg, o)).get("action_mask") for o in observation_leaves(ea, ea.step_ts)]
        masks = [m for m in masks if m is not None]
        site, fn = env_site(ea, "step")
        for f in flags:
            decided_any = False
            for m in masks[:1]:
                mo = rewrite(m, mapping, None, vfg)
                universe = {d.id: d for d in deps(mo)}
                atoms = {}
                for d in universe.values():
                    d0 = strip_cast(d)
                    base = d0
                    while base.kind in ("index", "elem", "copy", "batched"):
                        base = base.args[0]
                    if base.kind == "attr" and base.args[0] is ea.state and base.args[1] == f:
                        atoms[d0.id] = (d0, "flag", None, False, True, f"state.{f} (already used)")
                if not atoms:
                    continue
                ux = _Universe(universe)
                forms = B.formulas_with_atoms(ux, atoms)
                root = strip_cast(mo)
                while root.kind in ("batched", "copy"):
                    root = strip_cast(root.args[0])
                if root.id in atoms and not forms:
                    forms = [root]       # the mask IS the flag (a lost negation)
                for F in forms:
                    ok, why = B.decisive(ux, F, atoms, want=False)
                    if ok is not None:
                        decided_any = True
                    why = why.replace("border tests", "reads of the flag").replace("when its coordinate is outside", "when the entity is already used") \
                        .replace("a coordinate outside the grid does not decide it", "an entity that is already used can still be offered")
                    res.add(rule, site, fn, f"an entity whose state.{f} flag is set is never offered again: {txt(F, 3, 90)}", ok, why)
                    n += 1
            if decided_any and ea.cls.name not in found_envs:
                found_envs.append(ea.cls.name)
        # ---- availability masks (`*_mask` State fields other than the action mask and the used flags above: slots that
        # exist in a padded collection, operations still to schedule, nodes visited): the action mask consults each of
        # them, and one of its two values makes the reading formula False by itself
        for f in [g for g in sf.fields if g.endswith("_mask") and not g.endswith("action_mask") and g not in flags]:
            for m in masks[:1]:
                mo = rewrite(m, mapping, None, vfg)
                universe = {d.id: d for d in deps(mo)}
                reads = []
                for d in universe.values():
                    d0 = strip_cast(d)
                    base = d0
                    while base.kind in ("index", "elem", "copy", "batched"):
                        base = base.args[0]
                    if base.kind == "attr" and base.args[0] is ea.state and base.args[1] == f:
                        reads.append(d0)
                ux = _Universe(universe)
                verdicts = []
                for pol in (True, False):
                    atoms = {d0.id: (d0, "flag", None, pol, True, f"state.{f}") for d0 in reads}
                    forms = B.formulas_with_atoms(ux, atoms) if atoms else []
                    for F in forms:
                        ok, why = B.decisive(ux, F, atoms, want=False)
                        verdicts.append((F, ok, why))
                if not reads:
                    res.add(rule, site, fn, f"the action mask consults the availability flags state.{f}", False,
                            f"the mask shown with the new state does not depend on state.{f}: unavailable entries (padding, finished, visited) can be offered")
                    n += 1
                    continue
                if not verdicts:
                    res.add(rule, site, fn, f"the action mask consults the availability flags state.{f}", None, "read outside a boolean formula (not compared)")
                    n += 1
                    continue
                byF = {}
                for F, ok, why in verdicts:
                    byF.setdefault(F.id, [F, []])[1].append(ok)
                for F, oks in byF.values():
                    ok = True if any(o is True for o in oks) else (None if any(o is None for o in oks) else False)
                    res.add(rule, site, fn, f"state.{f} is decisive in the mask formula that reads it: {txt(F, 3, 80)}", ok,
                            "one value of the flag forces the formula to False" if ok else "neither value of the flag forces the formula to False: an unavailable entry can still be offered")
                    n += 1
    res.extra.setdefault("used_flag_environments", {})[rule] = found_envs
    return n
