"""C10 -- every generated instance is well-formed (key-dependence and distinct-draw clauses)."""
from __future__ import annotations

import ast
from typing import Dict, List, Optional

from ..engine import VFG, analyse_env, get_tree
from ..loader import AnalysisError, short
from ..model import Model
from ..normal import ext_name, strip_cast
from ..report import Result
from ..terms import T, contains, deps, mk
from .common import analyses, env_site, leaves, txt
from . import c01

EXPLANATION_R6 = " (R6) a spawn helper that step calls with the value it stores in a state field receives, in reset, the value reset stores in that field -- not an earlier version of it (entities start on distinct free cells; borrowed from C07.R3)."
EXPLANATION = (
    "Decided: (R1) key dependence -- for every concrete generator class shipped with the environments (its __call__ "
    "evaluated symbolically on its own) and for every environment that samples inside reset: (a) State.key of the "
    "returned state is data-dependent on the key argument (so auto-resets and successive resets do not replay a "
    "constant key), (b) at least one non-key field depends on the key (the generator is not a constant function of "
    "it); documented deterministic generators are exempt by an explicit table with one reason each; (R2) every "
    "jax.random.choice in generator / spawn / reset code that draws several positions at once (non-scalar shape) "
    "passes replace=False, so entities start on distinct cells, mines are distinct, etc. (one recorded exception); "
    "(R3) directly sampled quantities lie in the declared box (= C01.R6); (R4) inside generator / spawn code, flat indices are unravelled with the number of columns and extent-named parameters receive the extent of their axis (axis-kind engine of C07, restricted to generator functions), so sampled positions land inside non-square grids. Not decided: connectivity of mazes, exact "
    "tiling of FlatPack/BinPack instances, solvability, parity, symmetric graphs -- all properties of runtime values.")

DETERMINISTIC = {
    "packing.bin_pack.generator.ToyGenerator": "fixed 20-item instance, documented as deterministic",
    "packing.bin_pack.generator.CSVGenerator": "instance read from a CSV file",
    "packing.job_shop.generator.ToyGenerator": "fixed toy instance",
    "packing.flat_pack.generator.ToyFlatPackGeneratorWithRotation": "fixed toy instance (test helper)",
    "packing.flat_pack.generator.ToyFlatPackGeneratorNoRotation": "fixed toy instance (test helper)",
    "logic.sudoku.generator.DummyGenerator": "fixed board, documented as a dummy for testing",
    "routing.pac_man.generator.AsciiGenerator": "maze parsed from ASCII art; the key is only stored",
    "routing.maze.generator.ToyGenerator": "fixed toy maze",
    "routing.sokoban.generator.SimpleSolveGenerator": "fixed trivially solvable level",
    "routing.sokoban.generator.DeepMindGenerator": None,  # random: listed here only to document that it is NOT exempt
}
def categorical_population(tree, m, pop) -> Optional[str]:
    """The population of a choice is a module-level enumeration of categories (the members of an Enum, or a literal
    list of constants), not a set of cells: several entities may receive the same category (e.g. RobotWarehouse agent
    directions).  Decided from what the population IS, not from how it is called."""
    if pop is None:
        return None
    q = tree.resolve_expr(m, pop)
    lk = tree.lookup(q) if q else None
    if not lk or lk[0] != "const":
        return None
    mod, expr = lk[1]
    for n in ast.walk(expr):
        if isinstance(n, ast.Name):
            qq = tree.resolve_expr(mod, n)
            ci = tree.classes.get(qq) if qq else None
            if ci is not None and any("Enum" in ast.unparse(b) for b in ci.node.bases):
                return f"population enumerates the members of {ci.name}: categories may repeat (they are not positions)"
    if isinstance(expr, ast.Call) and expr.args and isinstance(expr.args[0], (ast.List, ast.Tuple)) and \
            all(isinstance(x, ast.Constant) for x in expr.args[0].elts):
        return "population is a literal list of categories: they may repeat (they are not positions)"
    return None


MIN_GENERATORS = 28


def generator_classes(tree):
    out = []
    for q, ci in sorted(tree.classes.items()):
        if not q.startswith("jumanji.environments."):
            continue
        if not ci.module.name.endswith(".generator"):
            continue
        call = tree.find_method(ci, "__call__")
        if call is None or tree.is_abstract(ci):
            continue
        if len(call.params) < 2:
            continue
        out.append(ci)
    return out


def state_fields(vfg, st: T):
    """[(field, value)] of a returned State (through phi: list of alternatives)."""
    alts = [x for x, _ in leaves(st)]
    out = []
    for a in alts:
        if a.kind == "construct":
            out.append(dict(a.args[1]))
        else:
            out.append(None)
    return out


def check(tier: str) -> Result:
    tree = get_tree()
    res = Result(explanation=EXPLANATION + EXPLANATION_R6)
    gens = generator_classes(tree)
    if len(gens) < MIN_GENERATORS:
        raise AnalysisError(f"only {len(gens)} concrete generator classes found (hand-confirmed minimum {MIN_GENERATORS})")
    n_random = 0
    non_state = set()
    for ci in gens:
        name = short(ci.qual)
        call = tree.find_method(ci, "__call__")
        vfg = VFG(tree, Model(tree))
        self_t = mk("self", ci.qual)
        key = mk("param", call.qual, call.params[1])
        r = vfg.apply_func(call, self_t, call.cls, [key], {}, None, None)
        exempt = DETERMINISTIC.get(name)
        alts = state_fields(vfg, r)
        if any(a is None for a in alts):
            # the generator returns something that is not a State constructor (a stored instance, a raw array, a tuple)
            if exempt:
                res.add("C10.R1", call.loc(), name + ".__call__", "deterministic generator (exempt by table)", True, exempt)
                continue
            n_random += 1
            ok = contains(r, key)
            res.add("C10.R1b", call.loc(), name + ".__call__", "the generated instance depends on the key", ok,
                    f"returns {txt(r, 3, 80)}" if ok else f"returned value {txt(r, 3, 80)} does not depend on the key argument")
            non_state.add(ci.module.name.rsplit(".", 1)[0])
            continue
        if exempt:
            res.add("C10.R1", call.loc(), name + ".__call__", "deterministic generator (exempt by table)", True, exempt)
            continue
        n_random += 1
        for fields in alts:
            k = fields.get("key")
            if k is not None:
                ok = contains(k, key)
                res.add("C10.R1a", call.loc(), name + ".__call__", "State.key derives from the key argument", ok,
                        txt(k, 4, 80) if ok else f"State.key = {txt(k, 4, 80)} does not depend on the key: every reset / auto-reset continues from the same key")
            dep = [f for f, v in fields.items() if f != "key" and contains(v, key)]
            res.add("C10.R1b", call.loc(), name + ".__call__", "the generated instance depends on the key", bool(dep),
                    f"key-dependent fields {dep[:6]}" if dep else "no field other than `key` depends on the key argument: the generator is a constant function of it")
    # environments sampling inside reset (no generator attribute)
    for ea in analyses(tree):
        gen_quals = {g.qual for g in gens}
        has_gen = any(c.qual in gen_quals for cs in ea.vfg.model.collaborator_attrs(ea.cls).values() for c in cs)
        if has_gen and ea.cls.module.name.rsplit(".", 1)[0] not in non_state:
            continue
        site, fn = env_site(ea, "reset")
        for fields in state_fields(ea.vfg, ea.reset_state):
            if fields is None:
                raise AnalysisError(f"{fn}: returned state not resolved")
            k = fields.get("key")
            if k is not None:
                ok = contains(k, ea.key)
                res.add("C10.R1a", site, fn, "State.key derives from the key argument", ok, txt(k, 4, 80))
            dep = [f for f, v in fields.items() if f != "key" and contains(v, ea.key)]
            res.add("C10.R1b", site, fn, "the generated instance depends on the key", bool(dep), f"key-dependent fields {dep[:6]}")
            n_random += 1
    # ------------------------------------------------------------------ R2
    n_choice = 0
    for m in tree.modules.values():
        if not m.name.startswith("jumanji.environments."):
            continue
        for node in ast.walk(m.tree):
            if not (isinstance(node, ast.Call) and tree.resolve_expr(m, node.func) == "jax.random.choice"):
                continue
            kw = {k.arg: k.value for k in node.keywords}
            shape = kw.get("shape", node.args[2] if len(node.args) > 2 else None)
            if shape is None:
                continue
            scalar = (isinstance(shape, ast.Tuple) and len(shape.elts) == 0)
            if scalar:
                continue
            n_choice += 1
            rep = kw.get("replace", node.args[3] if len(node.args) > 3 else None)
            ok = isinstance(rep, ast.Constant) and rep.value is False
            # enclosing assignment target for the exception table
            tgt = None
            for st in ast.walk(m.tree):
                if isinstance(st, ast.Assign) and st.value is node and isinstance(st.targets[0], ast.Name):
                    tgt = st.targets[0].id
            pop = kw.get("a", node.args[1] if len(node.args) > 1 else None)
            exc = categorical_population(tree, m, pop)
            one = isinstance(shape, (ast.List, ast.Tuple)) and len(shape.elts) == 1 and isinstance(shape.elts[0], ast.Constant) and shape.elts[0].value == 1
            if exc:
                res.add("C10.R2", f"{m.relpath}:{node.lineno}", short(m.name), f"multi-sample draw `{tgt}` (recorded exception)", True, exc)
            elif one:
                res.add("C10.R2", f"{m.relpath}:{node.lineno}", short(m.name), f"draw `{tgt}` of a single element", True, "shape [1]: replacement is irrelevant")
            else:
                res.add("C10.R2", f"{m.relpath}:{node.lineno}", short(m.name), f"multi-sample draw `{tgt}` is without replacement", ok,
                        "replace=False" if ok else f"jax.random.choice(..., shape={ast.unparse(shape)}) samples with replacement: two entities can receive the same cell")
    # several independent multi-sample draws over the same population inside one function can collide with each other
    for m in tree.modules.values():
        if not m.name.startswith("jumanji.environments."):
            continue
        for fnode in ast.walk(m.tree):
            if not isinstance(fnode, ast.FunctionDef):
                continue
            local = {}
            for st in ast.walk(fnode):
                if isinstance(st, ast.Assign) and len(st.targets) == 1 and isinstance(st.targets[0], ast.Name):
                    local[st.targets[0].id] = ast.unparse(st.value)
            groups = {}
            for node in ast.walk(fnode):
                if isinstance(node, ast.Call) and tree.resolve_expr(m, node.func) == "jax.random.choice":
                    kw = {k.arg: k.value for k in node.keywords}
                    shape = kw.get("shape", node.args[2] if len(node.args) > 2 else None)
                    pop = kw.get("a", node.args[1] if len(node.args) > 1 else None)
                    if shape is None or pop is None or "p" in kw or (isinstance(shape, ast.Tuple) and len(shape.elts) == 0):
                        continue
                    if isinstance(shape, (ast.List, ast.Tuple)) and len(shape.elts) == 1 and isinstance(shape.elts[0], ast.Constant) and shape.elts[0].value == 1:
                        continue
                    key_ = ast.unparse(pop)
                    key_ = local.get(key_, key_)
                    groups.setdefault(key_, []).append(node)
            for pop_src, nodes in groups.items():
                if len(nodes) >= 2:
                    res.add("C10.R2", f"{m.relpath}:{nodes[1].lineno}", short(m.name) + "." + fnode.name,
                            f"positions over {pop_src[:50]} are drawn in one without-replacement draw", False,
                            f"{len(nodes)} independent multi-sample draws over the same population: entities of different draws can receive the same cell")
    if n_choice < 8:
        raise AnalysisError(f"only {n_choice} multi-sample jax.random.choice sites found (hand-confirmed minimum 8)")
    # ------------------------------------------------------------------ R3 (= C01.R6)
    from .common import borrow as _borrow
    _borrow(res, "c01", {"C01.R6": "C10.R3"})
    # ---- R7: GraphColoring: the adjacency matrix is symmetric without self-loops BY CONSTRUCTION: A = L (+ or |) L.T with
    # L a strict triangle (tril(.., k=-1) / triu(.., k=1)) -- decided on the value-flow form of the generated State
    gci = tree.classes.get("jumanji.environments.logic.graph_coloring.generator.RandomGenerator")
    if gci is None:
        raise AnalysisError("anchor graph_coloring.generator.RandomGenerator not found")
    gcall = tree.find_method(gci, "__call__")
    from ..engine import VFG as _VFG
    from ..model import Model as _Model
    from ..terms import mk as _mk, uncopy as _unc
    from ..normal import ext_name as _ext
    vg = _VFG(tree, _Model(tree))
    gk = _mk("param", gcall.qual, gcall.params[1])
    gr = _unc(vg.apply_func(gcall, _mk("self", gci.qual), gci, [gk], {}, None, None))
    A = _unc(strip_cast(vg.mk_attr(gr, "adj_matrix"))) if gr.kind in ("construct", "update") else gr
    verdict, why = None, f"adjacency built as {txt(A, 4, 120)} (form not compared)"
    parts = None
    if A.kind == "bin" and A.args[0] in ("+", "|"):
        parts = (_unc(strip_cast(A.args[1])), _unc(strip_cast(A.args[2])))
    elif _ext(A) in ("jax.numpy.logical_or", "jax.numpy.maximum", "jax.numpy.add") and len(A.args[1]) == 2:
        parts = (_unc(strip_cast(A.args[1][0])), _unc(strip_cast(A.args[1][1])))
    if parts is not None:
        L = None
        for x, y in (parts, parts[::-1]):
            if (y.kind == "attr" and y.args[1] == "T" and _unc(strip_cast(y.args[0])) is x) or (_ext(y) in ("jax.numpy.transpose",) and y.args[1] and _unc(strip_cast(y.args[1][0])) is x):
                L = x
        if L is None:
            verdict, why = False, f"{txt(A, 4, 120)} is not `L combined with L.T` for one and the same L: the adjacency matrix is not symmetric by construction"
        else:
            kw = dict(L.args[2]) if L.kind == "call" else {}
            kk = kw.get("k", L.args[1][1] if L.kind == "call" and len(L.args[1]) > 1 else None)
            kv = None
            if kk is not None:
                k0 = strip_cast(kk)
                kv = k0.args[0] if k0.kind == "const" else (-k0.args[1].args[0] if k0.kind == "un" and k0.args[0] == "-" and k0.args[1].kind == "const" else None)
            strict = (_ext(L) == "jax.numpy.tril" and kv is not None and kv <= -1) or (_ext(L) == "jax.numpy.triu" and kv is not None and kv >= 1)
            if strict:
                verdict, why = True, f"L = {txt(L, 3, 60)} is a strict triangle; A = L combined with L.T"
            elif _ext(L) in ("jax.numpy.tril", "jax.numpy.triu"):
                verdict, why = False, f"L = {txt(L, 3, 60)} keeps the diagonal (k = {kv}): self-loops are generated"
            else:
                verdict, why = False, f"L = {txt(L, 3, 60)} is not a strict triangle (tril(.., k=-1) / triu(.., k=1)): the diagonal can be set, a node would be adjacent to itself"
    if parts is None and _ext(A) in ("jax.numpy.tril", "jax.numpy.triu"):
        verdict, why = False, f"the adjacency matrix is the single triangle {txt(A, 3, 60)}: edges exist in one direction only (not symmetric)"
    res.add("C10.R7", gcall.loc(), "logic.graph_coloring.generator.RandomGenerator.__call__", "the adjacency matrix is symmetric without self-loops by construction", verdict, why)
    # ---- R8: Minesweeper draws exactly num_mines distinct cells out of all num_rows * num_cols cells; CVRP refuses a
    # configuration in which a demand can exceed the capacity, and draws demands up to max_demand
    mf = tree.functions.get("jumanji.environments.logic.minesweeper.utils.create_flat_mine_locations")
    if mf is None:
        raise AnalysisError("anchor minesweeper.utils.create_flat_mine_locations not found")
    vm_ = _VFG(tree, _Model(tree))
    mp = {p_: _mk("param", mf.qual, p_) for p_ in mf.params}
    mr = _unc(vm_.apply_func(mf, None, None, [mp[p_] for p_ in mf.params], {}, None, None))
    okm, whym = None, f"returns {txt(mr, 4, 120)} (form not compared)"
    if _ext(mr) == "jax.random.choice":
        kwm = dict(mr.args[2])
        pop = kwm.get("a", mr.args[1][1] if len(mr.args[1]) > 1 else None)
        shp = kwm.get("shape", mr.args[1][2] if len(mr.args[1]) > 2 else None)
        rep = kwm.get("replace")
        pop_ok = pop is not None and strip_cast(pop).kind == "bin" and strip_cast(pop).args[0] == "*" and \
            {strip_cast(strip_cast(pop).args[1]), strip_cast(strip_cast(pop).args[2])} == {mp.get("num_rows"), mp.get("num_cols")}
        shp0 = strip_cast(shp) if shp is not None else None
        shp_ok = shp0 is not None and shp0.kind == "tuple" and len(shp0.args[0]) == 1 and strip_cast(shp0.args[0][0]) is mp.get("num_mines")
        rep_ok = rep is not None and strip_cast(rep).kind == "const" and strip_cast(rep).args[0] is False
        okm = bool(pop_ok and shp_ok and rep_ok)
        whym = f"population num_rows*num_cols: {pop_ok}; shape (num_mines,): {shp_ok}; replace=False: {rep_ok}"
    res.add("C10.R8", mf.loc(), "logic.minesweeper.utils.create_flat_mine_locations", "exactly num_mines distinct cells are drawn from all num_rows * num_cols cells", okm, whym)
    cvc = [c for c in tree.environment_classes() if c.name == "CVRP"]
    if not cvc:
        raise AnalysisError("environment CVRP not found")
    cinit = tree.find_method(cvc[0], "__init__")
    vc_ = _VFG(tree, _Model(tree))
    cself = _mk("self", cvc[0].qual)
    vc_.apply_func(cinit, cself, cvc[0], [_mk("param", cinit.qual, p_) for p_ in cinit.params[1:]], {}, None, None)
    from ..shapes import canon as _canon
    from .common import raise_exits as _rx
    from ..normal import ge_form as _ge
    rej = None
    tests = []
    for fn_, node_, path_, _v in _rx(vc_):
        for t_, pol_, pf_ in path_:
            if not pol_:
                continue
            g = _ge(t_)
            tests.append(txt(t_, 3, 70))
            if g is None or g[0] is None or g[1] is None:
                continue
            X, Y, k = g            # X >= Y + k
            nx = _canon(vc_, X.args[1]) if X.kind == "attr" else None
            ny = _canon(vc_, Y.args[1]) if Y.kind == "attr" else None
            if nx == _canon(vc_, "max_demand") and ny == _canon(vc_, "max_capacity"):
                # raise when max_demand >= max_capacity + k: k == 1 is `capacity < demand` (exact); k <= 0 also refuses equal values (still safe)
                rej = k <= 1
    if rej is None:
        rej = False      # confirmed by reading on the pinned tree: the constructor compares the two; the comparison is gone
    res.add("C10.R8", cinit.loc(), "routing.cvrp.env.CVRP.__init__", "a configuration with max_demand > max_capacity is refused (demands never exceed the capacity)", rej,
            f"raising tests in __init__: {tests}" if tests else "no raising test found")
    # ---- R6: reset-side spawn helpers receive the value reset stores in the state, not an earlier version of it
    # (e.g. the first fruit sampled against the board before the snake's head is placed): borrowed from C07.R3
    from .common import borrow
    n_spawn = borrow(res, "c07", {"C07.R3": "C10.R6"}, only_if=lambda ob: ".reset ->" in ob.func)
    from . import wiring
    n_w = wiring.add_obligations(res, tree, "C10.R5", lambda ci: ci.module.name.endswith(".generator") and ci.module.name.startswith("jumanji.environments."))
    # ------------------------------------------------------------------ R4 axis-kind consistency inside generators
    from . import axis_rules
    n_axis = axis_rules.add_obligations(res, tree, "C10.R4", scope="generator")
    res.analysed = {"generator_axis_sites": n_axis, "generator_classes": len(gens), "random_generators_or_resets": n_random, "multi_sample_choice_sites": n_choice,
                    "exempt_deterministic": [k for k, v in DETERMINISTIC.items() if v]}
    res.assumptions = ["data dependence on the key is necessary (not sufficient) for genuine randomness",
                       "deterministic generators are exempt by the explicit table in the checker"]
    return res
