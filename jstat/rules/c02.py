"""C02 -- reset/step are pure functions and commute with jit, vmap and scan (purity and
trace-safety part)."""
from __future__ import annotations

import ast
from typing import Dict, List, Optional, Set

from ..engine import analyse_env, get_tree
from ..loader import AnalysisError, FuncInfo, short
from ..report import Result
from ..terms import NONE, T, children
from .common import analyses, env_site as env_site_, txt

EXPLANATION = (
    "Decided over the reset/step call closure of all 23 environments (every function reachable through resolved calls, "
    "generator / reward / observer candidates and JAX combinator callbacks): (R1) no attribute, subscript or "
    "mutating-method write reaches `self`, a collaborator stored on self, a class or a module global, and no `global` "
    "declaration exists; (R2) no call resolves to an ambient source of nondeterminism or a host effect (random, "
    "numpy.random, time, datetime, os.urandom, uuid, secrets, open, print, input, jax.debug, io/pure/host callbacks); (R3) "
    "freshness typestate: every in-place store `x.f = v`, `x[k] = v`, setattr, and mutating container call has a target "
    "that was constructed in the current activation (constructor, .replace / dataclasses.replace copy, combinator "
    "callback operand, call result) on all paths -- never a parameter of reset/step or an object owned by self (e.g. the "
    "State stored inside a generator); (R4) no Python `if`/`while`/`assert`/`and`/`or`/`not`/bool()/int()/float() on a "
    "value derived from reset's key or step's (state, action) other than through static attributes "
    "(.shape/.ndim/.dtype/len/isinstance/is None). (R7) no Python-level mutable container (dict/list/set) that __init__ stored on self is handed out as such inside the returned state or timestep (e.g. as TimeStep.extras, which the auto-reset wrappers update in place); R2 also rejects the non-vmap-invariant PRNG implementations (rbg / unsafe_rbg). (R8) the functional wrappers (subclasses of jumanji.wrappers.Wrapper) assign no attribute of self outside __init__. (R6) no class of the environments, wrappers or specs writes class-level / module-level state in any method, constructors included (a fresh instance with the same configuration behaves the same). (R5) every State leaf whose symbolic shape can be inferred has the same shape after reset and after step, which lax.scan roll-outs, lax.cond (auto-reset) and vmap over states require. These make reset/step deterministic functions of their arguments "
    "and traceable, which is the jumanji-side premise of commuting with jit/vmap/scan. Not decided: bitwise equality "
    "of eager/jit/vmap/scan results (XLA semantics). Assumption: jax.disable_jit() is out of scope for R3.")

FORBIDDEN_PREFIX = ("random.", "numpy.random.", "time.", "datetime.", "uuid.", "secrets.", "jax.debug.",
                    "jax.experimental.host_callback", "jax.experimental.io_callback", "jax.pure_callback",
                    "jax.experimental.pure_callback", "os.urandom", "os.getpid", "os.environ", "builtins.open",
                    "builtins.print", "builtins.input", "builtins.breakpoint", "logging.", "warnings.warn",
                    "sys.stdout", "sys.stderr", "jax.random.PRNGKey_from_time")
FORBIDDEN_EXACT = {"random", "time", "os.urandom"}

STATIC_ATTRS = {"shape", "ndim", "dtype", "size", "itemsize"}
STATIC_CALLS = {"builtins.len", "builtins.isinstance", "builtins.hasattr", "builtins.type", "builtins.id",
                "builtins.callable", "jax.numpy.shape", "jax.numpy.ndim", "jax.numpy.issubdtype", "jax.numpy.result_type",
                "jax.numpy.dtype"}


def forbidden(q: str) -> bool:
    return any(q == p.rstrip(".") or q.startswith(p) for p in FORBIDDEN_PREFIX)


class Fresh:
    FRESH, ARG, PERSISTENT = "FRESH", "ARG", "PERSISTENT"

    def __init__(self, ea):
        self.ea = ea
        self.entry = {ea.key.id, ea.state.id, ea.action.id}
        self.memo: Dict[int, str] = {}

    def join(self, xs: List[str]) -> str:
        if self.PERSISTENT in xs:
            return self.PERSISTENT
        if self.ARG in xs:
            return self.ARG
        return self.FRESH

    def cls(self, t: T, depth: int = 0) -> str:
        if t.id in self.memo:
            return self.memo[t.id]
        if depth > 40:
            return self.FRESH
        k = t.kind
        if k == "param":
            r = self.ARG if t.id in self.entry else self.FRESH
        elif k in ("self", "ext", "cls", "mod"):
            r = self.PERSISTENT
        elif k in ("attr", "index", "proj"):
            r = self.cls(t.args[0], depth + 1)
        elif k == "update":
            r = self.cls(t.args[0], depth + 1)
        elif k == "choice":
            r = self.join([self.cls(a, depth + 1) for a in t.args[2]])
        elif k == "phi":
            r = self.join([self.cls(a, depth + 1) for a in t.args[0]])
        else:
            # construct, new, copy, call results, containers built here, combinator views, constants
            r = self.FRESH
        self.memo[t.id] = r
        return r


class Taint:
    def __init__(self, ea):
        self.entry = {ea.key.id, ea.state.id, ea.action.id}
        self.memo: Dict[int, bool] = {}

    def tainted(self, t: T, depth: int = 0) -> bool:
        if t.id in self.memo:
            return self.memo[t.id]
        self.memo[t.id] = False  # cycle guard
        k = t.kind
        if k == "param":
            r = t.id in self.entry
        elif k in ("const", "ext", "cls", "mod", "self", "fn", "opaque"):
            r = False
        elif k == "attr" and t.args[1] in STATIC_ATTRS:
            r = False
        elif k == "attr" and t.args[0].kind == "self":
            r = False
        elif k == "call" and t.args[0].kind == "ext" and t.args[0].args[0] in STATIC_CALLS:
            r = False
        elif k == "cmp" and t.args[0] in ("is", "isnot"):
            r = False
        elif k == "index" and t.args[0].kind == "attr" and t.args[0].args[1] == "shape":
            r = False
        elif depth > 60:
            r = False
        else:
            r = any(self.tainted(c, depth + 1) for c in children(t))
        self.memo[t.id] = r
        return r


def truth_static(t: T) -> bool:
    """Truthiness decided by the (static) container structure, not by traced array values."""
    if t.kind in ("dict", "tuple", "list", "set", "construct", "new", "fn", "copy"):
        return True
    if t.kind == "phi":
        return all(truth_static(a) for a in t.args[0])
    if t.kind == "bool":
        return all(truth_static(a) for a in t.args[1])
    if t.kind == "un" and t.args[0] == "not":
        return truth_static(t.args[1])
    if t.kind == "cmp" and t.args[0] in ("is", "isnot"):
        return True   # identity tests never look at array values
    if t.kind == "call" and t.args[0].kind == "ext" and t.args[0].args[0] in ("builtins.dict", "builtins.list", "builtins.tuple", "builtins.set",
                                                                        "builtins.frozenset", "collections.OrderedDict", "builtins.sorted"):
        return True   # a freshly built Python container: its truthiness is its (static) length
    if t.kind == "call" and t.args[0].kind == "attr" and t.args[0].args[1] in ("copy", "items", "keys", "values") and truth_static(t.args[0].args[0]):
        return True
    if t.kind == "call" and t.args[0].kind == "ext" and t.args[0].args[0] in ("builtins.len", "builtins.bool", "builtins.isinstance") and t.args[1]:
        return t.args[0].args[0] in ("builtins.isinstance", "builtins.len") or truth_static(t.args[1][0])
    return False


def ast_forbidden_calls(tree, f: FuncInfo):
    out = []
    n = 0
    for node in ast.walk(f.node):
        if isinstance(node, ast.Call):
            n += 1
            don = [k.arg for k in node.keywords if k.arg in ("donate_argnums", "donate_argnames")]
            if don:
                out.append((f"buffer donation ({don[0]}): the caller's argument is invalidated after the call", node))
            for k in node.keywords:
                if k.arg == "impl" and isinstance(k.value, ast.Constant) and isinstance(k.value.value, str) and "rbg" in k.value.value:
                    out.append((f"PRNG implementation '{k.value.value}' (not vmap-invariant: batched and per-instance draws differ)", node))
            q = tree.resolve_expr(f.module, node.func)
            if q is None and isinstance(node.func, ast.Name) and hasattr(__import__("builtins"), node.func.id):
                q = "builtins." + node.func.id
            if q and forbidden(q):
                out.append((q, node))
        elif isinstance(node, ast.Global):
            out.append(("global " + ",".join(node.names), node))
    return n, out


MUTABLE_CTORS = {"dict", "list", "set", "defaultdict", "OrderedDict", "deque", "Counter", "bytearray"}


def _mutable_container_expr(init: FuncInfo, e: ast.expr, depth: int = 0) -> bool:
    """The expression builds a Python-level mutable container (dict / list / set display, comprehension or constructor
    call); a local name is followed to its assignments inside the same __init__."""
    if isinstance(e, (ast.Dict, ast.List, ast.Set, ast.DictComp, ast.ListComp, ast.SetComp)):
        return True
    if isinstance(e, ast.Call):
        fn = e.func
        nm = fn.id if isinstance(fn, ast.Name) else (fn.attr if isinstance(fn, ast.Attribute) else None)
        return nm in MUTABLE_CTORS
    if isinstance(e, ast.Name) and depth < 3:
        for st in ast.walk(init.node):
            if isinstance(st, ast.Assign) and any(isinstance(t, ast.Name) and t.id == e.id for t in st.targets):
                if _mutable_container_expr(init, st.value, depth + 1):
                    return True
    return False


def escaping_self_containers(ea, root: T):
    """self-rooted attribute terms that are returned *as they are* (through tuples, record fields, .replace copies,
    selections and dict values -- never through a computation) inside `root`."""
    out, seen = [], set()
    stack = [root]
    while stack:
        t = stack.pop()
        if t.id in seen:
            continue
        seen.add(t.id)
        k = t.kind
        if k == "attr":
            b = t
            while b.kind == "attr":
                b = b.args[0]
            if b.kind == "self":
                out.append(t)
            continue
        if k in ("tuple", "list"):
            stack.extend(t.args[0])
        elif k == "dict":
            stack.extend(t.args[1])
        elif k == "construct":
            stack.extend(v for _, v in t.args[1])
        elif k == "update":
            stack.extend((t.args[0], t.args[2]))
        elif k == "copy":
            stack.append(t.args[0])
        elif k == "choice":
            stack.extend(t.args[2])
        elif k == "phi":
            stack.extend(t.args[0])
        elif k == "bool":
            stack.extend(t.args[1])   # `x or {}` evaluates to x itself when x is non-empty
        elif k == "proj" and t.args[0].kind in ("tuple", "choice", "phi"):
            stack.append(t.args[0])
    return out


def check(tier: str) -> Result:
    tree = get_tree()
    res = Result(explanation=EXPLANATION)
    tot_funcs = tot_calls = tot_events = tot_branches = 0
    for ea in analyses(tree):
        vfg = ea.vfg
        env = short(ea.cls.qual)
        closure: Dict[str, FuncInfo] = {}
        closure.update(ea.reset_funcs)
        closure.update(ea.step_funcs)
        if vfg.opaques:
            bad = [o for o in vfg.opaques if "depth limit" in o[0] or "recursion" in o[0] or o[0].startswith("stmt") or o[0].startswith("expr")]
            if bad:
                raise AnalysisError(f"{env}: closure not fully modelled: {bad[:3]}")
        tot_funcs += len(closure)
        # ---- R2 (syntactic over every closure function, resolved through the import map)
        bad_calls = []
        for q, f in sorted(closure.items()):
            if isinstance(f.node, ast.Lambda):
                continue  # lambdas are inside their defining function's tree
            if "<locals>" in q:
                continue
            n, bad = ast_forbidden_calls(tree, f)
            tot_calls += n
            for name, node in bad:
                bad_calls.append((f, name, node))
        seen_mods = set()
        for q, f in closure.items():
            m = f.module
            if m.name in seen_mods:
                continue
            seen_mods.add(m.name)
            for node in ast.walk(m.tree):
                if isinstance(node, ast.Call) and any(k.arg in ("donate_argnums", "donate_argnames") for k in node.keywords):
                    if not any(b[2] is node for b in bad_calls):
                        bad_calls.append((f, "buffer donation (donate_argnums/donate_argnames) in a module of the closure: arguments are invalidated after the call", node))
        for name, f, node in [(n, f, nd) for f, n, nd in bad_calls]:
            res.add("C02.R2", f"{f.module.relpath}:{node.lineno}", short(f.qual), f"call {name}", False,
                    f"{name} is an ambient source of nondeterminism / host effect inside the reset/step closure")
        for qn, f, node in vfg.ext_calls:
            if forbidden(qn) and not any(b[2] is node for b in bad_calls):
                res.add("C02.R2", f"{f.module.relpath}:{getattr(node, 'lineno', 0)}", short(f.qual), f"call {qn}", False,
                        f"{qn} reached through the value-flow graph")
        res.add("C02.R2", ea.cls.loc(), env, "no ambient nondeterminism or host effect in the closure", not bad_calls,
                f"{len(closure)} functions, calls scanned" if not bad_calls else f"{len(bad_calls)} forbidden call(s)")
        # ---- R1 / R3 stores
        fr = Fresh(ea)
        stores = [e for e in vfg.events if e.kind in ("store_attr", "store_sub", "mutate")]
        for e in stores:
            if e.func.qual.endswith(".__init__") or ".__init__." in e.func.qual:
                continue
            tot_events += 1
            c = fr.cls(e.target)
            what = {"store_attr": f".{e.name} = …", "store_sub": "[…] = …", "mutate": f".{e.name}(…)"}[e.kind]
            construct = f"{ast.unparse(e.node)[:70]}"
            if c == Fresh.FRESH:
                res.add("C02.R3", e.loc(), short(e.func.qual), f"in-place write {construct}", True, "target constructed in this activation")
            elif c == Fresh.ARG:
                res.add("C02.R3", e.loc(), short(e.func.qual), f"in-place write {construct}", False,
                        f"writes into an argument of reset/step ({txt(e.target, 3, 80)}): the caller's object is modified")
            else:
                rule = "C02.R1" if e.target.kind == "self" or (e.target.kind in ("ext", "cls", "mod")) else "C02.R3"
                res.add(rule, e.loc(), short(e.func.qual), f"in-place write {construct}", False,
                        f"writes into an object owned by self / a global ({txt(e.target, 3, 100)}): state leaks between calls")
        for e in vfg.events:
            if e.kind == "global_decl":
                res.add("C02.R1", e.loc(), short(e.func.qual), f"global {e.name}", False, "global declaration inside the closure")
        res.add("C02.R1", ea.cls.loc(), env, "no write to self, class or module state in the closure",
                not any(o.ok is False and o.rule == "C02.R1" and o.func.startswith(env.rsplit('.', 1)[0][:0] or '') and o.site.startswith(ea.cls.module.relpath.rsplit('/', 1)[0]) for o in res.obligations),
                f"{len(stores)} in-place writes classified")
        # ---- R4
        tn = Taint(ea)
        for e in vfg.events:
            if e.kind != "py_branch" or e.target is None:
                continue
            if e.func.qual.endswith(".__init__"):
                continue
            tot_branches += 1
            if tn.tainted(e.target) and not truth_static(e.target):
                res.add("C02.R4", e.loc(), short(e.func.qual), f"python `{e.name}` on {ast.unparse(e.node)[:60]}", False,
                        f"branches in Python on a traced value ({txt(e.target, 3, 90)}): works eagerly, fails or diverges under jit/vmap/scan")
        res.add("C02.R4", ea.cls.loc(), env, "no Python control flow on traced values",
                not any(o.ok is False and o.rule == "C02.R4" and o.site.startswith(ea.cls.module.relpath.rsplit('/', 1)[0]) for o in res.obligations),
                "python-level tests in the closure examined")
        # ---- R7: no Python-level mutable container owned by self escapes through the returned state / timestep
        # (wrappers and user code update `timestep.extras` in place: a shared dict couples every call on the object)
        model = vfg.model
        n_esc = 0
        for meth, root in (("reset", ea.reset_result), ("step", ea.step_result)):
            for t in escaping_self_containers(ea, root):
                if t.args[0].kind != "self":
                    continue
                inits = model.init_assignments(ea.cls, t.args[1])
                bad = [(i, v) for i, v in inits if _mutable_container_expr(i, v)]
                site, fn = env_site_(ea, meth)
                if bad:
                    i, v = bad[0]
                    res.add("C02.R7", site, fn, f"returned value aliases self.{t.args[1]}", False,
                            f"self.{t.args[1]} is a mutable container built once in __init__ ({i.module.relpath}:{v.lineno}: {ast.unparse(v)[:60]}) and is handed out "
                            f"in the result of every {meth}: an in-place update by a wrapper or the caller (extras[...] = ...) changes earlier results and later calls")
                    n_esc += 1
        res.add("C02.R7", ea.cls.loc(), env, "no mutable container owned by self is returned by reset/step", n_esc == 0,
                "returned state / timestep trees walked through tuples, record fields, copies and selections")
    # ---- R8: the functional wrappers (subclasses of jumanji.wrappers.Wrapper) keep reset/step pure: no method other
    # than __init__ assigns an attribute of self (a Python-side counter or cache is read at trace time, so eager, jit
    # and scan executions would diverge).  The gym / dm_env adapters are stateful by design and are not Wrapper subclasses.
    from .c15 import mutable_attrs
    base = tree.classes.get("jumanji.wrappers.Wrapper")
    if base is None:
        raise AnalysisError("anchor jumanji.wrappers.Wrapper not found")
    n_wr = 0
    for wci in tree.subclasses(base.qual, strict=False):
        if not wci.module.name == "jumanji.wrappers":
            continue
        mut = sorted(mutable_attrs(wci))
        res.add("C02.R8", wci.loc(), short(wci.qual), "no method other than __init__ assigns an attribute of self", not mut,
                "functional wrapper" if not mut else f"assigned after construction: {mut}: reset/step depend on the call history of the wrapper object")
        n_wr += 1
    if n_wr < 5:
        raise AnalysisError(f"only {n_wr} functional wrapper classes found (hand-confirmed minimum 5)")
    from . import wiring
    n_cs = wiring.class_state_writes(res, tree, "C02.R6", lambda ci: ci.module.name.startswith("jumanji.environments.") and not ci.module.name.endswith(".types") or ci.module.name in ("jumanji.wrappers", "jumanji.specs"))
    # ---- R6 (modules): no function of an environment / wrapper / spec module writes a module-level container that is
    # also read somewhere (a process-wide memo or cache makes a fresh instance depend on what was built before it)
    from .c18 import module_state_writes
    n_mods = 0
    for mname, m in sorted(tree.modules.items()):
        if not (mname.startswith("jumanji.environments.") or mname in ("jumanji.wrappers", "jumanji.specs", "jumanji.env", "jumanji.types", "jumanji.tree_utils")):
            continue
        n_mods += 1
        scanned, mw = module_state_writes(m, "<none>")
        for fn_node, node, hit, verdict in mw:
            if verdict is False:
                res.add("C02.R6", f"{m.relpath}:{node.lineno}", short(mname) + "." + fn_node.name, f"module-level state write: {hit}", False,
                        "a module-level container that the code also reads is written by a function: results depend on what ran earlier in the process (two fresh instances with the same configuration can differ)")
    res.add("C02.R6", "jumanji/environments", "environment / wrapper / spec modules", "no function writes a module-level container that is read elsewhere", not any(o.ok is False and o.rule == "C02.R6" and "module-level state write" in o.construct for o in res.obligations),
            f"{n_mods} modules scanned")
    from . import shape_rules
    n_shapes = shape_rules.state_shape_obligations(res, tree, "C02.R5")
    # ---- R9: batched execution equals per-instance execution in the wrappers too (borrowed from C14)
    from .common import borrow
    n_vm = borrow(res, "c14", {"C14.R1": "C02.R9", "C14.R2.R1": "C02.R9"})
    res.analysed = {"state_leaf_shapes_compared": n_shapes, "environments": len(analyses(tree)), "closure_functions": tot_funcs, "call_sites_scanned": tot_calls,
                    "in_place_writes": tot_events, "python_tests": tot_branches}
    if tot_funcs < 400 or tot_events < 25:
        raise AnalysisError(f"closure smaller than hand-confirmed minimum: functions={tot_funcs} (>=400), in-place writes={tot_events} (>=25)")
    res.assumptions = ["jax.disable_jit() out of scope (combinator callbacks receive fresh containers)",
                       "call results are fresh objects; external (jax/numpy/chex) functions do not mutate their arguments"]
    return res
