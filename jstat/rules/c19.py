"""C19 -- pytree helpers satisfy their algebraic laws (structural part)."""
from __future__ import annotations

from ..engine import VFG, get_tree
from ..loader import AnalysisError
from ..model import Model
from ..normal import ext_name, strip_cast
from ..report import Result
from ..terms import NONE, T, const, contains, mk, uncopy
from .common import txt

EXPLANATION = (
    "Decided on the value-flow graph of jumanji/tree_utils.py and jumanji/testing/pytrees.py: (R1) tree_transpose is a "
    "single tree_map over the given trees whose leaf function stacks the corresponding leaves on axis 0; tree_slice is "
    "a single tree_map whose leaf function indexes the leading axis with the parameter i; tree_add_element is a single "
    "tree_map over (tree, element) whose leaf function is array.at[i].set(value) -- set, not add, same i, leading axis. "
    "Each maps every leaf with one function, so structure is preserved, and slice(transpose(ts), i) = ts[i] / "
    "set-then-slice laws follow from the agreement of the batch axis (0) across the three. (R2) is_equal_pytree maps "
    "numpy.array_equal (shape and elements) over corresponding leaves of the two trees and reduces with all(); "
    "assert_trees_are_different asserts its negation, assert_trees_are_equal the positive. Not decided: the laws as "
    "universally quantified statements over values (dtype preservation is numpy/jax semantics).")

TU = "jumanji.tree_utils."
PT = "jumanji.testing.pytrees."
TREE_MAPS = ("jax.tree_util.tree_map", "jax.tree_map", "tree.map_structure")


def tree_map_body(r: T):
    """(body, trees) when r is a single tree_map call, else None."""
    if ext_name(r) in TREE_MAPS and r.args[1]:
        return r.args[1][0], r.args[1][1:]
    return None


def check(tier: str) -> Result:
    tree = get_tree()
    res = Result(explanation=EXPLANATION)
    vfg = VFG(tree, Model(tree))
    fs = {}
    for n in ("tree_transpose", "tree_slice", "tree_add_element"):
        f = tree.functions.get(TU + n)
        if f is None:
            raise AnalysisError(f"anchor {TU}{n} not found")
        fs[n] = f
    # ---- tree_transpose
    f = fs["tree_transpose"]
    p = mk("param", f.qual, f.params[0])
    r = uncopy(vfg.apply_func(f, None, None, [p], {}, None, None))
    tb = tree_map_body(r)
    ok, why = False, txt(r, 6, 200)
    if tb:
        body, trees = tb
        if ext_name(body) in ("jax.numpy.stack", "numpy.stack"):
            args, kw = body.args[1], dict(body.args[2])
            axis = kw.get("axis", args[1] if len(args) > 1 else const(0))
            leaves_ok = bool(args) and contains(args[0], p) and len(trees) == 1 and trees[0].kind == "star" and trees[0].args[0] is p
            ok = leaves_ok and axis.kind == "const" and axis.args[0] == 0
            why = f"stack axis {txt(axis)}; mapped over *{f.params[0]}: {leaves_ok}"
    res.add("C19.R1", f.loc(), "tree_utils.tree_transpose", "single tree_map; leaf function stacks corresponding leaves on axis 0", ok, why)
    # ---- tree_slice
    f = fs["tree_slice"]
    t, i = mk("param", f.qual, f.params[0]), mk("param", f.qual, f.params[1])
    r = uncopy(vfg.apply_func(f, None, None, [t, i], {}, None, None))
    tb = tree_map_body(r)
    ok, why = False, txt(r, 6, 200)
    if tb:
        body, trees = tb
        leaf = mk("leaf", t)
        good_trees = len(trees) == 1 and trees[0] is t
        if body.kind == "index" and body.args[0] is leaf:
            idx = body.args[1]
            ok = good_trees and (idx is i or (idx.kind == "tuple" and idx.args[0] and idx.args[0][0] is i and all(
                x.kind == "ext" and x.args[0].endswith("Ellipsis") or x.kind == "slice" for x in idx.args[0][1:])))
            why = f"leaf[{txt(idx)}]"
        elif ext_name(body) in ("jax.numpy.take", "jax.lax.index_in_dim", "jax.lax.dynamic_index_in_dim"):
            args, kw = body.args[1], dict(body.args[2])
            axis = kw.get("axis", args[2] if len(args) > 2 else None)
            keep = kw.get("keepdims")
            ok = good_trees and len(args) >= 2 and args[0] is leaf and args[1] is i and axis is not None and axis.kind == "const" \
                and axis.args[0] == 0 and (ext_name(body) == "jax.numpy.take" or (keep is not None and keep.kind == "const" and keep.args[0] is False))
            why = txt(body)
    res.add("C19.R1", f.loc(), "tree_utils.tree_slice", "single tree_map; leaf function indexes the leading axis with i", ok, why)
    # ---- tree_add_element
    f = fs["tree_add_element"]
    t, i, e = (mk("param", f.qual, n) for n in f.params[:3])
    r = uncopy(vfg.apply_func(f, None, None, [t, i, e], {}, None, None))
    tb = tree_map_body(r)
    ok, why = False, txt(r, 6, 200)
    if tb:
        body, trees = tb
        lt, le = mk("leaf", t), mk("leaf", e)
        exp = mk("call", mk("attr", mk("index", mk("attr", lt, "at"), i), "set"), (le,), ())
        ok = body is exp and len(trees) == 2 and trees[0] is t and trees[1] is e
        why = txt(body, 6, 160)
        if not ok and body.kind == "call" and body.args[0].kind == "attr" and body.args[0].args[1] != "set":
            why += f" -- uses .{body.args[0].args[1]} instead of .set"
    res.add("C19.R1", f.loc(), "tree_utils.tree_add_element", "single tree_map over (tree, element); leaf function is array.at[i].set(value)", ok, why)
    # ---- R2 equality helper
    f = tree.functions.get(PT + "is_equal_pytree")
    if f is None:
        raise AnalysisError(f"anchor {PT}is_equal_pytree not found")
    a, b = mk("param", f.qual, f.params[0]), mk("param", f.qual, f.params[1])
    r = uncopy(vfg.apply_func(f, None, None, [a, b], {}, None, None))
    core = strip_cast(r)
    ok, why = False, txt(r, 7, 260)
    if ext_name(core) in ("numpy.all", "jax.numpy.all", "builtins.all") and core.args[1]:
        inner = core.args[1][0]
        while ext_name(inner) in ("tree.flatten", "jax.tree_util.tree_leaves", "jax.tree_util.tree_flatten") and inner.args[1]:
            inner = inner.args[1][0]
        if inner.kind == "proj":
            inner = inner.args[0]
            while ext_name(inner) in ("tree.flatten", "jax.tree_util.tree_leaves", "jax.tree_util.tree_flatten") and inner.args[1]:
                inner = inner.args[1][0]
        tb = tree_map_body(inner)
        if tb:
            body, trees = tb
            la, lb = mk("leaf", a), mk("leaf", b)
            while ext_name(body) == "builtins.bool" and len(body.args[1]) == 1:
                body = body.args[1][0]          # bool(np.array_equal(..)) is the same truth value
            if ext_name(body) in ("numpy.array_equal", "jax.numpy.array_equal") and len(body.args[1]) == 2:
                x, y = (strip_cast(z) for z in body.args[1])

                def recast(z) -> bool:
                    """the operand is converted to an explicit dtype on its way into the comparison"""
                    for _ in range(6):
                        z = uncopy(z)
                        if z.kind != "call":
                            return False
                        if z.args[0].kind == "attr" and z.args[0].args[1] in ("astype", "view"):
                            return True
                        if dict(z.args[2]).get("dtype") is not None or (ext_name(z) in ("numpy.asarray", "numpy.array", "jax.numpy.asarray", "jax.numpy.array") and len(z.args[1]) > 1):
                            return True
                        if not z.args[1]:
                            return False
                        z = z.args[1][0]
                    return False
                casted = any(recast(z) for z in body.args[1])
                ok = {x, y} == {la, lb} and set(trees) == {a, b} and not casted
                kw = dict(body.args[2])
                why = "all(map(array_equal(leaf1, leaf2)))" if not casted else "a leaf is converted to an explicit dtype before array_equal: leaves of different dtypes / values that differ only beyond that dtype compare equal"
            else:
                why = f"leaf predicate {txt(body, 5, 120)} is not array_equal (shape and elements)"
    res.add("C19.R2", f.loc(), "testing.pytrees.is_equal_pytree", "equality = all over leaves of numpy.array_equal(leaf1, leaf2)", ok, why)
    for name, positive in (("assert_trees_are_different", False), ("assert_trees_are_equal", True)):
        g = tree.functions.get(PT + name)
        if g is None:
            raise AnalysisError(f"anchor {PT}{name} not found")
        v2 = VFG(tree, Model(tree))
        a2, b2 = mk("param", g.qual, g.params[0]), mk("param", g.qual, g.params[1])
        v2.apply_func(g, None, None, [a2, b2], {}, None, None)
        eq = uncopy(v2.apply_func(f, None, None, [a2, b2], {}, None, None))
        asserts = [e for e in v2.events if e.kind == "py_branch" and e.name == "assert" and e.func is g]
        ok = False
        why = f"{len(asserts)} assert statement(s)"
        if len(asserts) == 1:
            t = uncopy(asserts[0].target)
            if positive:
                ok = t is eq
            else:
                ok = t.kind == "un" and t.args[0] == "not" and t.args[1] is eq
            why = f"assert {txt(t, 3, 120)}"
        res.add("C19.R2", g.loc(), "testing.pytrees." + name,
                f"asserts {'' if positive else 'the negation of '}is_equal_pytree(tree1, tree2)", ok, why)
    res.analysed = {"functions": sorted(list(fs) + ["is_equal_pytree", "assert_trees_are_different", "assert_trees_are_equal"])}
    res.assumptions = ["tree_map / tree.map_structure apply the leaf function to corresponding leaves and rebuild the structure",
                       "numpy.array_equal is True iff shapes and all elements are equal"]
    return res
