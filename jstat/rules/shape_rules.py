"""Shape agreement rules on symbolic shapes (jstat/shapes.py):
  * observation leaf shape == declared spec shape (C01.R8);
  * every State leaf has the same shape after reset and after step (C02.R5 / C13.R6): lax.cond in
    AutoResetWrapper, lax.scan roll-outs and vmap over states need identical pytree leaf shapes.
Only definite differences are reported (rank, literal sizes, the same extent with different offsets, or two
independent configuration extents such as num_rows vs num_cols); unknown shapes are silent."""
from __future__ import annotations

from typing import Dict

from ..engine import EnvAnalysis
from ..loader import short
from ..shapes import Shapes, definitely_different, dims_from_shape_arg, fmt
from . import c01
from .common import analyses, env_site, txt
from .stale import flat_fields, observation_leaves


def env_shapes(ea: EnvAnalysis):
    vfg = ea.vfg
    tree = vfg.tree
    sfields = tree.fields(ea.state_cls) if ea.state_cls else []
    sh0 = Shapes(vfg)
    reset_shapes = {}
    given = {}
    for f in sfields:
        s = sh0.of(vfg.mk_attr(ea.reset_state, f))
        reset_shapes[f] = s
        if s is not None:
            given[vfg.mk_attr(ea.state, f).id] = s
    return sfields, sh0, Shapes(vfg, given), reset_shapes


def state_shape_obligations(res, tree, rule: str) -> int:
    n = 0
    for ea in analyses(tree):
        vfg = ea.vfg
        sfields, sh0, sh, rs = env_shapes(ea)
        site, fn = env_site(ea, "step")
        for f in sfields:
            s1 = sh.of(vfg.mk_attr(ea.step_state, f))
            if rs[f] is None or s1 is None:
                continue
            dd = definitely_different(rs[f], s1)
            res.add(rule, site, fn, f"State.{f} has the same shape after reset and after step", dd is None,
                    f"reset {fmt(rs[f])}, step {fmt(s1)}" + (f" -- {dd}: lax.cond / scan / auto-reset need identical leaf shapes" if dd else ""))
            n += 1
    return n


def obs_shape_obligations(res, tree, rule: str) -> int:
    n = 0
    for ea in analyses(tree):
        vfg = ea.vfg
        sfields, sh0, sh, rs = env_shapes(ea)
        spec = vfg.mk_attr(ea.self_t, "observation_spec")
        sp: Dict[str, list] = {}
        for p, leaf in c01.spec_paths(vfg, spec):
            sp.setdefault(p, []).append(leaf)
        for which, ts, S in (("reset", ea.reset_ts, sh0), ("step", ea.step_ts, sh)):
            site, fn = env_site(ea, which)
            for o in observation_leaves(ea, ts):
                if o.kind != "construct":
                    continue
                for path, val in flat_fields(vfg, o):
                    s = S.of(val)
                    if s is None:
                        continue
                    specs_here = sp.get(path, [])
                    if len(specs_here) != 1:
                        continue  # alternative specs (python-level configuration): pairing unknown
                    info = c01.spec_args(specs_here[0])
                    if not info:
                        continue
                    if info[0] == "DiscreteArray":
                        ss = ()
                    elif info[0] == "MultiDiscreteArray":
                        continue
                    else:
                        ss = dims_from_shape_arg(info[1].get("shape"), vfg)
                    if ss is None:
                        continue
                    dd = definitely_different(s, ss)
                    res.add(rule, site, fn, f"Observation.{path} has the declared shape", dd is None,
                            f"value {fmt(s)}, spec {fmt(ss)}" + (f" -- {dd}" if dd else ""))
                    n += 1
    return n


def action_space_dims(vfg, asp):
    """Shape a mask must have for the action space declared by `action_spec` (None when not decidable)."""
    from ..normal import ext_name, strip_cast
    from ..shapes import dim_of
    info = c01.spec_args(asp)
    if not info:
        return None
    kind, a = info
    if kind == "DiscreteArray":
        d = dim_of(a.get("num_values"), vfg) if a.get("num_values") is not None else None
        return (d,) if d else None
    if kind != "MultiDiscreteArray":
        return None
    nv = a.get("num_values")
    if nv is None:
        return None
    nv = strip_cast(nv) if ext_name(nv) not in ("jax.numpy.full",) else nv
    if ext_name(nv) == "jax.numpy.full" and len(nv.args[1]) >= 2:
        k = dims_from_shape_arg(nv.args[1][0], vfg)
        n = dim_of(nv.args[1][1], vfg)
        if k is not None and len(k) == 1 and n is not None:
            return (k[0], n)
        return None
    if nv.kind in ("list", "tuple"):
        dims = [dim_of(x, vfg) for x in nv.args[0]]
        return tuple(dims) if all(d is not None for d in dims) else None
    if nv.kind == "bin" and nv.args[0] == "*":
        for lst, cnt in ((nv.args[1], nv.args[2]), (nv.args[2], nv.args[1])):
            lst = strip_cast(lst)
            if lst.kind in ("list", "tuple") and len(lst.args[0]) == 1:
                k, n = dim_of(cnt, vfg), dim_of(lst.args[0][0], vfg)
                if k is not None and n is not None:
                    return (k, n)
    return None


def mask_action_obligations(res, tree, rule: str) -> int:
    """The declared (and, where inferable, the emitted) action mask has one entry per action of action_spec."""
    n = 0
    for ea in analyses(tree):
        vfg = ea.vfg
        want = action_space_dims(vfg, vfg.mk_attr(ea.self_t, "action_spec"))
        if want is None:
            continue
        spec = vfg.mk_attr(ea.self_t, "observation_spec")
        f = tree.find_method(ea.cls, "observation_spec")
        site = f.loc() if f else ea.cls.loc()
        for p, leaf in c01.spec_paths(vfg, spec):
            if not p.endswith("action_mask"):
                continue
            info = c01.spec_args(leaf)
            if not info or info[0] not in ("BoundedArray", "Array"):
                continue
            ss = dims_from_shape_arg(info[1].get("shape"), vfg)
            if ss is None:
                continue
            dd = definitely_different(ss, want)
            res.add(rule, site, short(ea.cls.qual) + ".observation_spec", f"action_mask spec has one entry per action of action_spec", dd is None,
                    f"mask spec {fmt(ss)}, action space {fmt(want)}" + (f" -- {dd}" if dd else ""))
            n += 1
        sfields, sh0, sh, rs = env_shapes(ea)
        for which, ts, S in (("reset", ea.reset_ts, sh0), ("step", ea.step_ts, sh)):
            s2, f2 = env_site(ea, which)
            for o in observation_leaves(ea, ts):
                if o.kind != "construct":
                    continue
                m = dict(flat_fields(vfg, o)).get("action_mask")
                if m is None:
                    continue
                sm = S.of(m)
                if sm is None:
                    continue
                dd = definitely_different(sm, want)
                res.add(rule, s2, f2, "emitted action_mask has one entry per action of action_spec", dd is None,
                        f"mask {fmt(sm)}, action space {fmt(want)}" + (f" -- {dd}" if dd else ""))
                n += 1
    return n


def meshgrid_reshape_obligations(res, tree, rule: str) -> int:
    """A result computed over the flattened coordinates of jnp.meshgrid(arange(E1), ..., arange(Ek), indexing='ij') and
    reshaped back to k axes must list the extents in the meshgrid's argument order: otherwise entry [i1..ik] holds the
    value computed for a different coordinate tuple (same size, so nothing fails at run time)."""
    from ..normal import ext_name, strip_cast
    from ..shapes import dim_of
    from ..terms import deps
    n = 0
    for ea in analyses(tree):
        vfg = ea.vfg
        roots = [ea.reset_result, ea.step_result]
        seen = set()
        for root in roots:
            for t in deps(root):
                if ext_name(t) != "jax.numpy.reshape" or t.id in seen or len(t.args[1]) < 3:
                    continue
                seen.add(t.id)
                dims = [dim_of(x, vfg) for x in t.args[1][1:]]
                if any(d is None for d in dims):
                    continue
                mg = [m for m in deps(t.args[1][0]) if ext_name(m) == "jax.numpy.meshgrid"]
                for m in mg[:1]:
                    ij = dict(m.args[2]).get("indexing")
                    ext = []
                    for a in m.args[1]:
                        a0 = strip_cast(a)
                        ext.append(dim_of(a0.args[1][0], vfg) if ext_name(a0) == "jax.numpy.arange" and len(a0.args[1]) == 1 else None)
                    if any(e is None for e in ext) or len(ext) != len(dims):
                        continue
                    if sorted(map(str, ext)) != sorted(map(str, dims)):
                        continue  # not the same axes: undecided
                    ok = ext == dims and ij is not None and ij.kind == "const" and ij.args[0] == "ij"
                    site = (t.meta or {}).get("loc", ea.cls.loc())
                    fn = short((t.meta or {}).get("func", ea.cls.qual))
                    res.add(rule, site, fn, "values computed over meshgrid coordinates are reshaped in the meshgrid's axis order", ok,
                            f"meshgrid axes {[fmt((e,)) for e in ext]}, reshape {[fmt((d,)) for d in dims]}, indexing {ij.args[0] if ij is not None and ij.kind == 'const' else None}")
                    n += 1
    return n
