"""Shape agreement rules on symbolic shapes (jstat/shapes.py):
  * observation leaf shape == declared spec shape (C01.R8);
  * every State leaf has the same shape after reset and after step (C02.R5 / C13.R6): lax.cond in
    AutoResetWrapper, lax.scan roll-outs and vmap over states need identical pytree leaf shapes.
Only definite differences are reported (rank, literal sizes, the same extent with different offsets, or two
independent configuration extents such as num_rows vs num_cols); unknown shapes are silent."""
from __future__ import annotations

from typing import Dict

from ..engine import EnvAnalysis
from ..loader import short
from ..shapes import Shapes, definitely_different, dims_from_shape_arg, fmt
from . import c01
from .common import analyses, env_site, txt
from .stale import flat_fields, observation_leaves


def env_shapes(ea: EnvAnalysis):
    vfg = ea.vfg
    tree = vfg.tree
    sfields = tree.fields(ea.state_cls) if ea.state_cls else []
    sh0 = Shapes(vfg)
    reset_shapes = {}
    given = {}
    for f in sfields:
        s = sh0.of(vfg.mk_attr(ea.reset_state, f))
        reset_shapes[f] = s
        if s is not None:
            given[vfg.mk_attr(ea.state, f).id] = s
    return sfields, sh0, Shapes(vfg, given), reset_shapes


def state_shape_obligations(res, tree, rule: str) -> int:
    n = 0
    for ea in analyses(tree):
        vfg = ea.vfg
        sfields, sh0, sh, rs = env_shapes(ea)
        site, fn = env_site(ea, "step")
        for f in sfields:
            s1 = sh.of(vfg.mk_attr(ea.step_state, f))
            if rs[f] is None or s1 is None:
                continue
            dd = definitely_different(rs[f], s1)
            res.add(rule, site, fn, f"State.{f} has the same shape after reset and after step", dd is None,
                    f"reset {fmt(rs[f])}, step {fmt(s1)}" + (f" -- {dd}: lax.cond / scan / auto-reset need identical leaf shapes" if dd else ""))
            n += 1
    return n


def obs_shape_obligations(res, tree, rule: str) -> int:
    n = 0
    for ea in analyses(tree):
        vfg = ea.vfg
        sfields, sh0, sh, rs = env_shapes(ea)
        spec = vfg.mk_attr(ea.self_t, "observation_spec")
        sp: Dict[str, list] = {}
        for p, leaf in c01.spec_paths(vfg, spec):
            sp.setdefault(p, []).append(leaf)
        for which, ts, S in (("reset", ea.reset_ts, sh0), ("step", ea.step_ts, sh)):
            site, fn = env_site(ea, which)
            for o in observation_leaves(ea, ts):
                if o.kind != "construct":
                    continue
                for path, val in flat_fields(vfg, o):
                    s = S.of(val)
                    if s is None:
                        continue
                    specs_here = sp.get(path, [])
                    if len(specs_here) != 1:
                        continue  # alternative specs (python-level configuration): pairing unknown
                    info = c01.spec_args(specs_here[0])
                    if not info:
                        continue
                    if info[0] == "DiscreteArray":
                        ss = ()
                    elif info[0] == "MultiDiscreteArray":
                        continue
                    else:
                        ss = dims_from_shape_arg(info[1].get("shape"), vfg)
                    if ss is None:
                        continue
                    dd = definitely_different(s, ss)
                    res.add(rule, site, fn, f"Observation.{path} has the declared shape", dd is None,
                            f"value {fmt(s)}, spec {fmt(ss)}" + (f" -- {dd}" if dd else ""))
                    n += 1
    return n
