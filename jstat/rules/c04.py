"""C04 -- the action mask is exactly the set of legal moves (structural part)."""
from __future__ import annotations

from ..engine import analyse_env, get_tree
from ..loader import AnalysisError, short
from ..normal import strip_cast
from ..report import Result
from ..terms import T, deps, mk
from .common import analyses, env_site, leaves, txt
from .stale import StepFlow, flat_fields, observation_leaves

EXPLANATION = (
    "Decided: (R1) in step, the action mask placed in the returned State and in the returned Observation is never "
    "computed from a state field that the same step supersedes (other than through the value stored in the returned "
    "state) -- a mask computed from the previous state hides legal moves or admits illegal ones on the next step; "
    "(R2) axis-kind consistency of the bounds tests inside mask functions on non-square grids (shared with C07.R1); "
    "(R3a) where step consults state.action_mask[...], the mask stored in the State by reset/step is the same value "
    "as the one shown in the Observation, so 'masked-in' and 'treated as valid' coincide; (R4) move tables used by the "
    "mask agree with those used by step (shared with C09.R1). Not decided: that the mask equals the rules of each game "
    "(needs a reference semantics).")

MIN_MASK_ENVS = 21


def check(tier: str) -> Result:
    tree = get_tree()
    res = Result(explanation=EXPLANATION)
    mask_envs = []
    reads_mask = []
    for ea in analyses(tree):
        vfg = ea.vfg
        env = short(ea.cls.qual)
        sfields = tree.fields(ea.state_cls) if ea.state_cls else []
        ofields = tree.fields(ea.obs_cls) if ea.obs_cls else []
        if "action_mask" not in sfields and "action_mask" not in ofields:
            continue
        mask_envs.append(ea.cls.name)
        sf = StepFlow(ea)
        site, fn = env_site(ea, "step")
        # ---- R1 state-side mask
        if "action_mask" in sfields:
            new_mask = sf.new["action_mask"]
            stale = [f for f in sf.stale_reads(new_mask, "action_mask") if f != "action_mask"]
            res.add("C04.R1", site, fn, "returned State.action_mask is computed from the returned state", not stale,
                    f"reads superseded state field(s) {stale}: {txt(new_mask, 4, 140)}" if stale else "no stale read")
        # ---- R1 observation-side mask
        for which, ts in (("step", ea.step_ts),):
            for oi, o in enumerate(observation_leaves(ea, ts)):
                if o.kind != "construct":
                    raise AnalysisError(f"{env}.{which}: observation not resolved: {txt(o, 3)}")
                for path, val in flat_fields(vfg, o):
                    if path.split(".")[-1] != "action_mask":
                        continue
                    if "action_mask" in sfields and strip_cast(val) is strip_cast(sf.new["action_mask"]):
                        continue  # same value as the state-side mask, decided above
                    stale = sf.stale_reads(val)
                    res.add("C04.R1", site, fn, f"returned Observation.{path} is computed from the returned state [{oi}]", not stale,
                            f"reads superseded state field(s) {stale}: {txt(val, 4, 140)}" if stale else "no stale read")
        # ---- R3a
        old_mask = vfg.mk_attr(ea.state, "action_mask") if "action_mask" in sfields else None
        if old_mask is not None:
            reads = [n for n in deps(ea.step_result) if n.kind == "index" and n.args[0] is old_mask]
            if reads:
                reads_mask.append(ea.cls.name)
                for which, ts, st in (("reset", ea.reset_ts, ea.reset_state), ("step", ea.step_ts, ea.step_state)):
                    site2, fn2 = env_site(ea, which)
                    sm = vfg.mk_attr(st, "action_mask")
                    for oi, o in enumerate(observation_leaves(ea, ts)):
                        om = dict(flat_fields(vfg, o)).get("action_mask")
                        if om is None:
                            continue
                        ok = strip_cast(om) is strip_cast(sm)
                        res.add("C04.R3a", site2, fn2, f"State.action_mask (consulted by the next step) is the mask shown in the Observation [{oi}]", ok,
                                "same value" if ok else f"state stores {txt(sm, 3, 90)} but the observation shows {txt(om, 3, 90)}")
    if len(mask_envs) < MIN_MASK_ENVS:
        raise AnalysisError(f"only {len(mask_envs)} environments with an action mask found (hand-confirmed minimum {MIN_MASK_ENVS})")
    from . import axis_rules, table_rules
    n_axis = axis_rules.add_obligations(res, tree, "C04.R2", scope="mask")
    n_tab = table_rules.add_obligations(res, tree, "C04.R4", only_mask_tables=True)
    res.analysed = {"environments_with_mask": mask_envs, "step_consults_state_mask": reads_mask,
                    "axis_typed_sites": n_axis, "table_pairings": n_tab}
    res.assumptions = ["records are not aliased across names inside step", "exceptions: none"]
    return res
