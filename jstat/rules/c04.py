"""C04 -- the action mask is exactly the set of legal moves (structural part)."""
from __future__ import annotations

from ..engine import analyse_env, get_tree
from ..loader import AnalysisError, short
from ..normal import strip_cast
from ..report import Result
from ..terms import T, deps, mk
from .common import analyses, env_site, leaves, txt
from .stale import StepFlow, flat_fields, observation_leaves

EXPLANATION = (
    "Decided: (R1) in step, the action mask placed in the returned State and in the returned Observation is never "
    "computed from a state field that the same step supersedes (other than through the value stored in the returned "
    "state) -- a mask computed from the previous state hides legal moves or admits illegal ones on the next step; "
    "(R2) axis-kind consistency of the bounds tests inside mask functions on non-square grids (shared with C07.R1); "
    "(R3b) where step recomputes validity instead (Knapsack, TSP, Minesweeper, ...), the mask expression rewritten over the incoming state equals that validity test after erasing the action index and normalising comparisons -- only definite mismatches (same quantities, different strictness/constant/polarity) are reported, anything that cannot be aligned is recorded as undecided; (R3a) where step consults state.action_mask[...], the mask stored in the State by reset/step is the same value "
    "as the one shown in the Observation, so 'masked-in' and 'treated as valid' coincide; (R4) move tables used by the "
    "mask agree with those used by step (shared with C09.R1). (R6) the declared and (where its symbolic shape is inferable) the emitted mask has exactly one entry per action of action_spec (DiscreteArray(n) -> (n,); joint MultiDiscrete [a, b, ..] -> (a, b, ..); per-agent [n]*k or full(k, n) -> (k, n)). (R7) a mask computed over flattened jnp.meshgrid coordinates (FlatPack) is reshaped in the axis order of the meshgrid. (R8) sibling call sites: a mask helper that reset calls with exactly the value it stores in a state field is given, in step, the value step stores in that field (or an intermediate), never the superseded field of the incoming state. (R5) LevelBasedForaging: the mask ignores eaten food (paired-use instance table shared with C09.R3 / C12.R2). Not decided: that the mask equals the rules of each game "
    "(needs a reference semantics).")

MIN_MASK_ENVS = 21
# environments whose mask and step-side validity are conjunct-for-conjunct identical on the pinned tree (the
# reference for later changes); "noop-clause": the step side additionally tests action != NOOP
REFERENCE_EQUIVALENT = {"Knapsack": "exact", "TSP": "exact", "Minesweeper": "exact", "SlidingTilePuzzle": "exact", "Connector": "noop-clause",
                        "CVRP": "exact"}  # CVRP: all entries except the depot (a constant index overridden by .at[DEPOT].set)


def check(tier: str) -> Result:
    tree = get_tree()
    res = Result(explanation=EXPLANATION)
    mask_envs = []
    reads_mask = []
    for ea in analyses(tree):
        vfg = ea.vfg
        env = short(ea.cls.qual)
        sfields = tree.fields(ea.state_cls) if ea.state_cls else []
        ofields = tree.fields(ea.obs_cls) if ea.obs_cls else []
        if "action_mask" not in sfields and "action_mask" not in ofields:
            continue
        mask_envs.append(ea.cls.name)
        sf = StepFlow(ea)
        site, fn = env_site(ea, "step")
        # ---- R1 state-side mask
        if "action_mask" in sfields:
            new_mask = sf.new["action_mask"]
            stale = [f for f in sf.stale_reads(new_mask, "action_mask") if f != "action_mask"]
            res.add("C04.R1", site, fn, "returned State.action_mask is computed from the returned state", not stale,
                    f"reads superseded state field(s) {stale}: {txt(new_mask, 4, 140)}" if stale else "no stale read")
        # ---- R1 observation-side mask
        for which, ts in (("step", ea.step_ts),):
            for oi, o in enumerate(observation_leaves(ea, ts)):
                if o.kind != "construct":
                    raise AnalysisError(f"{env}.{which}: observation not resolved: {txt(o, 3)}")
                for path, val in flat_fields(vfg, o):
                    if path.split(".")[-1] != "action_mask":
                        continue
                    if "action_mask" in sfields and strip_cast(val) is strip_cast(sf.new["action_mask"]):
                        continue  # same value as the state-side mask, decided above
                    stale = sf.stale_reads(val)
                    res.add("C04.R1", site, fn, f"returned Observation.{path} is computed from the returned state [{oi}]", not stale,
                            f"reads superseded state field(s) {stale}: {txt(val, 4, 140)}" if stale else "no stale read")
        # ---- R3a
        old_mask = vfg.mk_attr(ea.state, "action_mask") if "action_mask" in sfields else None
        if old_mask is not None:
            reads = [n for n in deps(ea.step_result) if n.kind == "index" and (n.args[0] is old_mask or (n.args[0].kind == "elem" and n.args[0].args[0] is old_mask))]
            if reads:
                reads_mask.append(ea.cls.name)
                for which, ts, st in (("reset", ea.reset_ts, ea.reset_state), ("step", ea.step_ts, ea.step_state)):
                    site2, fn2 = env_site(ea, which)
                    sm = vfg.mk_attr(st, "action_mask")
                    for oi, o in enumerate(observation_leaves(ea, ts)):
                        om = dict(flat_fields(vfg, o)).get("action_mask")
                        if om is None:
                            continue
                        ok = strip_cast(om) is strip_cast(sm)
                        res.add("C04.R3a", site2, fn2, f"State.action_mask (consulted by the next step) is the mask shown in the Observation [{oi}]", ok,
                                "same value" if ok else f"state stores {txt(sm, 3, 90)} but the observation shows {txt(om, 3, 90)}")
    # ---- R3b: mask == step-side validity where step recomputes validity
    from .validity import compare, old_mask
    from .common import last_conditions
    from ..normal import negand
    from ..terms import contains
    r3b = {}
    for ea in analyses(tree):
        vfg = ea.vfg
        if ea.cls.name not in mask_envs or ea.cls.name in reads_mask:
            continue
        sf = StepFlow(ea)
        site, fn = env_site(ea, "step")
        masks = []
        for o in observation_leaves(ea, ea.step_ts):
            m = dict(flat_fields(vfg, o)).get("action_mask")
            if m is not None:
                masks.append(m)
        cands = []
        if ea.step_state.kind == "choice" and ea.step_state.args[0] == "cond":
            cands.append(("predicate of the state update", ea.step_state.args[1]))
        for f_ in sf.fields:
            nv = sf.new[f_]
            if nv.kind == "choice" and nv.args[0] == "cond" and contains(nv.args[1], ea.action) and not any(nv.args[1] is c[1] for c in cands):
                cands.append((f"guard of the update of State.{f_}", nv.args[1]))
        from .c05 import identity_guards
        for f_ in sf.fields:
            for g in identity_guards(sf.new[f_], sf.old[f_]):
                if contains(g, ea.action) and not any(g is c[1] for c in cands):
                    cands.append((f"guard keeping State.{f_} unchanged", g))
        try:
            for c in last_conditions(ea):
                n = negand(c)
                if n is not None and contains(n, ea.action):
                    cands.append(("negated termination condition", n))
                elif contains(c, ea.action) and negand(c) is None and c.kind in ("index",):
                    cands.append(("termination condition (negated)", mk("un", "~", c)))
        except AnalysisError:
            pass
        verdict, why, which = None, "no step-side validity value located", ""
        for m in masks:
            mo = old_mask(ea, sf, m)
            for name, v in cands:
                ok, w = compare(mo, v, ea.action)
                if ok is None and w.startswith("EXTRA") and ea.cls.name in REFERENCE_EQUIVALENT:
                    from .validity import LAST_DIFF
                    mo_only, st_only = set(LAST_DIFF.get("mask_only", ())), set(LAST_DIFF.get("step_only", ()))
                    # documented extra clause on the step side: `action != NOOP` (the no-op is always masked in)
                    noop = {f for f in st_only if f[0] == "cmp" and f[4] == "!=" and set(f[1]) | set(f[2]) == {ea.action.id}}
                    if REFERENCE_EQUIVALENT[ea.cls.name] == "noop-clause":
                        st_only -= noop
                    if not mo_only and not st_only:
                        ok, w = True, "same conjuncts; the step side additionally requires action != NOOP (the no-op is always legal)"
                    elif mo_only:
                        ok, w = False, (f"the mask has {len(mo_only)} clause(s) that the step-side validity lacks: an action the mask forbids is still "
                                        f"executed by step")
                    else:
                        ok, w = False, (f"the step-side validity has {len(st_only)} clause(s) that the mask lacks: an action the mask allows is "
                                        f"rejected or ignored by step")
                if ok is True:
                    verdict, why, which = True, w, name
                    break
                if ok is False and verdict is None:
                    verdict, why, which = False, w + f" -- mask (over the incoming state) {txt(mo, 5, 120)} vs step-side validity {txt(v, 5, 120)}", name
            if verdict is True:
                break
        r3b[ea.cls.name] = {True: "equivalent", False: "MISMATCH", None: "undecided"}[verdict]
        res.add("C04.R3b", site, fn, "the mask over the incoming state equals the validity test step applies to the action", verdict,
                f"{which}: {why}" if which else why, nontrivial=verdict is not None)
    if len(mask_envs) < MIN_MASK_ENVS:
        raise AnalysisError(f"only {len(mask_envs)} environments with an action mask found (hand-confirmed minimum {MIN_MASK_ENVS})")
    from . import axis_rules, table_rules
    n_axis = axis_rules.add_obligations(res, tree, "C04.R2", scope="mask")
    n_tab = table_rules.add_obligations(res, tree, "C04.R4", only_mask_tables=True)
    from . import shape_rules
    n_ms = shape_rules.mask_action_obligations(res, tree, "C04.R6")
    n_mg = shape_rules.meshgrid_reshape_obligations(res, tree, "C04.R7")
    from . import lbf_rules
    n_lbf = lbf_rules.add_obligations(res, tree, "C04.R5", "mask")
    # the environment's own reaction to a masked-in move: step's movement / loading code ignores eaten food as the mask does
    n_lbf += lbf_rules.add_obligations(res, tree, "C04.R5", "transition")
    from . import wiring
    n_pc = wiring.paired_call_args(res, tree, "C04.R8", "mask", lambda ci: True)
    # ---- R9: border tests inside mask / validity functions are exact and decisive (rules/bounds_rules.py)
    from . import bounds_rules
    n_bd = bounds_rules.add_obligations(res, tree, "C04.R9", scope="mask")
    # ---- R10: an entity that is already used (packed, visited, placed) is never offered by the mask (rules/used_rules.py)
    from . import used_rules
    n_used = used_rules.add_obligations(res, tree, "C04.R10")
    # ---- R11: inside mask functions the displacement is added as in step (rules/move_rules.py)
    from . import move_rules
    n_mv = move_rules.add_obligations(res, tree, "C04.R11", scope="mask")
    n_lbf += lbf_rules.occupancy_obligations(res, tree, "C04.R5")
    move_rules.negative_sentinel_obligations(res, tree, "C04.R12")
    res.analysed = {"environments_with_mask": mask_envs, "step_consults_state_mask": reads_mask, "mask_vs_validity": r3b,
                    "axis_typed_sites": n_axis, "table_pairings": n_tab, "paired_reset_step_mask_call_arguments": n_pc}
    res.assumptions = ["records are not aliased across names inside step", "exceptions: none"]
    return res
