"""C16 -- specs form a consistent algebra (structural contracts of jumanji/specs.py)."""
from __future__ import annotations

import ast
from typing import Dict, List, Optional, Set, Tuple

from ..engine import VFG, get_tree
from ..loader import AnalysisError, ClassInfo, FuncInfo
from ..model import Model
from ..normal import ext_name, strip_cast
from ..report import Result
from ..terms import NONE, T, const, contains, deps, mk, uncopy
from .common import norm_path, txt

EXPLANATION = (
    "Decided on jumanji/specs.py for Array, BoundedArray, DiscreteArray, MultiDiscreteArray and the nested Spec: (R1) "
    "replace contract -- every __init__ parameter has a same-named readable property returning the stored self._<name> "
    "(what _get_constructor_kwargs relies on), no *args/**kwargs; (R2) pickle contract -- __reduce__ returns (OwnClass, "
    "(self._p1, ...)) in __init__ parameter order; (R3) equality -- __eq__ guards on its own class, compares every "
    "__init__ parameter (so any difference in shape, dtype, bounds, num_values or name is distinguished), and every "
    "comparison of an array-valued attribute is reduced (.all()/array_equal) before being used as a truth value, as its "
    "siblings do; (R4) validate -- Array.validate rejects on shape != and dtype != through a raising helper; "
    "BoundedArray.validate first runs the parent check and raises iff (value < minimum).any() or (value > maximum).any() "
    "(strict comparators paired with the right bound => inclusive bounds); (R5) generate_value of a bounded spec is "
    "filled from its minimum; nested Spec.generate_value / validate / replace map over self._specs and rebuild through "
    "self._constructor; Spec.__eq__ compares the children of both operands; (R6) the two conversion functions test "
    "subclasses before superclasses and wire num_values/minimum/maximum/shape/dtype to the matching arguments. Not "
    "decided: the laws as universally quantified statements over values (membership agreement, reflexivity on NaN "
    "bounds, gym/dm_env membership) -- value-level.")
EXPLANATION += " Nested equality rests on is_equal_pytree comparing structure and every leaf (shared with C19.R2); the gym value converter keeps each leaf's dtype (shared with C15.R3)."

S = "jumanji.specs."
ARRAY_SPECS = ["Array", "BoundedArray", "DiscreteArray", "MultiDiscreteArray"]


def init_params(f: FuncInfo) -> List[str]:
    return [a.arg for a in f.node.args.args[1:]]


def returns_of(f: FuncInfo) -> List[ast.expr]:
    return [n.value for n in ast.walk(f.node) if isinstance(n, ast.Return) and n.value is not None]


def self_attr(e: ast.expr, base: str = "self") -> Optional[str]:
    if isinstance(e, ast.Attribute) and isinstance(e.value, ast.Name) and e.value.id == base:
        return e.attr
    return None


ARRAY_MAKERS = ("asarray", "array", "zeros_like", "ones_like", "full", "broadcast_to", "zeros", "ones")


def spec_model(tree, ci: ClassInfo):
    """(stores of __init__ {attr: [values]}, {param: term}, {public property: private attribute it returns}) --
    attributes are identified by role (what __init__ stores, what the property returns), not by spelling."""
    from .c15 import init_attrs
    _, ia, ip = init_attrs(tree, ci)
    self_t = mk("self", ci.qual)
    props: Dict[str, Optional[str]] = {}
    for c in tree.mro(ci):
        for name, f in c.methods.items():
            if f.is_property and name not in props:
                r = uncopy(VFG(tree, Model(tree)).apply_func(f, self_t, f.cls, [], {}, None, None))
                props[name] = r.args[1] if r.kind == "attr" and r.args[0] is self_t else None
    return ia, ip, props


def array_kind_attrs(tree, ci: ClassInfo) -> Set[str]:
    """Public property names whose stored value is an array: built by a jnp.asarray(...)-like call in __init__, or
    an __init__ parameter annotated as an array and stored as it is."""
    ia, ip, props = spec_model(tree, ci)
    annotated: Set[str] = set()
    for c in tree.mro(ci):
        init = c.methods.get("__init__")
        if init is not None:
            for a in init.node.args.args[1:]:
                if a.annotation is not None and ast.unparse(a.annotation).split(".")[-1] in ("Array", "ndarray", "ArrayNumpy"):
                    annotated.add(a.arg)
    out: Set[str] = set()
    for pub, priv in props.items():
        if priv is None or priv not in ia:
            continue
        v = uncopy(ia[priv][-1])
        n = ext_name(v) or ""
        if (n.startswith("jax.numpy.") or n.startswith("numpy.")) and n.split(".")[-1] in ARRAY_MAKERS:
            out.add(pub)
        elif v.kind == "param" and v.args[1] in annotated:
            out.add(pub)
    return out


def eq_facts(f: FuncInfo):
    """(compared attribute names, unreduced array comparisons [(attr, src)], guard class name)"""
    compared: Dict[str, ast.Compare] = {}
    for n in ast.walk(f.node):
        if isinstance(n, ast.Compare) and len(n.ops) == 1 and isinstance(n.ops[0], ast.Eq):
            a, b = self_attr(n.left), self_attr(n.comparators[0], "other")
            if a and a == b:
                compared[a] = n
    for n in ast.walk(f.node):
        if isinstance(n, ast.Call) and len(n.args) == 2 and ast.unparse(n.func).split(".")[-1] in ("array_equal", "is_equal_pytree"):
            a, b = self_attr(n.args[0]), self_attr(n.args[1], "other")
            if a and a == b and a not in compared:
                compared[a] = n  # an already reduced comparison
    guard = None
    for n in ast.walk(f.node):
        if isinstance(n, ast.Call) and isinstance(n.func, ast.Name) and n.func.id == "isinstance" and len(n.args) == 2 \
                and isinstance(n.args[0], ast.Name) and n.args[0].id == "other" and isinstance(n.args[1], ast.Name):
            guard = n.args[1].id
    return compared, guard


def is_reduced(f: FuncInfo, cmp: ast.Compare) -> bool:
    """The comparison result is reduced to a scalar before any truth-value use."""
    parents: Dict[int, ast.AST] = {}
    for n in ast.walk(f.node):
        for c in ast.iter_child_nodes(n):
            parents[id(c)] = n
    cur: ast.AST = cmp
    while id(cur) in parents:
        p = parents[id(cur)]
        if isinstance(p, ast.Attribute) and p.attr in ("all", "any"):
            return True
        if isinstance(p, ast.Call):
            fn = ast.unparse(p.func)
            if fn.split(".")[-1] in ("all", "array_equal", "any") and cur in p.args:
                return True
            if fn in ("bool",):
                cur = p
                continue
            return False
        if isinstance(p, (ast.BoolOp, ast.Return, ast.If, ast.IfExp, ast.UnaryOp)):
            return False
        cur = p
    return False


def check(tier: str) -> Result:
    tree = get_tree()
    res = Result(explanation=EXPLANATION)
    m = tree.modules.get("jumanji.specs")
    if m is None:
        raise AnalysisError("module jumanji.specs not found")
    classes = {}
    for n in ARRAY_SPECS + ["Spec"]:
        ci = m.classes.get(n)
        if ci is None:
            raise AnalysisError(f"anchor {S}{n} not found")
        classes[n] = ci
    # ------------------------------------------------------------------ R1 / R2 / R3 per array spec
    for n in ARRAY_SPECS:
        ci = classes[n]
        init = tree.find_method(ci, "__init__")
        if init is None or init.cls is not ci:
            raise AnalysisError(f"{n}.__init__ not found")
        params = init_params(init)
        a = init.node.args
        res.add("C16.R1", init.loc(), f"specs.{n}.__init__", "no *args / **kwargs in the constructor", a.vararg is None and a.kwarg is None,
                f"parameters {params}")
        ia, ip, props = spec_model(tree, ci)
        self_c = mk("self", ci.qual)
        for p in params:
            prop = tree.find_method(ci, p)
            ok = False
            why = "no readable attribute of that name"
            if prop is not None and prop.is_property:
                priv = props.get(p)
                stored_vals = ia.get(priv, []) if priv is not None else []
                from_param = bool(stored_vals) and p in ip and contains(uncopy(stored_vals[-1]), ip[p])
                ok = priv is not None and from_param
                why = f"property returns self.{priv}; __init__ stores it from parameter '{p}': {from_param}"
            res.add("C16.R1", (prop or init).loc(), f"specs.{n}", f"constructor parameter '{p}' is readable back as self.{p} (the attribute __init__ stored from it)", ok, why)
        red = ci.methods.get("__reduce__") or tree.find_method(ci, "__reduce__")
        ok = False
        why = "no __reduce__"
        if red is not None:
            if red.cls is not ci:
                why = f"inherits {red.cls.name}.__reduce__, which rebuilds a {red.cls.name}"
            else:
                rr = uncopy(VFG(tree, Model(tree)).apply_func(red, self_c, ci, [], {}, None, None))
                if rr.kind == "tuple" and len(rr.args[0]) == 2 and rr.args[0][1].kind == "tuple":
                    cls_t, args_t = rr.args[0]
                    want = [mk("attr", self_c, props.get(p) or ("_" + p)) for p in params]
                    got = [uncopy(x) for x in args_t.args[0]]
                    ok = cls_t.kind == "cls" and cls_t.args[0] == ci.qual and got == want
                    why = f"returns ({txt(cls_t, 2, 40)}, {[txt(x, 2, 30) for x in got]}); constructor order {params}"
                else:
                    why = f"returns {txt(rr, 4, 120)}"
        res.add("C16.R2", (red or init).loc(), f"specs.{n}.__reduce__", "__reduce__ = (OwnClass, (stored value of each parameter...)) in constructor order", ok, why)
        eq = ci.methods.get("__eq__")
        if eq is None:
            inh = tree.find_method(ci, "__eq__")
            res.add("C16.R3", ci.loc(), f"specs.{n}.__eq__", "own __eq__ comparing all constructor parameters", False,
                    f"inherits {inh.cls.name if inh else None}.__eq__, which ignores {sorted(set(params))}")
            continue
        compared, guard = eq_facts_vfg(tree, ci, eq)
        missing = [p for p in params if p not in compared]
        res.add("C16.R3", eq.loc(), f"specs.{n}.__eq__", "equality compares every constructor parameter", not missing,
                f"compares {sorted(compared)}" if not missing else f"does not compare {missing}: specs differing only there are equal")
        res.add("C16.R3", eq.loc(), f"specs.{n}.__eq__", "equality guards on its own class", guard == n, f"isinstance(other, {guard})")
        tt_ok, tt_why = eq_truth_table(tree, ci, eq)
        res.add("C16.R3", eq.loc(), f"specs.{n}.__eq__", "equal exactly when every constructor parameter is equal (truth table of the comparison skeleton)", tt_ok, tt_why)
        arr = array_kind_attrs(tree, ci)
        for attr, okr in sorted(compared.items()):
            if attr in arr:
                res.add("C16.R3", eq.loc(), f"specs.{n}.__eq__", f"array comparison self.{attr} == other.{attr} is reduced before truth-value use", okr,
                        "reduced with all()/array_equal" if okr else "an element-wise array comparison is used directly as a truth value: raises for non-scalar values (sibling classes reduce it)")
    # ------------------------------------------------------------------ nested Spec equality (truth table), asarray in validate, min <= max
    from .common import raise_exits
    sp_c = classes["Spec"]
    sp_eq = sp_c.methods.get("__eq__")
    if sp_eq is not None:
        _, _, sp_props = spec_model(tree, sp_c)
        sp_ia, _, _ = spec_model(tree, sp_c)
        child_attr = None
        v_eq = VFG(tree, Model(tree))
        oth = mk("param", sp_eq.qual, sp_eq.params[1])
        v_eq.apply_func(sp_eq, mk("self", sp_c.qual), sp_c, [oth], {}, None, None)
        for t_ in list(deps(mk("tuple", tuple(v for _, _, _, _, v in v_eq.exits if v is not None)))):
            if t_.kind == "attr" and t_.args[0] is oth:
                child_attr = t_.args[1]
        if child_attr is not None:
            tt_ok, tt_why = eq_truth_table(tree, sp_c, sp_eq, names_override=[sp_props_inv(sp_props).get(child_attr, child_attr)])
            res.add("C16.R5", sp_eq.loc(), "specs.Spec.__eq__", "nested specs are equal exactly when their children are, NotImplemented for a non-Spec (truth table)", tt_ok, tt_why)
    av0 = classes["Array"].methods.get("validate")
    if av0 is not None:
        va = VFG(tree, Model(tree))
        self_a0 = mk("self", classes["Array"].qual)
        val0 = mk("param", av0.qual, av0.params[1])
        ra = uncopy(va.apply_func(av0, self_a0, classes["Array"], [val0], {}, None, None))
        conv = mk("call", mk("ext", "jax.numpy.asarray"), (val0,), ())
        tested = [strip_cast(x) for e in va.events if e.kind == "py_branch" and e.target is not None for x in deps(e.target)
                  if x.kind == "attr" and x.args[1] in ("shape", "dtype") and contains(x.args[0], val0)]
        on_conv = bool(tested) and all(uncopy(x.args[0]) is conv or ext_name(uncopy(x.args[0])) in ("jax.numpy.asarray", "jax.numpy.array") for x in tested)
        ret_conv = ra is conv or ext_name(ra) in ("jax.numpy.asarray", "jax.numpy.array") or (ra.kind == "phi" and all(ext_name(uncopy(x)) in ("jax.numpy.asarray", "jax.numpy.array") for x in ra.args[0] if x.kind != "ext"))
        res.add("C16.R4", av0.loc(), "specs.Array.validate", "the value is converted with jnp.asarray before its shape and dtype are tested, and the converted array is returned", on_conv and ret_conv,
                f"shape/dtype read from {sorted({txt(x.args[0], 3, 40) for x in tested})}; returns {txt(ra, 3, 60)}")
    b_init = classes["BoundedArray"].methods.get("__init__")
    if b_init is not None:
        vbi = VFG(tree, Model(tree))
        self_bi = mk("self", classes["BoundedArray"].qual)
        psb = {p_: mk("param", b_init.qual, p_) for p_ in b_init.params[1:]}
        vbi.apply_func(b_init, self_bi, classes["BoundedArray"], [psb[p_] for p_ in b_init.params[1:]], {}, None, None)
        strict = None
        seen_t = []
        for fn_, node_, path_, _ in raise_exits(vbi):
            for t_, pol_, pf_ in path_:
                if not pol_ or pf_ is not b_init:
                    continue
                c_ = strip_cast(t_)
                while ext_name(c_) in ("jax.numpy.any", "numpy.any", "builtins.any") and c_.args[1]:
                    c_ = strip_cast(c_.args[1][0])
                if c_.kind == "cmp" and c_.args[0] in ("<", "<=", ">", ">=") and contains(c_, psb.get("minimum")) and contains(c_, psb.get("maximum")):
                    op_, a_, b_ = c_.args
                    lo_first = contains(a_, psb["minimum"])
                    # raise iff min > max  (min > max | max < min); `>=` / `<=` also rejects min == max
                    seen_t.append(txt(c_, 3, 60))
                    strict = (op_ == ">" and lo_first) or (op_ == "<" and not lo_first)
        res.add("C16.R7", b_init.loc(), "specs.BoundedArray.__init__", "the constructor rejects exactly minimum > maximum (equal bounds are a valid spec)", strict,
                f"raising test {seen_t}" if seen_t else "no raising comparison of minimum with maximum found (not decided)")
    # ------------------------------------------------------------------ R7 discrete specs: bounds derived from num_values
    from ..normal import disjuncts, ge_form, linear
    from .common import raise_exits as _rx
    for n in ("DiscreteArray", "MultiDiscreteArray"):
        ci = classes[n]
        init = tree.find_method(ci, "__init__")
        ia, ip, props = spec_model(tree, ci)
        nv = ip.get("num_values")
        mx = [uncopy(x) for x in ia.get(props.get("maximum") or "_maximum", [])]
        mn = [uncopy(x) for x in ia.get(props.get("minimum") or "_minimum", [])]

        def unwrap(t):
            t = strip_cast(t)
            while ext_name(t) in ("jax.numpy.asarray", "jax.numpy.array", "numpy.asarray", "builtins.int") and t.args[1]:
                t = strip_cast(t.args[1][0])
            return t
        okx = False
        whyx = f"maximum stored as {[txt(x, 4, 60) for x in mx]}"
        if mx and nv is not None:
            b, k = linear(unwrap(mx[-1]))
            b0 = unwrap(b) if b is not None else None
            if b0 is not None and b0.kind == "attr" and b0.args[0].kind == "self" and ia.get(b0.args[1]):
                b0 = unwrap(uncopy(ia[b0.args[1]][-1]))      # self._num_values, stored from the parameter just before
            okx = b0 is not None and b0 is nv and k == -1
        res.add("C16.R7", init.loc(), f"specs.{n}.__init__", "maximum = num_values - 1", okx, whyx)
        okn = False
        if mn:
            z = unwrap(mn[-1])
            okn = (z.kind == "const" and z.args[0] == 0) or (ext_name(z) in ("jax.numpy.zeros_like", "jax.numpy.zeros", "numpy.zeros_like") and True)
        res.add("C16.R7", init.loc(), f"specs.{n}.__init__", "minimum = 0", okn, f"minimum stored as {[txt(x, 4, 60) for x in mn]}")
        # constructor rejects num_values <= 0
        vi = VFG(tree, Model(tree))
        self_c = mk("self", ci.qual)
        psi = [mk("param", init.qual, p_) for p_ in init.params[1:]]
        vi.apply_func(init, self_c, ci, psi, {}, None, None)
        rej = False
        seen_tests = []
        from .common import expanded_raise_exits as _erx
        for fn_, node_, path_, _ in _erx(vi):
            for t_, pol_, pf_ in path_:
                if not pol_:
                    continue
                for d in disjuncts(t_):
                    g = ge_form(d)
                    seen_tests.append(txt(d, 3, 50))
                    # num_values <= 0  <=>  0 >= num_values + 0 ; num_values < 1 <=> 0 >= num_values  (integers)
                    if g is not None and g[0] is None and g[1] is not None and unwrap(g[1]) is psi[0] and g[2] == 0:
                        rej = True
        res.add("C16.R7", init.loc(), f"specs.{n}.__init__", "the constructor rejects num_values <= 0", rej,
                "a raise is reached under num_values <= 0" if rej else f"no raise under `num_values <= 0` (raising tests: {seen_tests[:4]})")
    # ------------------------------------------------------------------ R4 validate
    av = classes["Array"].methods.get("validate")
    fv = classes["Array"].methods.get("_fail_validation")
    if av is None:
        raise AnalysisError("Array.validate not found")
    from ..normal import disjuncts
    from ..terms import NORETURN
    from .common import raise_exits
    if fv is not None:
        vf = VFG(tree, Model(tree))
        rf = vf.apply_func(fv, mk("self", classes["Array"].qual), classes["Array"], [mk("param", fv.qual, p) for p in fv.params[1:]], {}, None, None)
        res.add("C16.R4", fv.loc(), "specs.Array._fail_validation", "the failure helper raises unconditionally", rf is NORETURN,
                "every path ends in raise" if rf is NORETURN else f"can return {txt(rf, 3, 60)}")

    _, _, aprops = spec_model(tree, classes["BoundedArray"])
    apub = {priv: pub for pub, priv in aprops.items() if priv is not None}

    def pubname(a: str) -> str:
        return apub.get(a, a.lstrip("_"))

    def mismatch_rejections(vfg_, self_, val_):
        """{attr: rejected?} -- a raise is reached under `value.attr != self.attr` with nothing but the other
        (non-rejecting) mismatch tests in front of it."""
        out = {}
        for fn, node, path, _ in raise_exits(vfg_):
            atoms = []
            for t, pol, pf in path:
                a = None
                if t.kind == "cmp" and t.args[0] in ("!=", "=="):
                    sides = [strip_cast(t.args[1]), strip_cast(t.args[2])]
                    names = {pubname(x.args[1]) for x in sides if x.kind == "attr"}
                    if len(names) == 1 and any(x.kind == "attr" and x.args[0] is self_ for x in sides) and \
                            any(x.kind == "attr" and x.args[0] is not self_ and contains(x, val_) for x in sides):
                        a = (names.pop(), (t.args[0] == "!=") == pol)   # True: this path has value.attr != self.attr
                atoms.append(a)
            for i, a in enumerate(atoms):
                if a is not None and a[1] and all(b is not None and not b[1] for b in atoms[:i]):
                    out[a[0]] = True
        return out

    vv = VFG(tree, Model(tree))
    arr_c = classes["Array"]
    self_a = mk("self", arr_c.qual)
    val = mk("param", av.qual, av.params[1])
    vv.apply_func(av, self_a, arr_c, [val], {}, None, None)
    rej = mismatch_rejections(vv, self_a, val)
    for attr in ("shape", "dtype"):
        res.add("C16.R4", av.loc(), "specs.Array.validate", f"rejects when value.{attr} != self.{attr}", bool(rej.get(attr)),
                "a raise is reached under that test" if rej.get(attr) else f"no raise is reached under value.{attr} != self.{attr} (rejections found: {sorted(rej)})")
    bv = classes["BoundedArray"].methods.get("validate")
    if bv is None:
        raise AnalysisError("BoundedArray.validate not found")
    vb = VFG(tree, Model(tree))
    b_c = classes["BoundedArray"]
    self_b = mk("self", b_c.qual)
    valb = mk("param", bv.qual, bv.params[1])
    vb.apply_func(bv, self_b, b_c, [valb], {}, None, None)
    rejb = mismatch_rejections(vb, self_b, valb)
    sup = bool(rejb.get("shape")) and bool(rejb.get("dtype"))
    res.add("C16.R4", bv.loc(), "specs.BoundedArray.validate", "runs the parent shape/dtype validation first", sup,
            "shape and dtype mismatches are rejected on the way" if sup else f"parent validation skipped (rejections reached: {sorted(rejb)})")
    found = {}
    fails = is_or = False
    bypass = []
    from .common import expanded_raise_exits
    n_paths_with_bound = 0
    for fn, node, path, _ in expanded_raise_exits(vb):
        path_has_bound = False
        for t, pol, pf in path:
            if not pol:
                continue
            ds = disjuncts(t)
            got = {}
            for d in ds:
                d0 = strip_cast(d)
                red = ext_name(d0) in ("jax.numpy.any", "numpy.any", "builtins.any")
                c = strip_cast(d0.args[1][0]) if red and d0.args[1] else d0
                if c.kind == "cmp" and c.args[0] in ("<", "<=", ">", ">="):
                    op, a, b = c.args
                    bound = None
                    for side, other in ((b, a), (a, b)):
                        if side.kind == "attr" and side.args[0] is self_b and pubname(side.args[1]) in ("minimum", "maximum") and contains(other, valb):
                            bound = pubname(side.args[1])
                            if side is a:  # bound written on the left: normalise to `value OP bound`
                                op = {"<": ">", ">": "<", "<=": ">=", ">=": "<="}[op]
                    if bound:
                        got[bound] = (op, red)
            if got:
                path_has_bound = True
                found = {**found, **got}
                fails = True
                is_or = is_or or len(ds) == 2
                # every other condition on the way to this raise must be one of the parent's (non-rejecting) mismatch
                # tests: an extra own condition means some values skip the bounds test altogether
                extra = []
                for t2, pol2, pf2 in path:
                    if t2 is t:
                        continue
                    if t2.kind == "cmp" and t2.args[0] in ("!=", "=="):
                        sides = [strip_cast(t2.args[1]), strip_cast(t2.args[2])]
                        if any(x.kind == "attr" and x.args[0] is self_b for x in sides) and any(x.kind == "attr" and x.args[0] is not self_b and contains(x, valb) for x in sides):
                            continue
                    # the complement of the other bound test (second return path of a two-step helper) restricts nothing
                    c2 = strip_cast(t2)
                    while ext_name(c2) in ("jax.numpy.any", "numpy.any", "builtins.any", "builtins.bool") and c2.args[1]:
                        c2 = strip_cast(c2.args[1][0])
                    if c2.kind == "call" and c2.args[0].kind == "attr" and c2.args[0].args[1] == "any" and not c2.args[1]:
                        c2 = strip_cast(c2.args[0].args[0])
                    if not pol2 and c2.kind == "cmp" and any(x.kind == "attr" and x.args[0] is self_b and pubname(x.args[1]) in ("minimum", "maximum") for x in (strip_cast(c2.args[1]), strip_cast(c2.args[2]))):
                        continue
                    if (pf2 is bv or True) and (contains(t2, self_b) or contains(t2, valb)):
                        extra.append((t2, pol2))
                bypass = bypass + extra
        if path_has_bound:
            n_paths_with_bound += 1
    if n_paths_with_bound >= 2 and set(found) == {"minimum", "maximum"}:
        is_or = True        # two raising paths, one per bound
    res.add("C16.R4", bv.loc(), "specs.BoundedArray.validate", "raises iff any(value < minimum) or any(value > maximum) (inclusive bounds)",
            found.get("minimum") == ("<", True) and found.get("maximum") == (">", True) and fails and is_or,
            f"comparators {found}; joined by or: {is_or}; leads to failure: {fails}")
    res.add("C16.R4", bv.loc(), "specs.BoundedArray.validate", "the bounds test is reached by every value that passed the shape/dtype validation", fails and not bypass,
            "no other condition guards the bounds test" if not bypass else "the bounds test is skipped unless " + " and ".join(("" if pol else "not ") + txt(t, 3, 60) for t, pol in bypass))
    # ------------------------------------------------------------------ R5 generate / nested spec
    sp = classes["Spec"]
    sinit = sp.methods.get("__init__")
    if sinit is None:
        raise AnalysisError("Spec.__init__ not found")
    self_t = mk("self", sp.qual)
    vs0 = VFG(tree, Model(tree))
    cparam, nparam = mk("param", sinit.qual, sinit.params[1]), mk("param", sinit.qual, sinit.params[2])
    kwspecs = mk("param", sinit.qual, sinit.node.args.kwarg.arg if sinit.node.args.kwarg else "specs")
    vs0.apply_func(sinit, self_t, sp, [cparam, nparam], {"**": kwspecs}, None, None)
    st0 = {}
    for e in vs0.events:
        if e.kind == "store_attr" and e.target is self_t:
            st0.setdefault(e.name, []).append(uncopy(e.value))
    c_names = [k for k, v in st0.items() if v[-1] is cparam]
    s_names = [k for k, v in st0.items() if v[-1] is kwspecs and not k.startswith("<")]
    if len(c_names) != 1 or len(s_names) != 1:
        raise AnalysisError(f"Spec.__init__: constructor stored in {c_names}, child specs stored in {s_names} (expected one attribute each)")
    C_ATTR, S_ATTR = c_names[0], s_names[0]
    binit = classes["BoundedArray"].methods["__init__"]
    bia, bip, _ = spec_model(tree, classes["BoundedArray"])
    ok = False
    why = "no constructor function stored"
    cands = [x for x in bia.get(C_ATTR, []) if x.kind == "fn"]
    if cands:
        made = uncopy(VFG(tree, Model(tree)).apply(cands[-1], [], {}, None, None))
        fill = made.args[1][1] if ext_name(made) in ("jax.numpy.full", "numpy.full") and len(made.args[1]) >= 2 else dict(made.args[2]).get("fill_value") if made.kind == "call" else None
        ok = fill is not None and (contains(fill, bip["minimum"]) or contains(fill, bip["maximum"]))
        why = txt(made, 4, 120)
    res.add("C16.R5", binit.loc(), "specs.BoundedArray.__init__", "generate_value of a bounded spec is filled from one of its bounds", bool(ok), why)
    vfg = VFG(tree, Model(tree))
    specs_t = mk("attr", self_t, S_ATTR)
    ctor_t = mk("attr", self_t, C_ATTR)
    gv = sp.methods.get("generate_value")
    r = uncopy(vfg.apply_func(gv, self_t, sp, [], {}, None, None)) if gv else NONE
    ok = False
    if r.kind == "call" and r.args[0] is ctor_t:
        kw = dict(r.args[2]).get("**")
        if kw is not None and ext_name(kw) in ("jax.tree_util.tree_map", "jax.tree_map") and len(kw.args[1]) == 2 and kw.args[1][1] is specs_t:
            body = kw.args[1][0]
            ok = body.kind == "call" and body.args[0].kind == "attr" and body.args[0].args[1] == "generate_value" and body.args[0].args[0] is mk("leaf", specs_t)
    res.add("C16.R5", gv.loc() if gv else sp.loc(), "specs.Spec.generate_value", "constructor(**tree_map(child.generate_value, self._specs))", ok, txt(r, 6, 200))
    vd = sp.methods.get("validate")
    val = mk("param", vd.qual, vd.params[1])
    r = uncopy(vfg.apply_func(vd, self_t, sp, [val], {}, None, None))
    ok = False
    lv = [x for x in (r.args[0] if r.kind == "phi" else (r,))]
    good = 0
    for x in lv:
        if x.kind == "call" and x.args[0] is ctor_t:
            kw = dict(x.args[2]).get("**")
            if kw is not None and ext_name(kw) in ("jax.tree_util.tree_map", "jax.tree_map") and len(kw.args[1]) == 3:
                body, t1, t2 = kw.args[1]
                if body.kind == "call" and body.args[0].kind == "attr" and body.args[0].args[1] == "validate" and contains(t1, specs_t) \
                        and body.args[0].args[0] is mk("leaf", t1) and body.args[1] == (mk("leaf", t2),) and contains(t2, val):
                    good += 1
    ok = good == len(lv) and good > 0
    res.add("C16.R5", vd.loc(), "specs.Spec.validate", "constructor(**tree_map(child.validate(value_child), self._specs, value fields))", ok, txt(r, 5, 240))
    rp = sp.methods.get("replace")
    kwp = mk("param", rp.qual, "kwargs")
    r = uncopy(vfg.apply_func(rp, self_t, sp, [], {"**": kwp}, None, None))
    ok = False
    if r.kind == "new" and r.args[0] == sp.qual and len(r.args[1]) >= 1 and r.args[1][0] is ctor_t:
        kw = dict(r.args[2]).get("**")
        if kw is not None and ext_name(kw) == "builtins.mutated.update" and len(kw.args[1]) == 2:
            base, upd = kw.args[1]
            ok = ext_name(base) in ("copy.deepcopy", "copy.copy", "builtins.dict") and base.args[1] and base.args[1][0] is specs_t and upd is kwp
        elif kw is not None and kw.kind == "dict":
            # {**copy_of_children, **kwargs}: a fresh dict in which the caller's entries override
            stars = [v for k, v in zip(kw.args[0], kw.args[1]) if k.kind == "star"]
            if len(stars) == 2 and len(kw.args[0]) == 2:
                base, upd = stars
                src = base.args[1][0] if ext_name(base) in ("copy.deepcopy", "copy.copy", "builtins.dict") and base.args[1] else base
                ok = src is specs_t and upd is kwp
        elif kw is not None and kw.kind == "bin" and kw.args[0] == "|":
            base, upd = kw.args[1], kw.args[2]
            src = base.args[1][0] if ext_name(base) in ("copy.deepcopy", "copy.copy", "builtins.dict") and base.args[1] else base
            ok = src is specs_t and upd is kwp
    res.add("C16.R5", rp.loc(), "specs.Spec.replace", "Spec(self._constructor, name, **(copy of self._specs updated with kwargs))", ok, txt(r, 6, 240))
    eq = sp.methods.get("__eq__")
    oth = mk("param", eq.qual, eq.params[1])
    r = uncopy(vfg.apply_func(eq, self_t, sp, [oth], {}, None, None))
    lv = [x for x in (r.args[0] if r.kind == "phi" else (r,)) if not (x.kind == "ext" and x.args[0].endswith("NotImplemented"))]
    ok = len(lv) == 1 and contains(lv[0], specs_t) and contains(lv[0], mk("attr", oth, S_ATTR))
    res.add("C16.R5", eq.loc(), "specs.Spec.__eq__", "nested specs are equal exactly when their children (self._specs, other._specs) are", ok, txt(r, 6, 200))
    # ------------------------------------------------------------------ R6 conversions
    n_conv = conversion_obligations(res, tree, "C16.R6")
    from .common import borrow
    n_eq = borrow(res, "c19", {"C19.R2": "C16.R5"})
    n_eq += borrow(res, "c15", {"C15.R3": "C16.R6"}, envs=["jumanji_to_gym_obs"])
    res.analysed = {"classes": ARRAY_SPECS + ["Spec"], "conversion_branches": n_conv, "pytree_equality_obligations": n_eq}
    res.assumptions = ["properties are the only readers used by replace (inspect.signature + getattr)",
                       "element-wise == on jax arrays yields an array whose truth value is defined only for size 1"]
    return res


def is_any_reduced(test: ast.expr, cmp: ast.Compare) -> bool:
    for n in ast.walk(test):
        if isinstance(n, ast.Call) and isinstance(n.func, ast.Attribute) and n.func.attr == "any" and any(c is cmp for c in ast.walk(n.func.value)):
            return True
        if isinstance(n, ast.Call) and ast.unparse(n.func).split(".")[-1] == "any" and any(c is cmp for a in n.args for c in ast.walk(a)):
            return True
    return False


CONV = {"jumanji_specs_to_dm_env_specs": {"DiscreteArray": {"num_values": "num_values", "dtype": "dtype"},
                                          "BoundedArray": {"shape": "shape", "dtype": "dtype", "minimum": "minimum", "maximum": "maximum"},
                                          "Array": {"shape": "shape", "dtype": "dtype"}},
        "jumanji_specs_to_gym_spaces": {"DiscreteArray": {"n": "num_values"}, "MultiDiscreteArray": {"nvec": "num_values"},
                                        "BoundedArray": {"low": "minimum", "high": "maximum", "shape": "shape", "dtype": "dtype"},
                                        "Array": {"shape": "shape", "dtype": "dtype", "low": "-inf", "high": "+inf"}}}


def conversion_obligations(res: Result, tree, rule: str) -> int:
    """Decided on the value-flow graph of the two conversion functions with `spec` abstract: every `return` is
    logged with the isinstance tests that lead to it (an if/elif chain, early returns, a `match` statement and a
    table of (class, converter) pairs all give the same facts)."""
    m = tree.modules["jumanji.specs"]
    count = 0
    for fname, table in CONV.items():
        f = m.functions.get(fname)
        if f is None:
            raise AnalysisError(f"anchor {S}{fname} not found")
        v = VFG(tree, Model(tree))
        spec = mk("param", f.qual, f.params[0])
        v.apply_func(f, None, None, [spec], {}, None, None)

        def inst_class(t: T):
            """C for the test isinstance(spec, C)"""
            if ext_name(t) == "builtins.isinstance" and len(t.args[1]) == 2 and t.args[1][0] is spec and t.args[1][1].kind == "cls":
                q = t.args[1][1].args[0]
                return q.split(".")[-1] if q.startswith(S) else None
            return None

        branches: List[Tuple[str, List[str], T, object]] = []     # (class, classes rejected before, returned value, node)
        for kind, fn_, node, path, val in v.exits:
            if kind != "return" or val is None:
                continue
            tests = [(inst_class(t), pol) for t, pol, _ in norm_path(path)]
            tests = [(c, pol) for c, pol in tests if c is not None]
            pos = [c for c, pol in tests if pol]
            # several positive tests (a guard `not isinstance(spec, Array)` passed earlier, then the specific test): the
            # branch belongs to the most specific class, the one that is a subclass of every other positive class
            spec_pos = [c for c in pos if tree.classes.get(S + c) is not None and all(tree.is_subclass(tree.classes[S + c], S + d) for d in pos)]
            if not spec_pos:
                continue
            cn = spec_pos[0]
            top = (ext_name(uncopy(val)) or "").split(".")[0]
            if top not in ("gym", "gymnasium", "dm_env"):
                continue     # a helper's return value on the way (e.g. the name), not the converted spec
            if any(b[0] == cn for b in branches):
                continue
            branches.append((cn, [c for c, pol in tests if not pol], uncopy(val), node))
        names = [b[0] for b in branches]
        for cn, rejected, val, node in branches:
            ci = tree.classes.get(S + cn)
            if ci is None:
                continue
            # reached only if no class tested (and rejected) earlier is a superclass of this one
            shadowing = [r for r in rejected if tree.classes.get(S + r) is not None and r != cn and tree.is_subclass(ci, S + r)]
            res.add(rule, f"{m.relpath}:{getattr(node, 'lineno', f.node.lineno)}", f"specs.{fname}", f"branch isinstance(spec, {cn}) is not shadowed by an earlier superclass branch", not shadowing,
                    "order ok" if not shadowing else f"never reached: {shadowing} is tested first and {cn} is its subclass")
            count += 1
            want = table.get(cn)
            if want:
                ok = False
                why = f"returns {txt(val, 3, 100)}"
                if val.kind == "call":
                    got = {}
                    for k, a in val.args[2]:
                        got[k] = _relay_of(a, spec)
                    bad = {k: (got.get(k), w) for k, w in want.items() if got.get(k) != w}
                    ok = not bad
                    why = f"wiring {got}" if ok else f"mis-wired {bad}"
                res.add(rule, f"{m.relpath}:{getattr(node, 'lineno', f.node.lineno)}", f"specs.{fname}", f"{cn} branch wires {want}", ok, why)
                count += 1
        missing = [c for c in table if c not in names]
        verdict_b = (not missing) if names else None     # no branch read at all: the dispatch is written in a form that is not compared
        res.add(rule, f.loc(), f"specs.{fname}", "every array spec kind has a conversion branch", verdict_b,
                f"branches {names}" if not missing else (f"missing {missing}" if names else "dispatch not in a recognised form (no isinstance path read)"))
        count += 1
        # nested: recursion over children
        rec = any(dst == f.qual for src, dst in v.call_edges)
        res.add(rule, f.loc(), f"specs.{fname}", "nested specs are converted recursively child by child", rec, "recursive call present" if rec else "no recursion")
        count += 1
    return count


def _relay_of(a: T, spec: T):
    """'attr' when a is spec.<attr> or a shape-only wrapper (broadcast_to / asarray / array) of it; otherwise a
    printed form of the value (so that a modified bound is reported as such)."""
    a = uncopy(a)
    if a.kind == "attr" and a.args[0] is spec:
        return a.args[1]
    inf = _infinity(a)
    if inf is not None:
        return inf
    n = ext_name(a)
    if n is not None and n.split(".")[-1] in ("broadcast_to", "asarray", "array") and a.args[1]:
        return _relay_of(a.args[1][0], spec)
    return f"<{txt(a, 3, 50)}>"


def _infinity(a: T):
    """'+inf' / '-inf' for the spellings of an infinite bound (an unbounded spec must convert to an unbounded space)."""
    a = strip_cast(a)
    if a.kind == "un" and a.args[0] == "-":
        i = _infinity(a.args[1])
        return {"+inf": "-inf", "-inf": "+inf"}.get(i)
    if a.kind == "ext" and a.args[0].split(".")[-1] in ("inf", "Inf", "infty", "Infinity", "PINF"):
        return "+inf"
    if a.kind == "ext" and a.args[0].split(".")[-1] == "NINF":
        return "-inf"
    if a.kind == "const" and isinstance(a.args[0], float) and a.args[0] in (float("inf"), float("-inf")):
        return "+inf" if a.args[0] > 0 else "-inf"
    if ext_name(a) == "builtins.float" and a.args[1] and a.args[1][0].kind == "const" and isinstance(a.args[1][0].args[0], str):
        v = a.args[1][0].args[0].strip().lower()
        if v in ("inf", "+inf", "infinity", "+infinity"):
            return "+inf"
        if v in ("-inf", "-infinity"):
            return "-inf"
    return None


def _branch_stmts(body):
    for st in body:
        yield st
        for fld in ("body", "orelse"):
            sub = getattr(st, fld, None)
            if isinstance(sub, list) and not isinstance(st, (ast.FunctionDef, ast.Lambda)):
                yield from _branch_stmts([x for x in sub if isinstance(x, ast.stmt)])


def _pure_relay(e: ast.expr):
    """'attr' when e is spec.<attr> or a shape-only wrapper (broadcast_to / asarray / array) of it."""
    if isinstance(e, ast.Attribute) and isinstance(e.value, ast.Name) and e.value.id == "spec":
        return e.attr
    if isinstance(e, ast.Call) and ast.unparse(e.func).split(".")[-1] in ("broadcast_to", "asarray", "array") and e.args:
        return _pure_relay(e.args[0])
    return None


def sp_props_inv(props):
    return {priv: pub for pub, priv in props.items() if priv is not None}


class _Undecidable(Exception):
    pass


def eq_truth_table(tree, ci: ClassInfo, eq: FuncInfo, names_override=None):
    """Evaluates the boolean skeleton of __eq__ over the comparison atoms `self.p == other.p` (one boolean variable per
    constructor parameter, whatever reduction wraps it) and the class guard isinstance(other, C): for operands of the
    same kind the result must be the conjunction of ALL atoms (2^k assignments, k <= 8); for another kind it must be
    NotImplemented / False.  Finite table evaluation of the code's own expression by the analyser; returns
    (verdict or None when the skeleton leaves the understood sub-language, detail)."""
    import itertools
    v = VFG(tree, Model(tree))
    self_t = mk("self", ci.qual)
    other = mk("param", eq.qual, eq.params[1])
    v.apply_func(eq, self_t, ci, [other], {}, None, None)
    _, _, props = spec_model(tree, ci)
    pub_of = {priv: pub for pub, priv in props.items() if priv is not None}

    def pair(a: T, b: T):
        for x, y in ((a, b), (b, a)):
            x0, y0 = strip_cast(x), strip_cast(y)
            if x0.kind == "attr" and x0.args[0] is self_t and y0.kind == "attr" and y0.args[0] is other:
                nx, ny = pub_of.get(x0.args[1], x0.args[1]), pub_of.get(y0.args[1], y0.args[1])
                if nx == ny:
                    return nx
        return None

    atoms = set()

    def ev(t: T, env):
        t = uncopy(strip_cast(t))
        k = t.kind
        if k == "const" and isinstance(t.args[0], bool):
            return t.args[0]
        if k == "ext" and t.args[0].endswith("NotImplemented"):
            return "NI"
        if k == "bool":
            vals = [ev(x, env) for x in t.args[1]]
            if any(x == "NI" for x in vals):
                raise _Undecidable("NotImplemented inside a boolean operation")
            return all(vals) if t.args[0] == "and" else any(vals)
        if k == "un" and t.args[0] in ("not", "~"):
            x = ev(t.args[1], env)
            if x == "NI":
                raise _Undecidable("not NotImplemented")
            return not x
        if k == "bin" and t.args[0] in ("&", "|"):
            a, b = ev(t.args[1], env), ev(t.args[2], env)
            return (a and b) if t.args[0] == "&" else (a or b)
        if k == "cmp" and t.args[0] in ("==", "!="):
            a = pair(t.args[1], t.args[2])
            if a is None:
                raise _Undecidable(f"comparison {txt(t, 3, 60)}")
            atoms.add(a)
            return env[a] if t.args[0] == "==" else not env[a]
        if k == "choice" and t.args[0] == "ifexp" and len(t.args[2]) == 2:
            return ev(t.args[2][0], env) if ev(t.args[1], env) else ev(t.args[2][1], env)
        n = ext_name(t)
        if n == "builtins.isinstance" and len(t.args[1]) == 2 and t.args[1][0] is other:
            return env["<guard>"]
        if n in ("jax.numpy.array_equal", "numpy.array_equal") and len(t.args[1]) == 2:
            a = pair(*t.args[1])
            if a is None:
                raise _Undecidable(f"array_equal {txt(t, 3, 60)}")
            atoms.add(a)
            return env[a]
        if n in ("jax.numpy.equal", "numpy.equal") and len(t.args[1]) == 2:
            a = pair(*t.args[1])
            if a is not None:
                atoms.add(a)
                return env[a]
        if n is not None and n.endswith("pytrees.is_equal_pytree") and len(t.args[1]) == 2:
            a = pair(*t.args[1])
            if a is not None:
                atoms.add(a)
                return env[a]
        if n in ("jax.numpy.all", "numpy.all", "builtins.all", "builtins.bool", "jax.numpy.asarray", "numpy.asarray") and t.args[1]:
            return ev(t.args[1][0], env)
        if k == "call" and t.args[0].kind == "attr" and t.args[0].args[1] in ("all", "item") and not t.args[1]:
            return ev(t.args[0].args[0], env)
        # a helper evaluated in line (e.g. the pytree equality of the children): when the term reads exactly one
        # attribute of self and the same attribute of other, it is the equality atom of that attribute (what the
        # helper computes is decided by C19.R2)
        reads_s = {x.args[1] for x in deps(t) if x.kind == "attr" and x.args[0] is self_t}
        reads_o = {x.args[1] for x in deps(t) if x.kind == "attr" and x.args[0] is other}
        if len(reads_s) == 1 and reads_s == reads_o and ("array_equal" in txt(t, 8, 4000) or "is_equal" in txt(t, 8, 4000)):
            a = pub_of.get(next(iter(reads_s)), next(iter(reads_s)))
            atoms.add(a)
            return env[a]
        raise _Undecidable(f"term {txt(t, 3, 60)}")

    rets = [(path, val) for kind, fn, node, path, val in v.exits if kind == "return" and fn is eq]
    if not rets:
        return None, "no return found"
    _, _, _props = spec_model(tree, ci)
    init = tree.find_method(ci, "__init__")
    params = init_params(init)
    names = list(names_override) if names_override is not None else list(params)
    try:
        # discover atoms first (all-true assignment), then enumerate
        def result(env):
            for path, val in rets:
                if all(bool(ev(t, env)) == pol for t, pol, _ in path):
                    return ev(val, env) if val is not None else None
            raise _Undecidable("no return path is taken")
        bad = []
        for g in (True, False):
            for bits in itertools.product((True, False), repeat=len(names)):
                env = dict(zip(names, bits))
                env["<guard>"] = g
                r = result(env)
                if g:
                    want = all(bits)
                    if r != want:
                        bad.append(f"same kind, {' '.join(n_ + ('=' if b else '!=') for n_, b in zip(names, bits))}: returns {r}, must be {want}")
                else:
                    if r not in ("NI", False):
                        bad.append(f"other kind: returns {r}, must be NotImplemented / False")
                if len(bad) >= 3:
                    break
        if bad:
            return False, "; ".join(bad[:3])
        return True, f"truth table over {names} (+ class guard): {2 ** (len(names) + 1)} rows, result = conjunction of all equalities"
    except _Undecidable as e:
        return None, f"skeleton not evaluated ({e})"
    except KeyError as e:
        return None, f"comparison of {e} which is not a constructor parameter"


def eq_facts_vfg(tree, ci: ClassInfo, eq: FuncInfo):
    """({attribute: reduced-before-truth-use?}, guard class name) from the value-flow graph of __eq__ --
    operator and functional forms (==, jnp.equal, array_equal, .all(), jnp.all) are all normalised."""
    v = VFG(tree, Model(tree))
    self_t = mk("self", ci.qual)
    other = mk("param", eq.qual, eq.params[1])
    r = uncopy(v.apply_func(eq, self_t, ci, [other], {}, None, None))
    alts = [x for x in (r.args[0] if r.kind == "phi" else (r,)) if not (x.kind == "ext" and x.args[0].endswith("NotImplemented"))]
    guard = None
    for e in v.events:
        if e.kind == "py_branch" and e.target is not None:
            for n in deps(e.target):
                if ext_name(n) == "builtins.isinstance" and len(n.args[1]) == 2 and n.args[1][0] is other and n.args[1][1].kind == "cls":
                    guard = n.args[1][1].args[0].split(".")[-1]
    compared: Dict[str, bool] = {}

    _, _, props = spec_model(tree, ci)
    pub_of = {priv: pub for pub, priv in props.items() if priv is not None}

    def pair(a: T, b: T):
        """public name of the attribute compared on both operands (private storage mapped back through the property)"""
        for x, y in ((a, b), (b, a)):
            x0, y0 = strip_cast(x), strip_cast(y)
            if x0.kind == "attr" and x0.args[0] is self_t and y0.kind == "attr" and y0.args[0] is other:
                nx, ny = pub_of.get(x0.args[1], x0.args[1]), pub_of.get(y0.args[1], y0.args[1])
                if nx == ny:
                    return nx
        return None

    def walk(t: T, truth_ctx: bool):
        """truth_ctx: t's own truth value is used (and-chain / not / bool()) without a reduction in between."""
        t0 = t
        if t.kind == "bool":
            for x in t.args[1]:
                walk(x, True)
            return
        if t.kind == "un" and t.args[0] == "not":
            walk(t.args[1], True)
            return
        if t.kind == "bin" and t.args[0] in ("&", "|"):
            walk(t.args[1], truth_ctx)
            walk(t.args[2], truth_ctx)
            return
        n = ext_name(t)
        if n == "builtins.bool" and t.args[1]:
            walk(t.args[1][0], True)
            return
        if n in ("jax.numpy.all", "numpy.all", "jax.numpy.any", "builtins.all") and t.args[1]:
            walk(t.args[1][0], False)
            return
        if n in ("jax.numpy.array_equal", "numpy.array_equal") and len(t.args[1]) == 2:
            a = pair(*t.args[1])
            if a:
                compared[a] = compared.get(a, True) and True
            return
        if n == "jumanji.testing.pytrees.is_equal_pytree":
            return
        if t.kind == "cmp" and t.args[0] in ("==", "!="):
            a = pair(t.args[1], t.args[2])
            if a:
                compared[a] = compared.get(a, True) and (not truth_ctx)
            return
        if t.kind == "choice":
            for x in t.args[2]:
                walk(x, truth_ctx)
            walk(t.args[1], True)
        if t.kind == "phi":        # the value of a helper with several returns
            for x in t.args[0]:
                walk(x, truth_ctx)

    for a in alts:
        walk(a, True)
    # guard-clause form: `if not (self.p == other.p): return False` -- the test of every python branch of __eq__
    # itself is a truth-value use of its comparisons
    for e in v.events:   # (v evaluated only __eq__: tests inside helpers it calls are part of the comparison)
        if e.kind == "py_branch" and e.target is not None:
            walk(uncopy(e.target), True)
    return compared, guard
