"""C16 -- specs form a consistent algebra (structural contracts of jumanji/specs.py)."""
from __future__ import annotations

import ast
from typing import Dict, List, Optional, Set, Tuple

from ..engine import VFG, get_tree
from ..loader import AnalysisError, ClassInfo, FuncInfo
from ..model import Model
from ..normal import ext_name, strip_cast
from ..report import Result
from ..terms import NONE, T, const, contains, deps, mk, uncopy
from .common import txt

EXPLANATION = (
    "Decided on jumanji/specs.py for Array, BoundedArray, DiscreteArray, MultiDiscreteArray and the nested Spec: (R1) "
    "replace contract -- every __init__ parameter has a same-named readable property returning the stored self._<name> "
    "(what _get_constructor_kwargs relies on), no *args/**kwargs; (R2) pickle contract -- __reduce__ returns (OwnClass, "
    "(self._p1, ...)) in __init__ parameter order; (R3) equality -- __eq__ guards on its own class, compares every "
    "__init__ parameter (so any difference in shape, dtype, bounds, num_values or name is distinguished), and every "
    "comparison of an array-valued attribute is reduced (.all()/array_equal) before being used as a truth value, as its "
    "siblings do; (R4) validate -- Array.validate rejects on shape != and dtype != through a raising helper; "
    "BoundedArray.validate first runs the parent check and raises iff (value < minimum).any() or (value > maximum).any() "
    "(strict comparators paired with the right bound => inclusive bounds); (R5) generate_value of a bounded spec is "
    "filled from its minimum; nested Spec.generate_value / validate / replace map over self._specs and rebuild through "
    "self._constructor; Spec.__eq__ compares the children of both operands; (R6) the two conversion functions test "
    "subclasses before superclasses and wire num_values/minimum/maximum/shape/dtype to the matching arguments. Not "
    "decided: the laws as universally quantified statements over values (membership agreement, reflexivity on NaN "
    "bounds, gym/dm_env membership) -- value-level.")

S = "jumanji.specs."
ARRAY_SPECS = ["Array", "BoundedArray", "DiscreteArray", "MultiDiscreteArray"]


def init_params(f: FuncInfo) -> List[str]:
    return [a.arg for a in f.node.args.args[1:]]


def returns_of(f: FuncInfo) -> List[ast.expr]:
    return [n.value for n in ast.walk(f.node) if isinstance(n, ast.Return) and n.value is not None]


def self_attr(e: ast.expr, base: str = "self") -> Optional[str]:
    if isinstance(e, ast.Attribute) and isinstance(e.value, ast.Name) and e.value.id == base:
        return e.attr
    return None


def array_kind_attrs(tree, ci: ClassInfo) -> Set[str]:
    """Public attribute names whose stored value is an array: assigned from jnp.asarray(...)-like calls in
    __init__, or an __init__ parameter annotated chex.Array stored as self._<name>."""
    out: Set[str] = set()
    for c in tree.mro(ci):
        init = c.methods.get("__init__")
        if init is None:
            continue
        arrayish: Set[str] = set()
        for a in init.node.args.args[1:]:
            if a.annotation is not None and ast.unparse(a.annotation).split(".")[-1] in ("Array", "ndarray", "ArrayNumpy"):
                arrayish.add(a.arg)
        for st in ast.walk(init.node):
            if isinstance(st, ast.Assign) and isinstance(st.value, ast.Call):
                q = tree.resolve_expr(c.module, st.value.func) or ""
                if q.startswith("jax.numpy.") or q.startswith("numpy."):
                    if q.split(".")[-1] in ("asarray", "array", "zeros_like", "ones_like", "full", "broadcast_to"):
                        for t in st.targets:
                            if isinstance(t, ast.Name):
                                arrayish.add(t.id)
        for st in ast.walk(init.node):
            if isinstance(st, ast.Assign):
                for t in st.targets:
                    nm = self_attr(t)
                    if nm and nm.startswith("_") and isinstance(st.value, ast.Name) and st.value.id in arrayish:
                        out.add(nm[1:])
    return out


def eq_facts(f: FuncInfo):
    """(compared attribute names, unreduced array comparisons [(attr, src)], guard class name)"""
    compared: Dict[str, ast.Compare] = {}
    for n in ast.walk(f.node):
        if isinstance(n, ast.Compare) and len(n.ops) == 1 and isinstance(n.ops[0], ast.Eq):
            a, b = self_attr(n.left), self_attr(n.comparators[0], "other")
            if a and a == b:
                compared[a] = n
    for n in ast.walk(f.node):
        if isinstance(n, ast.Call) and len(n.args) == 2 and ast.unparse(n.func).split(".")[-1] in ("array_equal", "is_equal_pytree"):
            a, b = self_attr(n.args[0]), self_attr(n.args[1], "other")
            if a and a == b and a not in compared:
                compared[a] = n  # an already reduced comparison
    guard = None
    for n in ast.walk(f.node):
        if isinstance(n, ast.Call) and isinstance(n.func, ast.Name) and n.func.id == "isinstance" and len(n.args) == 2 \
                and isinstance(n.args[0], ast.Name) and n.args[0].id == "other" and isinstance(n.args[1], ast.Name):
            guard = n.args[1].id
    return compared, guard


def is_reduced(f: FuncInfo, cmp: ast.Compare) -> bool:
    """The comparison result is reduced to a scalar before any truth-value use."""
    parents: Dict[int, ast.AST] = {}
    for n in ast.walk(f.node):
        for c in ast.iter_child_nodes(n):
            parents[id(c)] = n
    cur: ast.AST = cmp
    while id(cur) in parents:
        p = parents[id(cur)]
        if isinstance(p, ast.Attribute) and p.attr in ("all", "any"):
            return True
        if isinstance(p, ast.Call):
            fn = ast.unparse(p.func)
            if fn.split(".")[-1] in ("all", "array_equal", "any") and cur in p.args:
                return True
            if fn in ("bool",):
                cur = p
                continue
            return False
        if isinstance(p, (ast.BoolOp, ast.Return, ast.If, ast.IfExp, ast.UnaryOp)):
            return False
        cur = p
    return False


def check(tier: str) -> Result:
    tree = get_tree()
    res = Result(explanation=EXPLANATION)
    m = tree.modules.get("jumanji.specs")
    if m is None:
        raise AnalysisError("module jumanji.specs not found")
    classes = {}
    for n in ARRAY_SPECS + ["Spec"]:
        ci = m.classes.get(n)
        if ci is None:
            raise AnalysisError(f"anchor {S}{n} not found")
        classes[n] = ci
    # ------------------------------------------------------------------ R1 / R2 / R3 per array spec
    for n in ARRAY_SPECS:
        ci = classes[n]
        init = tree.find_method(ci, "__init__")
        if init is None or init.cls is not ci:
            raise AnalysisError(f"{n}.__init__ not found")
        params = init_params(init)
        a = init.node.args
        res.add("C16.R1", init.loc(), f"specs.{n}.__init__", "no *args / **kwargs in the constructor", a.vararg is None and a.kwarg is None,
                f"parameters {params}")
        stored: Set[str] = set()
        for c in tree.mro(ci):
            i2 = c.methods.get("__init__")
            if i2 is not None:
                for st in ast.walk(i2.node):
                    if isinstance(st, ast.Assign):
                        for t in st.targets:
                            nm = self_attr(t)
                            if nm:
                                stored.add(nm)
        for p in params:
            prop = tree.find_method(ci, p)
            ok = False
            why = "no readable attribute of that name"
            if prop is not None and prop.is_property:
                rets = returns_of(prop)
                ok = len(rets) == 1 and self_attr(rets[0]) == "_" + p and ("_" + p) in stored
                why = f"property returns {ast.unparse(rets[0]) if rets else None}; self._{p} stored by __init__: {('_' + p) in stored}"
            res.add("C16.R1", (prop or init).loc(), f"specs.{n}", f"constructor parameter '{p}' is readable back as self.{p} -> self._{p}", ok, why)
        red = ci.methods.get("__reduce__") or tree.find_method(ci, "__reduce__")
        ok = False
        why = "no __reduce__"
        if red is not None:
            rets = returns_of(red)
            if red.cls is not ci:
                why = f"inherits {red.cls.name}.__reduce__, which rebuilds a {red.cls.name}"
            elif len(rets) == 1 and isinstance(rets[0], ast.Tuple) and len(rets[0].elts) == 2 and isinstance(rets[0].elts[1], ast.Tuple):
                cls_e, args_e = rets[0].elts
                names = [self_attr(x) for x in args_e.elts]
                ok = isinstance(cls_e, ast.Name) and cls_e.id == n and names == ["_" + p for p in params]
                why = f"returns ({ast.unparse(cls_e)}, {names}); constructor order {params}"
        res.add("C16.R2", (red or init).loc(), f"specs.{n}.__reduce__", "__reduce__ = (OwnClass, (self._p...)) in constructor order", ok, why)
        eq = ci.methods.get("__eq__")
        if eq is None:
            inh = tree.find_method(ci, "__eq__")
            res.add("C16.R3", ci.loc(), f"specs.{n}.__eq__", "own __eq__ comparing all constructor parameters", False,
                    f"inherits {inh.cls.name if inh else None}.__eq__, which ignores {sorted(set(params))}")
            continue
        compared, guard = eq_facts_vfg(tree, ci, eq)
        missing = [p for p in params if p not in compared]
        res.add("C16.R3", eq.loc(), f"specs.{n}.__eq__", "equality compares every constructor parameter", not missing,
                f"compares {sorted(compared)}" if not missing else f"does not compare {missing}: specs differing only there are equal")
        res.add("C16.R3", eq.loc(), f"specs.{n}.__eq__", "equality guards on its own class", guard == n, f"isinstance(other, {guard})")
        arr = array_kind_attrs(tree, ci)
        for attr, okr in sorted(compared.items()):
            if attr in arr:
                res.add("C16.R3", eq.loc(), f"specs.{n}.__eq__", f"array comparison self.{attr} == other.{attr} is reduced before truth-value use", okr,
                        "reduced with all()/array_equal" if okr else "an element-wise array comparison is used directly as a truth value: raises for non-scalar values (sibling classes reduce it)")
    # ------------------------------------------------------------------ R4 validate
    av = classes["Array"].methods.get("validate")
    fv = classes["Array"].methods.get("_fail_validation")
    if av is None or fv is None:
        raise AnalysisError("Array.validate/_fail_validation not found")
    raises = any(isinstance(n, ast.Raise) for n in fv.node.body) or any(isinstance(n, ast.Raise) for n in ast.walk(fv.node))
    res.add("C16.R4", fv.loc(), "specs.Array._fail_validation", "the failure helper raises unconditionally",
            raises and isinstance(fv.node.body[-1], ast.Raise), "last statement is raise" if raises else "no raise")
    vv = VFG(tree, Model(tree))
    arr_c = classes["Array"]
    self_a = mk("self", arr_c.qual)
    val = mk("param", av.qual, av.params[1])
    vv.apply_func(av, self_a, arr_c, [val], {}, None, None)
    tests = {}
    for e in vv.events:
        if e.kind == "py_branch" and e.name == "if" and e.func is av and isinstance(e.node, ast.If):
            t = uncopy(e.target)
            fails = any(isinstance(x, ast.Call) and self_attr(x.func) == "_fail_validation" for st in e.node.body for x in ast.walk(st)) or \
                any(isinstance(st, ast.Raise) for st in e.node.body)
            if t.kind == "cmp" and t.args[0] in ("!=", "=="):
                sides = [t.args[1], t.args[2]]
                names = set()
                for x in sides:
                    if x.kind == "attr":
                        names.add(x.args[1].lstrip("_"))
                if len(names) == 1 and any(x.kind == "attr" and x.args[0] is self_a for x in sides) and any(x.kind == "attr" and contains(x, val) for x in sides):
                    tests[names.pop()] = (t.args[0], fails)
    for attr in ("shape", "dtype"):
        t = tests.get(attr)
        res.add("C16.R4", av.loc(), "specs.Array.validate", f"rejects when value.{attr} != self.{attr}", t == ("!=", True), f"test {t}")
    bv = classes["BoundedArray"].methods.get("validate")
    if bv is None:
        raise AnalysisError("BoundedArray.validate not found")
    vb = VFG(tree, Model(tree))
    b_c = classes["BoundedArray"]
    self_b = mk("self", b_c.qual)
    valb = mk("param", bv.qual, bv.params[1])
    vb.apply_func(bv, self_b, b_c, [valb], {}, None, None)
    sup = any(e.kind == "py_branch" and e.func is av for e in vb.events)
    res.add("C16.R4", bv.loc(), "specs.BoundedArray.validate", "runs the parent shape/dtype validation first", sup, "Array.validate is executed" if sup else "parent validation skipped")
    found = {}
    fails = is_or = False
    from ..normal import disjuncts
    for e in vb.events:
        if e.kind == "py_branch" and e.name == "if" and e.func is bv and isinstance(e.node, ast.If):
            t = uncopy(e.target)
            ds = disjuncts(t)
            fails = any(isinstance(x, ast.Call) and self_attr(x.func) == "_fail_validation" for st in e.node.body for x in ast.walk(st)) or \
                any(isinstance(st, ast.Raise) for st in e.node.body)
            is_or = len(ds) == 2
            for d in ds:
                d0 = strip_cast(d)
                red = ext_name(d0) in ("jax.numpy.any", "numpy.any", "builtins.any")
                c = strip_cast(d0.args[1][0]) if red and d0.args[1] else d0
                if c.kind == "cmp" and c.args[0] in ("<", "<=", ">", ">="):
                    op, a, b = c.args
                    bound = None
                    for side, other in ((b, a), (a, b)):
                        if side.kind == "attr" and side.args[0] is self_b and side.args[1].lstrip("_") in ("minimum", "maximum") and contains(other, valb):
                            bound = side.args[1].lstrip("_")
                            if side is a:  # bound written on the left: normalise to `value OP bound`
                                op = {"<": ">", ">": "<", "<=": ">=", ">=": "<="}[op]
                    if bound:
                        found[bound] = (op, red)
    res.add("C16.R4", bv.loc(), "specs.BoundedArray.validate", "raises iff any(value < minimum) or any(value > maximum) (inclusive bounds)",
            found.get("minimum") == ("<", True) and found.get("maximum") == (">", True) and fails and is_or,
            f"comparators {found}; joined by or: {is_or}; leads to failure: {fails}")
    # ------------------------------------------------------------------ R5 generate / nested spec
    binit = classes["BoundedArray"].methods["__init__"]
    ctor = None
    for st in ast.walk(binit.node):
        if isinstance(st, ast.Assign) and any(self_attr(t) == "_constructor" for t in st.targets) and isinstance(st.value, ast.Lambda):
            ctor = st.value.body
    ok = isinstance(ctor, ast.Call) and ast.unparse(ctor.func).split(".")[-1] == "full" and len(ctor.args) >= 2 and \
        isinstance(ctor.args[1], ast.Name) and ctor.args[1].id in ("minimum", "maximum")
    res.add("C16.R5", binit.loc(), "specs.BoundedArray.__init__", "generate_value of a bounded spec is filled from one of its bounds", bool(ok),
            ast.unparse(ctor) if ctor is not None else "no constructor lambda")
    vfg = VFG(tree, Model(tree))
    sp = classes["Spec"]
    self_t = mk("self", sp.qual)
    specs_t = mk("attr", self_t, "_specs")
    ctor_t = mk("attr", self_t, "_constructor")
    gv = sp.methods.get("generate_value")
    r = uncopy(vfg.apply_func(gv, self_t, sp, [], {}, None, None)) if gv else NONE
    ok = False
    if r.kind == "call" and r.args[0] is ctor_t:
        kw = dict(r.args[2]).get("**")
        if kw is not None and ext_name(kw) in ("jax.tree_util.tree_map", "jax.tree_map") and len(kw.args[1]) == 2 and kw.args[1][1] is specs_t:
            body = kw.args[1][0]
            ok = body.kind == "call" and body.args[0].kind == "attr" and body.args[0].args[1] == "generate_value" and body.args[0].args[0] is mk("leaf", specs_t)
    res.add("C16.R5", gv.loc() if gv else sp.loc(), "specs.Spec.generate_value", "constructor(**tree_map(child.generate_value, self._specs))", ok, txt(r, 6, 200))
    vd = sp.methods.get("validate")
    val = mk("param", vd.qual, vd.params[1])
    r = uncopy(vfg.apply_func(vd, self_t, sp, [val], {}, None, None))
    ok = False
    lv = [x for x in (r.args[0] if r.kind == "phi" else (r,))]
    good = 0
    for x in lv:
        if x.kind == "call" and x.args[0] is ctor_t:
            kw = dict(x.args[2]).get("**")
            if kw is not None and ext_name(kw) in ("jax.tree_util.tree_map", "jax.tree_map") and len(kw.args[1]) == 3:
                body, t1, t2 = kw.args[1]
                if body.kind == "call" and body.args[0].kind == "attr" and body.args[0].args[1] == "validate" and contains(t1, specs_t) \
                        and body.args[0].args[0] is mk("leaf", t1) and body.args[1] == (mk("leaf", t2),) and contains(t2, val):
                    good += 1
    ok = good == len(lv) and good > 0
    res.add("C16.R5", vd.loc(), "specs.Spec.validate", "constructor(**tree_map(child.validate(value_child), self._specs, value fields))", ok, txt(r, 5, 240))
    rp = sp.methods.get("replace")
    kwp = mk("param", rp.qual, "kwargs")
    r = uncopy(vfg.apply_func(rp, self_t, sp, [], {"**": kwp}, None, None))
    ok = False
    if r.kind == "new" and r.args[0] == sp.qual and len(r.args[1]) >= 1 and r.args[1][0] is ctor_t:
        kw = dict(r.args[2]).get("**")
        if kw is not None and ext_name(kw) == "builtins.mutated.update" and len(kw.args[1]) == 2:
            base, upd = kw.args[1]
            ok = ext_name(base) in ("copy.deepcopy", "copy.copy", "builtins.dict") and base.args[1] and base.args[1][0] is specs_t and upd is kwp
    res.add("C16.R5", rp.loc(), "specs.Spec.replace", "Spec(self._constructor, name, **(copy of self._specs updated with kwargs))", ok, txt(r, 6, 240))
    eq = sp.methods.get("__eq__")
    oth = mk("param", eq.qual, eq.params[1])
    r = uncopy(vfg.apply_func(eq, self_t, sp, [oth], {}, None, None))
    lv = [x for x in (r.args[0] if r.kind == "phi" else (r,)) if not (x.kind == "ext" and x.args[0].endswith("NotImplemented"))]
    ok = len(lv) == 1 and contains(lv[0], specs_t) and contains(lv[0], mk("attr", oth, "_specs"))
    res.add("C16.R5", eq.loc(), "specs.Spec.__eq__", "nested specs are equal exactly when their children (self._specs, other._specs) are", ok, txt(r, 6, 200))
    # ------------------------------------------------------------------ R6 conversions
    n_conv = conversion_obligations(res, tree, "C16.R6")
    res.analysed = {"classes": ARRAY_SPECS + ["Spec"], "conversion_branches": n_conv}
    res.assumptions = ["properties are the only readers used by replace (inspect.signature + getattr)",
                       "element-wise == on jax arrays yields an array whose truth value is defined only for size 1"]
    return res


def is_any_reduced(test: ast.expr, cmp: ast.Compare) -> bool:
    for n in ast.walk(test):
        if isinstance(n, ast.Call) and isinstance(n.func, ast.Attribute) and n.func.attr == "any" and any(c is cmp for c in ast.walk(n.func.value)):
            return True
        if isinstance(n, ast.Call) and ast.unparse(n.func).split(".")[-1] == "any" and any(c is cmp for a in n.args for c in ast.walk(a)):
            return True
    return False


CONV = {"jumanji_specs_to_dm_env_specs": {"DiscreteArray": {"num_values": "num_values", "dtype": "dtype"},
                                          "BoundedArray": {"shape": "shape", "dtype": "dtype", "minimum": "minimum", "maximum": "maximum"},
                                          "Array": {"shape": "shape", "dtype": "dtype"}},
        "jumanji_specs_to_gym_spaces": {"DiscreteArray": {"n": "num_values"}, "MultiDiscreteArray": {"nvec": "num_values"},
                                        "BoundedArray": {"low": "minimum", "high": "maximum", "shape": "shape", "dtype": "dtype"},
                                        "Array": {"shape": "shape", "dtype": "dtype"}}}


def conversion_obligations(res: Result, tree, rule: str) -> int:
    m = tree.modules["jumanji.specs"]
    count = 0
    for fname, table in CONV.items():
        f = m.functions.get(fname)
        if f is None:
            raise AnalysisError(f"anchor {S}{fname} not found")
        # isinstance chain
        chain: List[Tuple[str, ast.If]] = []
        node = None
        for st in f.node.body:
            if isinstance(st, ast.If):
                node = st
                break
        while isinstance(node, ast.If):
            t = node.test
            if isinstance(t, ast.Call) and isinstance(t.func, ast.Name) and t.func.id == "isinstance" and len(t.args) == 2 and isinstance(t.args[1], ast.Name):
                chain.append((t.args[1].id, node))
            nxt = node.orelse
            last_else = nxt
            node = nxt[0] if len(nxt) == 1 and isinstance(nxt[0], ast.If) else None
        names = [c for c, _ in chain]
        for i, (cn, nd) in enumerate(chain):
            ci = tree.classes.get(S + cn)
            if ci is None:
                continue
            shadowed = [later for later in names[i + 1:] if tree.classes.get(S + later) is not None and
                        tree.is_subclass(tree.classes[S + later], ci.qual) and later != cn]
            res.add(rule, f"{m.relpath}:{nd.lineno}", f"specs.{fname}", f"branch isinstance(spec, {cn}) does not shadow a later subclass branch", not shadowed,
                    "order ok" if not shadowed else f"{shadowed} can never be reached: they are subclasses of {cn}")
            count += 1
            want = table.get(cn)
            if want:
                # the branch returns a call wiring attributes (possibly through local variables)
                local: Dict[str, str] = {}
                impure: Dict[str, str] = {}
                ret = None
                for st in ast.walk(nd):
                    if st is not nd and isinstance(st, ast.If) and st in getattr(nd, "orelse", []):
                        continue
                for st in _branch_stmts(nd.body):
                    if isinstance(st, (ast.Assign, ast.AugAssign)) and isinstance(st.targets[0] if isinstance(st, ast.Assign) else st.target, ast.Name):
                        tgt = (st.targets[0] if isinstance(st, ast.Assign) else st.target).id
                        val = st.value
                        pure = isinstance(st, ast.Assign) and _pure_relay(val)
                        if tgt in local or tgt in impure or not pure:
                            impure[tgt] = ast.unparse(st)[:70]
                        if pure:
                            local.setdefault(tgt, pure)
                    if isinstance(st, ast.Return) and ret is None:
                        ret = st.value
                ok = False
                why = "no returned call"
                if isinstance(ret, ast.Call):
                    got = {}
                    for k in ret.keywords:
                        v = k.value
                        if isinstance(v, ast.Attribute) and isinstance(v.value, ast.Name) and v.value.id == "spec":
                            got[k.arg] = v.attr
                        elif isinstance(v, ast.Name) and v.id in impure:
                            got[k.arg] = f"<{v.id} modified before use: {impure[v.id]}>"
                        elif isinstance(v, ast.Name) and v.id in local:
                            got[k.arg] = local[v.id]
                    bad = {k: (got.get(k), v) for k, v in want.items() if got.get(k) != v}
                    ok = not bad
                    why = f"wiring {got}" if ok else f"mis-wired {bad}"
                res.add(rule, f"{m.relpath}:{nd.lineno}", f"specs.{fname}", f"{cn} branch wires {want}", ok, why)
                count += 1
        missing = [c for c in table if c not in names]
        res.add(rule, f.loc(), f"specs.{fname}", "every array spec kind has a conversion branch", not missing, f"branches {names}" if not missing else f"missing {missing}")
        count += 1
        # nested: recursion over children
        rec = any(isinstance(n, ast.Call) and isinstance(n.func, ast.Name) and n.func.id == fname for n in ast.walk(f.node))
        res.add(rule, f.loc(), f"specs.{fname}", "nested specs are converted recursively child by child", rec, "recursive call present" if rec else "no recursion")
        count += 1
    return count


def _branch_stmts(body):
    for st in body:
        yield st
        for fld in ("body", "orelse"):
            sub = getattr(st, fld, None)
            if isinstance(sub, list) and not isinstance(st, (ast.FunctionDef, ast.Lambda)):
                yield from _branch_stmts([x for x in sub if isinstance(x, ast.stmt)])


def _pure_relay(e: ast.expr):
    """'attr' when e is spec.<attr> or a shape-only wrapper (broadcast_to / asarray / array) of it."""
    if isinstance(e, ast.Attribute) and isinstance(e.value, ast.Name) and e.value.id == "spec":
        return e.attr
    if isinstance(e, ast.Call) and ast.unparse(e.func).split(".")[-1] in ("broadcast_to", "asarray", "array") and e.args:
        return _pure_relay(e.args[0])
    return None


def eq_facts_vfg(tree, ci: ClassInfo, eq: FuncInfo):
    """({attribute: reduced-before-truth-use?}, guard class name) from the value-flow graph of __eq__ --
    operator and functional forms (==, jnp.equal, array_equal, .all(), jnp.all) are all normalised."""
    v = VFG(tree, Model(tree))
    self_t = mk("self", ci.qual)
    other = mk("param", eq.qual, eq.params[1])
    r = uncopy(v.apply_func(eq, self_t, ci, [other], {}, None, None))
    alts = [x for x in (r.args[0] if r.kind == "phi" else (r,)) if not (x.kind == "ext" and x.args[0].endswith("NotImplemented"))]
    guard = None
    for e in v.events:
        if e.kind == "py_branch" and e.target is not None:
            for n in deps(e.target):
                if ext_name(n) == "builtins.isinstance" and len(n.args[1]) == 2 and n.args[1][0] is other and n.args[1][1].kind == "cls":
                    guard = n.args[1][1].args[0].split(".")[-1]
    compared: Dict[str, bool] = {}

    def pair(a: T, b: T):
        for x, y in ((a, b), (b, a)):
            x0, y0 = strip_cast(x), strip_cast(y)
            if x0.kind == "attr" and x0.args[0] is self_t and y0.kind == "attr" and y0.args[0] is other \
                    and x0.args[1].lstrip("_") == y0.args[1].lstrip("_"):
                return x0.args[1].lstrip("_")
        return None

    def walk(t: T, truth_ctx: bool):
        """truth_ctx: t's own truth value is used (and-chain / not / bool()) without a reduction in between."""
        t0 = t
        if t.kind == "bool":
            for x in t.args[1]:
                walk(x, True)
            return
        if t.kind == "un" and t.args[0] == "not":
            walk(t.args[1], True)
            return
        if t.kind == "bin" and t.args[0] in ("&", "|"):
            walk(t.args[1], truth_ctx)
            walk(t.args[2], truth_ctx)
            return
        n = ext_name(t)
        if n == "builtins.bool" and t.args[1]:
            walk(t.args[1][0], True)
            return
        if n in ("jax.numpy.all", "numpy.all", "jax.numpy.any", "builtins.all") and t.args[1]:
            walk(t.args[1][0], False)
            return
        if n in ("jax.numpy.array_equal", "numpy.array_equal") and len(t.args[1]) == 2:
            a = pair(*t.args[1])
            if a:
                compared[a] = compared.get(a, True) and True
            return
        if n == "jumanji.testing.pytrees.is_equal_pytree":
            return
        if t.kind == "cmp" and t.args[0] == "==":
            a = pair(t.args[1], t.args[2])
            if a:
                compared[a] = compared.get(a, True) and (not truth_ctx)
            return
        if t.kind == "choice":
            for x in t.args[2]:
                walk(x, truth_ctx)

    for a in alts:
        walk(a, True)
    return compared, guard
