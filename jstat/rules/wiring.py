"""Constructor wiring rules shared by several properties.

W1 (parameter crossing): in any `__init__`, `self.<a> = <b>` where b is a bare parameter and a (leading
    underscores stripped) is the name of a DIFFERENT parameter of the same constructor stores one configuration
    value under another one's name (e.g. `self.invalid_action_reward = revealed_mine_reward`).
W2 (axis naming of derived attributes): `self.<name> = <expr>` where the attribute's name says rows/height (or
    cols/width) and every extent named in the expression says the other axis
    (e.g. `self.padded_num_cols = num_rows + 3`).
Both are facts about names the constructor itself chose; a class is an instance when it has at least two
parameters (W1) / mentions an axis word (W2)."""
from __future__ import annotations

import ast
from typing import Callable, List

from ..loader import ClassInfo, Tree, short

ROW_WORDS = ("row", "height")
COL_WORDS = ("col", "width")


def _axis_of_name(n: str):
    n = n.lower()
    r = any(w in n for w in ROW_WORDS)
    c = any(w in n for w in COL_WORDS)
    if r and not c:
        return 0
    if c and not r:
        return 1
    return None


def add_obligations(res, tree: Tree, rule: str, select: Callable[[ClassInfo], bool]) -> int:
    n = 0
    for q, ci in sorted(tree.classes.items()):
        if not select(ci):
            continue
        init = ci.methods.get("__init__")
        if init is None:
            continue
        a = init.node.args
        params = [x.arg for x in a.args[1:] + a.kwonlyargs]
        pset = set(params)
        crossings = []
        direct = 0
        axis_bad = []
        axis_ok = 0
        for st in ast.walk(init.node):
            if not isinstance(st, (ast.Assign, ast.AnnAssign)) or getattr(st, "value", None) is None:
                continue
            targets = st.targets if isinstance(st, ast.Assign) else [st.target]
            for t in targets:
                if not (isinstance(t, ast.Attribute) and isinstance(t.value, ast.Name) and t.value.id == "self"):
                    continue
                attr = t.attr.lstrip("_")
                v = st.value
                # W1
                src = None
                if isinstance(v, ast.Name) and v.id in pset:
                    src = v.id
                elif isinstance(v, ast.BoolOp) and isinstance(v.op, ast.Or) and isinstance(v.values[0], ast.Name) and v.values[0].id in pset:
                    src = v.values[0].id
                if src is not None and attr in pset:
                    if attr == src:
                        direct += 1
                    else:
                        crossings.append((t.attr, src, st.lineno))
                # W2
                ax = _axis_of_name(attr)
                if ax is not None:
                    named = [_axis_of_name(x.id if isinstance(x, ast.Name) else x.attr) for x in ast.walk(v)
                             if isinstance(x, (ast.Name, ast.Attribute)) and not (isinstance(x, ast.Name) and x.id == "self")]
                    named = [x for x in named if x is not None]
                    if named:
                        if all(x != ax for x in named):
                            axis_bad.append((t.attr, ast.unparse(v)[:60], st.lineno))
                        elif all(x == ax for x in named):
                            axis_ok += 1
        if len(params) >= 2 and (direct or crossings):
            res.add(rule, init.loc(), short(ci.qual) + ".__init__", "constructor parameters are stored under their own names (no crossing)", not crossings,
                    f"{direct} direct wirings" if not crossings else "; ".join(f"self.{a_} = {b} (line {ln}) stores parameter '{b}' under the name of parameter '{a_.lstrip('_')}'" for a_, b, ln in crossings))
            n += 1
        if axis_ok or axis_bad:
            res.add(rule, init.loc(), short(ci.qual) + ".__init__", "row/height and column/width attributes are derived from extents of their own axis", not axis_bad,
                    f"{axis_ok} consistent" if not axis_bad else "; ".join(f"self.{a_} = {e} (line {ln})" for a_, e, ln in axis_bad))
            n += 1
    return n


def class_state_writes(res, tree: Tree, rule: str, select: Callable[[ClassInfo], bool]) -> int:
    """W3: constructors (and every other method of the selected classes) never write class-level or module-level
    state: `<Class>.attr = ...`, `type(self).attr = ...`, `self.__class__.attr = ...`, `cls.attr = ...` outside
    classmethods used as alternative constructors, `global` rebinding, or mutation of a class-level container.
    Such a write couples separately constructed instances (two make(id) calls would no longer be equivalent)."""
    n = 0
    for q, ci in sorted(tree.classes.items()):
        if not select(ci):
            continue
        bad = []
        scanned = 0
        for name, f in ci.methods.items():
            scanned += 1
            for st in ast.walk(f.node):
                targets = []
                if isinstance(st, ast.Assign):
                    targets = st.targets
                elif isinstance(st, (ast.AugAssign, ast.AnnAssign)):
                    targets = [st.target]
                elif isinstance(st, ast.Global):
                    bad.append((name, "global " + ", ".join(st.names), st.lineno))
                for t in targets:
                    base = t
                    while isinstance(base, (ast.Attribute, ast.Subscript)):
                        inner = base.value
                        if isinstance(base, ast.Attribute) or isinstance(base, ast.Subscript):
                            if isinstance(inner, ast.Name) and isinstance(t, (ast.Attribute, ast.Subscript)):
                                owner = inner.id
                                q2 = tree.resolve_name(ci.module, owner)
                                is_cls = owner == ci.name or (q2 in tree.classes) or owner == "cls"
                                if is_cls and owner != "self":
                                    bad.append((name, ast.unparse(t)[:60], st.lineno))
                            if isinstance(inner, ast.Call) and isinstance(inner.func, ast.Name) and inner.func.id == "type":
                                bad.append((name, ast.unparse(t)[:60], st.lineno))
                            if isinstance(inner, ast.Attribute) and inner.attr == "__class__":
                                bad.append((name, ast.unparse(t)[:60], st.lineno))
                        base = inner
        res.add(rule, ci.loc(), short(ci.qual), "no method writes class-level or module-level state (instances stay independent)", not bad,
                f"{scanned} methods scanned" if not bad else "; ".join(f"{m}: {w} (line {ln})" for m, w, ln in bad[:4]))
        n += 1
    return n


_DEPS = {}


def _deps_cached(t):
    from ..terms import deps
    if t.id not in _DEPS:
        _DEPS[t.id] = list(deps(t))
    return _DEPS[t.id]


def _is_version_of(new, old) -> bool:
    """`new` is `old` after in-place style updates only: a chain of .at[...].set/add(...) calls, record updates,
    casts and copies that starts at `old` (so both denote the same array / record at two moments)."""
    from ..normal import strip_cast
    from ..terms import uncopy
    t = new
    for _ in range(12):
        t = uncopy(strip_cast(t))
        if t is old:
            return True
        if t.kind == "call" and t.args[0].kind == "attr" and t.args[0].args[1] in ("set", "add", "multiply", "min", "max", "astype"):
            base = t.args[0].args[0]
            if t.args[0].args[1] == "astype":
                t = base
                continue
            # x.at[idx].set(v): base is index(attr(x, 'at'), idx)
            if base.kind == "index" and base.args[0].kind == "attr" and base.args[0].args[1] == "at":
                t = base.args[0].args[0]
                continue
            return False
        if t.kind == "update":
            t = t.args[0]
            continue
        return False
    return False


def paired_call_args(res, tree: Tree, rule: str, role: str, select_env: Callable[[ClassInfo], bool]) -> int:
    """W4 (sibling call sites): a helper that `reset` calls with exactly the value it stores in state field f is,
    when `step` calls it too, given the value step stores in f -- never the superseded `state.f` of the incoming
    state while step replaces f.  `role` selects the call sites: 'mask' = the call result reaches a *mask* field of
    the new state or observation, 'state' = every other call site.  Sites where step passes something else (an
    intermediate value) are counted and silent."""
    from ..engine import analyse_env
    from ..terms import contains, uncopy
    from .common import environments, txt
    n = 0
    for ci in environments(tree):
        if not select_env(ci):
            continue
        ea = analyse_env(tree, ci)
        if ea.state_cls is None:
            continue
        vfg = ea.vfg
        reset = tree.find_method(ci, "reset")
        step = tree.find_method(ci, "step")
        fields = tree.fields(ea.state_cls)
        R = {f: uncopy(vfg.mk_attr(ea.reset_state, f)) for f in fields}
        N = {f: uncopy(vfg.mk_attr(ea.step_state, f)) for f in fields}
        O = {f: vfg.mk_attr(ea.state, f) for f in fields}
        mask_sinks = [N[f] for f in fields if "mask" in f]
        obs = vfg.mk_attr(ea.step_ts, "observation")
        if ea.obs_cls is not None:
            mask_sinks += [vfg.mk_attr(obs, f) for f in tree.fields(ea.obs_cls) if "mask" in f]
        rs, ss = {}, {}
        for f, vars_, caller, node, result in vfg.callsites:
            if caller is reset:
                rs.setdefault(f.qual, []).append((vars_, node))
            if caller is step:
                ss.setdefault(f.qual, []).append((vars_, node, result, f))
        for q in sorted(rs):
            for b, bnode, bres, bf in ss.get(q, []):
                is_mask = bres is not None and any(contains(m, uncopy(bres)) for m in mask_sinks)
                if (role == "mask") != is_mask:
                    continue
                for a, _ in rs[q]:
                    for pn in a:
                        if pn not in b or pn == "self":
                            continue
                        ra, sb = uncopy(a[pn]), uncopy(b[pn])
                        for f in fields:
                            # mirrored direction: step hands the helper the value it stores in state.f, reset hands it an
                            # earlier version of the value it stores in state.f (the stored value is built from it)
                            if sb is N[f] and N[f] is not O[f] and ra is not R[f] and ra.kind not in ("const", "self", "param") \
                                    and R[f].kind not in ("const",) and ra in set(_deps_cached(R[f])) and _is_version_of(R[f], ra):
                                rsite = f"{reset.module.relpath}:{getattr(_, 'lineno', reset.node.lineno)}"
                                res.add(rule, rsite, f"{ci.name}.reset -> {short(q)}({pn}=...)",
                                        f"step passes the value it stores in state.{f}; reset passes the value it stores in state.{f}, not an earlier version of it", False,
                                        f"reset passes {txt(ra, 2, 60)}, from which the stored state.{f} = {txt(R[f], 2, 60)} is only built afterwards")
                                n += 1
                            if R[f] is not ra or N[f] is O[f]:
                                continue
                            stale = sb is O[f]
                            site = f"{step.module.relpath}:{getattr(bnode, 'lineno', step.node.lineno)}"
                            res.add(rule, site, f"{ci.name}.step -> {short(q)}({pn}=...)",
                                    f"reset passes the value it stores in state.{f}; step passes the value it stores in state.{f} "
                                    f"(or an intermediate), not the superseded incoming state.{f}", not stale,
                                    "fresh" if sb is N[f] else ("superseded state." + f if stale else "intermediate value " + txt(sb, 2, 60)))
                            n += 1
    return n
