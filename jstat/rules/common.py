"""Helpers shared by the rule modules."""
from __future__ import annotations

from typing import Dict, List, Optional, Tuple

from ..engine import EnvAnalysis, VFG, analyse_env, get_tree
from ..loader import AnalysisError, ClassInfo, FuncInfo, Tree, short
from ..model import Model
from ..normal import conjuncts, disjuncts, ext_name, strip_cast
from ..terms import NONE, T, const, mk, show

MIN_ENVS = 23

TIME_LIMITED = ["RubiksCube", "SlidingTilePuzzle", "Tetris", "Cleaner", "Connector", "LevelBasedForaging",
                "Maze", "MMST", "PacMan", "RobotWarehouse", "Snake", "Sokoban"]


def environments(tree: Tree) -> List[ClassInfo]:
    envs = tree.environment_classes()
    if len(envs) < MIN_ENVS:
        raise AnalysisError(f"only {len(envs)} environment classes found (hand-confirmed minimum {MIN_ENVS})")
    return envs


def analyses(tree: Tree) -> List[EnvAnalysis]:
    return [analyse_env(tree, ci) for ci in environments(tree)]


def step_types(vfg: VFG) -> Dict[str, T]:
    out = {}
    for n in ("FIRST", "MID", "LAST"):
        t = vfg.resolve_qual("jumanji.types.StepType." + n)
        if t.kind == "ext":
            raise AnalysisError(f"anchor jumanji.types.StepType.{n} not found")
        out[n] = t
    return out


def leaves(t: T) -> List[Tuple[T, Tuple]]:
    """Leaves of a value through choice / phi, with the path of (how, pred, index)."""
    out = []

    def walk(x: T, path):
        if x.kind == "choice":
            for i, a in enumerate(x.args[2]):
                walk(a, path + ((x.args[0], x.args[1], i),))
        elif x.kind == "phi":
            for i, a in enumerate(x.args[0]):
                walk(a, path + (("phi", None, i),))
        else:
            out.append((x, path))

    walk(t, ())
    return out


def timestep_kind(vfg: VFG, ts: T, st: Dict[str, T]) -> Optional[str]:
    """'FIRST' | 'MID' | 'LAST' for a TimeStep construct leaf, None if not a constant step type."""
    if ts.kind != "construct" or not ts.args[0].endswith("types.TimeStep"):
        return None
    v = vfg.mk_attr(ts, "step_type")
    for n, t in st.items():
        if v is t:
            return n
    return None


def subtree_kinds(vfg: VFG, t: T, st) -> set:
    return {timestep_kind(vfg, l, st) for l, _ in leaves(t)}


def last_conditions(ea: EnvAnalysis) -> List[T]:
    """Terms each of which, when true, makes `step` return a LAST timestep.  Derived from the
    structure of the returned timestep; AnalysisError when the structure is not understood."""
    vfg = ea.vfg
    st = step_types(vfg)
    ts = ea.step_ts
    name = ea.cls.name
    if ts.kind != "choice":
        raise AnalysisError(f"{name}.step: returned timestep is not a selection between constructors: {show(ts, 3)[:200]}")
    how, pred, alts = ts.args
    kinds = [subtree_kinds(vfg, a, st) for a in alts]
    if how in ("cond", "ifexp", "select", "where") and len(alts) == 2:
        if kinds[0] == {"LAST"} and kinds[1] <= {"MID", "LAST"}:
            return disjuncts(pred)
        if kinds[1] == {"LAST"} and kinds[0] <= {"MID", "LAST"}:
            # the second branch is the LAST one: LAST when the predicate is false (carry_on = valid & ~finished)
            from ..normal import neg
            return disjuncts(neg(pred))
        raise AnalysisError(f"{name}.step: branches of the final selection have step types {kinds}")
    if how == "switch":
        # index = a + 2*b  (either order), a, b boolean
        p = strip_cast(pred)
        if p.kind == "bin" and p.args[0] == "+":
            parts = {}
            for x in (p.args[1], p.args[2]):
                x = strip_cast(x)
                if x.kind == "bin" and x.args[0] == "*":
                    l, r = strip_cast(x.args[1]), strip_cast(x.args[2])
                    if l.kind == "const" and isinstance(l.args[0], int):
                        parts[l.args[0]] = r
                    elif r.kind == "const" and isinstance(r.args[0], int):
                        parts[r.args[0]] = l
                else:
                    parts[1] = x
            if set(parts) == {1, 2} and len(alts) == 4:
                out = []
                if kinds[1] == {"LAST"} and kinds[3] == {"LAST"}:
                    out += disjuncts(parts[1])
                if kinds[2] == {"LAST"} and kinds[3] == {"LAST"}:
                    out += disjuncts(parts[2])
                return out
        raise AnalysisError(f"{name}.step: switch index {show(pred, 3)[:120]} not of the form a + 2*b")
    raise AnalysisError(f"{name}.step: unsupported final selection '{how}'")


def func_site(f: FuncInfo) -> str:
    return f.loc()


def env_site(ea: EnvAnalysis, meth: str) -> Tuple[str, str]:
    f = ea.vfg.tree.find_method(ea.cls, meth)
    return (f.loc() if f else ea.cls.loc(), f"{short(ea.cls.qual)}.{meth}")


def txt(t: T, depth: int = 6, n: int = 220) -> str:
    s = show(t, depth)
    return s if len(s) <= n else s[: n - 1] + "…"


def norm_cond(t: T, pol: bool) -> Tuple[T, bool]:
    """(test, polarity) with casts, bool() and leading negations removed: `not x` true == x false."""
    while True:
        t = strip_cast(t)
        if t.kind == "un" and t.args[0] in ("not", "~"):
            t, pol = t.args[1], not pol
            continue
        if ext_name(t) == "jax.numpy.logical_not" and t.args[1]:
            t, pol = t.args[1][0], not pol
            continue
        if t.kind == "cmp" and t.args[0] in ("isnot", "notin"):
            t, pol = mk("cmp", {"isnot": "is", "notin": "in"}[t.args[0]], t.args[1], t.args[2]), not pol
        return t, pol


def norm_path(path) -> List[Tuple[T, bool, object]]:
    return [norm_cond(t, pol) + (fn,) for t, pol, fn in path]


def raise_exits(vfg: VFG):
    """[(function, node, normalised path, value)] of every raise (and failing assert) met while evaluating."""
    return [(fn, node, norm_path(path), v) for kind, fn, node, path, v in vfg.exits if kind == "raise"]


def expanded_raise_exits(vfg: VFG, max_alts: int = 16):
    """raise_exits with every condition that is the RESULT OF A HELPER WITH SEVERAL RETURNS replaced by the conditions of
    the helper's own return paths: `if self._is_bad(x): raise` with `_is_bad` = `if a: return True; return b` raises
    under `a`, and under `not a and b`.  [(function, node, path, value)] -- one entry per alternative."""
    from ..terms import uncopy
    results = {}
    for cf, vars_, caller, node, res_ in vfg.callsites:
        if res_ is not None:
            results.setdefault(uncopy(res_).id, cf)
            results.setdefault(res_.id, cf)
    rets: Dict[str, list] = {}
    for kind, fn, node, path, val in vfg.exits:
        if kind == "return":
            rets.setdefault(fn.qual, []).append((norm_path(path), val))
    out = []
    for fn, node, path, val in raise_exits(vfg):
        alts = [[]]
        for t, pol, pf in path:
            t0 = uncopy(t)
            cf = results.get(t0.id, results.get(t.id))
            rr = rets.get(cf.qual, []) if cf is not None else []
            if cf is None or len(rr) < 2 or t0.kind not in ("phi", "choice"):
                alts = [a + [(t, pol, pf)] for a in alts]
                continue
            new_alts = []
            for rpath, rval in rr:
                # keep only the part of the return path that belongs to the helper itself
                own = [(x, p_, f_) for x, p_, f_ in rpath if f_ is cf]
                if rval is None:
                    continue
                rv = strip_cast(uncopy(rval))
                if rv.kind == "const" and isinstance(rv.args[0], bool):
                    if rv.args[0] != pol:
                        continue
                    ext_ = own
                else:
                    c_, p2 = norm_cond(rv, pol)
                    ext_ = own + [(c_, p2, cf)]
                for a in alts:
                    new_alts.append(a + ext_)
            alts = new_alts[:max_alts] if new_alts else [a + [(t, pol, pf)] for a in alts]
        for a in alts:
            out.append((fn, node, a, val))
    return out


def as_proj(t: T):
    """(base, i) for the i-th component of a tuple-valued term written either by unpacking or by constant indexing."""
    if t.kind == "proj":
        return t.args[0], t.args[1]
    if t.kind == "index" and t.args[1].kind == "const" and isinstance(t.args[1].args[0], int):
        return t.args[0], t.args[1].args[0]
    return None


_WRAPPER_ENV_ATTR: Dict[int, str] = {}


def wrapper_env_attr(tree: Tree) -> str:
    """Name of the attribute in which jumanji.wrappers.Wrapper.__init__ stores the wrapped environment (role, not
    spelling: a consistent rename of the private attribute does not change behaviour)."""
    if id(tree) in _WRAPPER_ENV_ATTR:
        return _WRAPPER_ENV_ATTR[id(tree)]
    ci = tree.classes.get("jumanji.wrappers.Wrapper")
    init = tree.find_method(ci, "__init__") if ci is not None else None
    if init is None:
        raise AnalysisError("anchor jumanji.wrappers.Wrapper.__init__ not found")
    v = VFG(tree, Model(tree))
    self_t = mk("self", ci.qual)
    envp = mk("param", init.qual, init.params[1])
    v.apply_func(init, self_t, ci, [envp], {}, None, None)
    names = [e.name for e in v.events if e.kind == "store_attr" and e.target is self_t and strip_cast(e.value) is envp]
    if len(names) != 1:
        raise AnalysisError(f"Wrapper.__init__ stores the wrapped environment in {names} (expected exactly one attribute)")
    _WRAPPER_ENV_ATTR[id(tree)] = names[0]
    return names[0]


_BORROW_CACHE: Dict[str, object] = {}
_IN_PROGRESS: set = set()


def borrow(res, module: str, rule_map: Dict[str, str], envs=None, only_if=None) -> int:
    """Re-state obligations decided by another property's rule module under this property's rule ids -- used where one
    structural fact is a necessary condition of several properties (e.g. a stale action mask breaks C04 and, in the
    environments whose step trusts the mask, C06).  `envs`: class names the obligation's function must belong to;
    `only_if(ob)`: extra filter; an obligation filtered out by `only_if` while violated is kept as holding."""
    import importlib
    if module in _IN_PROGRESS:
        # cyclic borrowing (A borrows from B whose check borrows from A): the inner request is skipped -- every
        # obligation is still decided by its own property's check and by the outermost borrower
        return 0
    if module not in _BORROW_CACHE:
        _IN_PROGRESS.add(module)
        try:
            _BORROW_CACHE[module] = importlib.import_module("jstat.rules." + module).check("quick")
        except AnalysisError:
            # the lender cannot analyse this tree: its own check fails closed (exit 2); the borrower keeps deciding
            # its own obligations and simply receives nothing from it
            from ..report import Result as _R
            _BORROW_CACHE[module] = _R()
        finally:
            _IN_PROGRESS.discard(module)
    src = _BORROW_CACHE[module]
    n = 0
    for ob in src.obligations:
        for s_rule, new in rule_map.items():
            if ob.rule != s_rule and not ob.rule.startswith(s_rule + "."):
                continue
            if envs is not None and not any(f".{e}." in f".{ob.func}." or ob.func.endswith("." + e) for e in envs):
                continue
            ok = ob.ok
            if ok is False and only_if is not None and not only_if(ob):
                continue
            res.add(new, ob.site, ob.func, ob.construct, ok, ob.detail, ob.nontrivial)
            n += 1
    return n
