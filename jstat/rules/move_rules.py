"""Displacement tables are applied by addition (C09.R9, C04.R11).

A *unit-move table* is a literal n x 2 table with entries in {-1, 0, 1} (the MOVES tables whose rows C09.R1 compares
with the direction names).  Every arithmetic combination of a row / slice / mapped element of such a table with
another value in the reset/step closure is `position + displacement`: `position - displacement` moves the entity the
opposite way (up becomes down), and when only the mask or only the step does it the two disagree.  15 sites in 7
environments on the pinned tree, all additions."""
from __future__ import annotations

from typing import Optional

from ..normal import ext_name, strip_cast
from ..terms import T, deps
from .axis_rules import MASK_FUNC_HINTS, site_of
from .common import analyses, txt


def unit_move_table(t: T) -> Optional[list]:
    t = strip_cast(t)
    if ext_name(t) in ("jax.numpy.array", "jax.numpy.asarray", "numpy.array", "numpy.asarray") and t.args[1]:
        t = t.args[1][0]

    def rows(x):
        if x.kind in ("list", "tuple"):
            return [rows(y) for y in x.args[0]]
        if x.kind == "const" and isinstance(x.args[0], int) and not isinstance(x.args[0], bool):
            return x.args[0]
        if x.kind == "un" and x.args[0] == "-" and x.args[1].kind == "const" and isinstance(x.args[1].args[0], int):
            return -x.args[1].args[0]
        raise ValueError

    try:
        r = rows(t)
    except (ValueError, AttributeError):
        return None
    if isinstance(r, list) and len(r) >= 2 and all(isinstance(x, list) and len(x) == 2 and all(isinstance(v, int) and abs(v) <= 1 for v in x) for x in r) \
            and any(any(v != 0 for v in x) for x in r):
        return r
    return None


def from_table(t: T, depth: int = 0) -> bool:
    t = strip_cast(t)
    if depth > 6:
        return False
    if unit_move_table(t) is not None:
        return True
    if t.kind in ("index", "elem", "proj", "copy", "batched"):
        return from_table(t.args[0], depth + 1)
    if t.kind == "call" and t.args[0].kind == "attr" and t.args[0].args[1] in ("squeeze", "astype"):
        return from_table(t.args[0].args[0], depth + 1)
    if ext_name(t) in ("jax.numpy.squeeze", "jax.numpy.asarray", "jax.numpy.array") and t.args[1]:
        return from_table(t.args[1][0], depth + 1)
    if t.kind == "choice":
        return any(from_table(a, depth + 1) for a in t.args[2])
    return False


def add_obligations(res, tree, rule: str, scope: str = "all") -> int:
    n = 0
    seen = set()
    for ea in analyses(tree):
        for root in (ea.reset_result, ea.step_result):
            for t in deps(root):
                if t.kind != "bin" or t.args[0] not in ("+", "-"):
                    continue
                left, right = from_table(t.args[1]), from_table(t.args[2])
                if not (left or right) or (left and right):
                    continue
                loc, fn, src = site_of(t)
                if scope == "mask" and not any(h in fn.lower() for h in MASK_FUNC_HINTS):
                    continue
                key = (fn, src)
                if key in seen:
                    continue
                seen.add(key)
                ok = t.args[0] == "+"
                res.add(rule, loc, fn, f"displacement applied by addition: {src}", ok,
                        "position + displacement" if ok else f"{txt(t, 3, 80)}: the displacement of the move table is subtracted -- every action moves the opposite way")
                n += 1
    return n


# ------------------------------------------------------------------------------------------------------------------
def _at_set(t: T):
    """(base, idx, val) for base.at[idx].set(val)"""
    from ..terms import uncopy
    t = uncopy(strip_cast(t))
    if t.kind == "call" and t.args[0].kind == "attr" and t.args[0].args[1] == "set" and t.args[1]:
        b = t.args[0].args[0]
        if b.kind == "index" and b.args[0].kind == "attr" and b.args[0].args[1] == "at":
            return b.args[0].args[0], b.args[1], t.args[1][0]
    return None


def _layer_and_coords(idx: T):
    """(layer constant or None, non-constant coordinate terms) of a scatter index"""
    from ..terms import contains  # noqa: F401
    items = list(idx.args[0]) if idx.kind == "tuple" else [idx]
    layer = None
    coords = []
    for x in items:
        s = strip_cast(x)
        if ext_name(s) == "builtins.tuple" and s.args[1]:
            s = strip_cast(s.args[1][0])          # G.at[tuple(position)]
        if s.kind == "const":
            layer = s.args[0] if layer is None else layer
        else:
            coords.append(s)
    return layer, coords


def write_order_obligations(res, tree, rule: str) -> int:
    """Moving an entity on a grid is two writes on the same array: one at the origin, one at the destination, the
    destination being computed from the origin (origin + displacement, a switch over candidate cells, a clamp ...).
    When the move is blocked the two cells coincide and the LAST write wins, so the write at the destination -- the one
    that leaves the entity on the grid -- must be the last one.  (SlidingTilePuzzle: the blank's new cell; RobotWarehouse:
    agents and shelves; Sokoban: the agent.)"""
    from ..terms import contains
    n = 0
    seen = set()
    for ea in analyses(tree):
        for root in (ea.reset_result, ea.step_result):
            for t in deps(root):
                outer = _at_set(t)
                if not outer:
                    continue
                inner = _at_set(outer[0])
                if not inner:
                    continue
                lo, co = _layer_and_coords(outer[1])
                li, ci = _layer_and_coords(inner[1])
                if lo != li or not co or not ci or outer[1] is inner[1]:
                    continue

                def clears(v):
                    v = strip_cast(v)
                    return v.kind == "const" and v.args[0] in (0, False)
                if clears(outer[2]) == clears(inner[2]):
                    continue        # a move clears one cell and fills another

                def derived(cs_new, cs_old):
                    olds = [d for c in cs_old for d in ([c] + [x for x in deps(c) if x.kind in ("attr", "proj", "index")])]
                    olds = [o for o in olds if o.kind != "const"]
                    return any(c is not o and contains(c, o) for c in cs_new for o in cs_old)

                out_from_in = derived(co, ci)      # outer index computed from the inner one: destination written last (good)
                in_from_out = derived(ci, co)      # inner index computed from the outer one: origin written last (bad)
                if out_from_in == in_from_out:
                    continue
                loc, fn, src = site_of(t)
                key = (fn, src)
                if key in seen:
                    continue
                seen.add(key)
                ok = out_from_in
                res.add(rule, loc, fn, f"the write at the destination of a move comes after the write at its origin: {src}", ok,
                        "destination written last" if ok else
                        f"the origin {txt(outer[1], 2, 50)} is rewritten after the destination {txt(inner[1], 2, 50)}: when the move is blocked both are the same cell and the entity is erased from the grid")
                n += 1
    return n


# ------------------------------------------------------------------------------------------------------------------
def _reencoded_codes(R: T, depth: int = 0):
    """{C: K} for an array R = where(P, K, rest) whose condition P contains `V == C` with K != C constants: inside R a
    cell whose source held C may hold K instead (Sokoban's combined grid: BOX on a target becomes TARGET_BOX)."""
    from ..normal import conjuncts
    out = {}
    R = strip_cast(R)
    if depth > 6:
        return out
    if R.kind == "choice" and R.args[0] in ("where", "select") and len(R.args[2]) == 2:
        P, (a, b) = R.args[1], R.args[2]
        K = strip_cast(a)
        if K.kind == "const" and isinstance(K.args[0], int) and not isinstance(K.args[0], bool):
            for c in conjuncts(P):
                c0 = strip_cast(c)
                if c0.kind == "cmp" and c0.args[0] == "==":
                    for x, y in ((c0.args[1], c0.args[2]), (c0.args[2], c0.args[1])):
                        y0 = strip_cast(y)
                        if y0.kind == "const" and isinstance(y0.args[0], int) and not isinstance(y0.args[0], bool) and y0.args[0] != K.args[0] \
                                and strip_cast(x).kind != "const":
                            out.setdefault(y0.args[0], K.args[0])
        out.update({k: v for k, v in _reencoded_codes(b, depth + 1).items() if k not in out})
        return out
    if R.kind == "call" and R.args[0].kind == "attr" and R.args[0].args[1] == "astype":
        return _reencoded_codes(R.args[0].args[0], depth + 1)
    return out


def reencoding_obligations(res, tree, rule: str) -> int:
    """A test `R[...] == C` on an array R that re-encodes the code C under some condition (R = where(.. & V == C, K, ..))
    misses the cells that hold K: in Sokoban's combined grid a box on a target is TARGET_BOX, not BOX, so looking for
    BOX there lets a second box be pushed into it.  Zero instances on the pinned tree (the combined grid is only
    rendered / observed); every comparison of an indexed array with an integer constant is inspected."""
    n = bad = 0
    seen = set()
    for ea in analyses(tree):
        for root in (ea.reset_result, ea.step_result):
            for t in deps(root):
                if t.kind != "cmp" or t.args[0] not in ("==", "!="):
                    continue
                for a, c in ((t.args[1], t.args[2]), (t.args[2], t.args[1])):
                    c0 = strip_cast(c)
                    if c0.kind != "const" or not isinstance(c0.args[0], int) or isinstance(c0.args[0], bool):
                        continue
                    base = strip_cast(a)
                    while base.kind in ("index", "elem", "copy"):
                        base = strip_cast(base.args[0])
                    codes = _reencoded_codes(base)
                    n += 1
                    if c0.args[0] in codes:
                        loc, fn, src = site_of(t)
                        if (fn, src) in seen:
                            continue
                        seen.add((fn, src))
                        bad += 1
                        res.add(rule, loc, fn, f"test against a re-encoded code: {src}", False,
                                f"the array {txt(base, 2, 60)} stores {codes[c0.args[0]]} instead of {c0.args[0]} under a condition of its own construction: "
                                f"comparing it with {c0.args[0]} misses those cells")
    res.add(rule, "jumanji/environments", "reset/step closures", "no test compares a re-encoding array with a code it re-encodes", bad == 0, f"{n} comparisons of an array with an integer code inspected")
    return n


# ------------------------------------------------------------------------------------------------------------------
def negative_sentinel_obligations(res, tree, rule: str) -> int:
    """JAX normalises negative indices (-1 means the last element) BEFORE an out-of-bounds mode applies, so a scatter
    or gather `.at[I].set(v, mode="drop")` / `mode="fill"` never drops a -1 sentinel produced by `where(cond, x, -1)`:
    the last element is hit instead.  (The pinned GraphColoring mask therefore allocates one extra slot for the -1
    entries and slices it off.)  Every `.at[...]` update / read with an explicit mode is inspected."""
    n = bad = 0
    seen = set()
    for ea in analyses(tree):
        for root in (ea.reset_result, ea.step_result):
            for t in deps(root):
                if not (t.kind == "call" and t.args[0].kind == "attr" and t.args[0].args[1] in ("set", "add", "get", "multiply", "min", "max")):
                    continue
                b = t.args[0].args[0]
                if not (b.kind == "index" and b.args[0].kind == "attr" and b.args[0].args[1] == "at"):
                    continue
                mode = dict(t.args[2]).get("mode")
                if mode is None or strip_cast(mode).kind != "const" or strip_cast(mode).args[0] not in ("drop", "fill"):
                    continue
                n += 1
                idx = b.args[1]
                neg = None
                for d in [idx] + list(deps(idx)):
                    if d.kind == "choice" and d.args[0] in ("where", "select"):
                        for a in d.args[2]:
                            a0 = strip_cast(a)
                            if a0.kind == "const" and isinstance(a0.args[0], int) and not isinstance(a0.args[0], bool) and a0.args[0] < 0:
                                neg = a0.args[0]
                            if a0.kind == "un" and a0.args[0] == "-" and strip_cast(a0.args[1]).kind == "const" and isinstance(strip_cast(a0.args[1]).args[0], int):
                                neg = -strip_cast(a0.args[1]).args[0]
                if neg is not None:
                    loc, fn, src = site_of(t)
                    if (fn, src) in seen:
                        continue
                    seen.add((fn, src))
                    bad += 1
                    res.add(rule, loc, fn, f"negative sentinel index under mode={strip_cast(mode).args[0]!r}: {src}", False,
                            f"the index holds the sentinel {neg} where no entry is meant; JAX wraps negative indices before `mode` applies, so element {neg} (counted from the end) is written / read instead of being dropped")
    res.add(rule, "jumanji/environments", "reset/step closures", "no scatter / gather relies on mode='drop' / 'fill' to discard a negative sentinel index", bad == 0,
            f"{n} indexed updates with an explicit out-of-bounds mode inspected")
    return n
