"""Inside-the-grid rules on the value-flow graph (shared by C04, C05, C07, C09).

B1 (canonical bounds comparator).  A *bounds atom* is a comparison between a coordinate X -- a term the code itself
uses as a spatial subscript of a grid, or a position vector (unravel_index / stacked coordinates) -- taken WITHOUT
offset, and either the constant 0 or an extent E of the grid.  Over the integers the only tests that separate the
cells 0..E-1 from everything else are  X >= 0, X < 0, X < E, X >= E  (and their spellings X > -1, X <= E-1, ...):
every atom must normalise to one of them.  `X > 0`, `X <= 0`, `X <= E`, `X > E` shift the border by one cell.

B2 (decisiveness).  Take every maximal boolean formula (closed under & | ~ and where/select with boolean
alternatives) that contains bounds atoms.  In it, "coordinate outside" must decide the formula by itself: there is one
truth value s such that, for every bounds atom a, forcing a to its *outside* value makes the formula equal s whatever
the other sub-formulas evaluate to (s = False for a validity / inside formula, s = True for an out-of-bounds formula).
Decided by truth-table evaluation of the formula's skeleton over its atoms (<= 12 variables).  An `&` turned into `|`
between two border tests, or a validity mask that ORs the border test with another condition, lets an entity leave
the grid.

Both are facts about the code's own formula; nothing is executed.  Unknown shapes are skipped (silent)."""
from __future__ import annotations

import itertools
from typing import Dict, List, Optional, Set, Tuple

from ..axis import Axes
from ..engine import EnvAnalysis
from ..loader import short
from ..normal import ext_name, linear, strip_cast
from ..terms import T, children
from .axis_rules import env_axes, site_of
from .common import analyses, txt

BOOL_FUNCS = {"jax.numpy.logical_and": "&", "jax.numpy.logical_or": "|", "numpy.logical_and": "&", "numpy.logical_or": "|"}
NOT_FUNCS = {"jax.numpy.logical_not", "numpy.logical_not", "jax.numpy.invert"}
FLIP = {"<": ">", ">": "<", "<=": ">=", ">=": "<="}


def _ext_names(ax: Axes) -> Set[str]:
    """canonical names of the attributes that the code uses as an extent of a grid somewhere in this environment"""
    cache = getattr(ax, "_bounds_ext_names", None)
    if cache is None:
        from ..shapes import canon
        cache = set()
        for tid, kinds in ax.ax.items():
            t = ax.terms.get(tid)
            if t is not None and t.kind == "attr" and any(r == "ext" for r, _ in kinds):
                cache.add(canon(ax.vfg, t.args[1]))
        ax._bounds_ext_names = cache
    return cache


def _is_ext(ax: Axes, t: T) -> bool:
    c = ax.core(t)
    if any(r == "ext" for r, _ in ax.ax.get(c.id, ())):
        return True
    # G.shape[i] / a, b = G.shape
    if c.kind in ("index", "proj") and c.args[0].kind == "attr" and c.args[0].args[1] == "shape":
        return True
    if c.kind == "attr":
        from ..shapes import canon
        return canon(ax.vfg, c.args[1]) in _ext_names(ax)
    return False


def _coordlike(ax: Axes, t: T, depth: int = 0) -> bool:
    """t denotes a grid position without a constant offset: typed as an index / position vector by the axis engine, a
    `.position` field, or one of these moved by a displacement, selected, mapped or projected."""
    if depth > 8:
        return False
    t = strip_cast(t)
    c = ax.core(t)
    if c.id in ax.vec or any(r == "idx" for r, _ in ax.ax.get(c.id, ())):
        return True
    k = t.kind
    if k == "attr" and t.args[1] in ("position", "positions", "agent_position", "head_position"):
        return True
    if k == "bin" and t.args[0] in ("+", "-"):
        return _coordlike(ax, t.args[1], depth + 1) and strip_cast(t.args[2]).kind != "const"
    if k in ("elem", "batched", "copy", "leaf", "loopin"):
        return _coordlike(ax, t.args[0], depth + 1)
    if k == "proj" or (k == "index" and t.args[1].kind == "const"):
        return _coordlike(ax, t.args[0], depth + 1)
    if k == "choice":
        return all(_coordlike(ax, a, depth + 1) for a in t.args[2])
    return False


def _is_coord(ax: Axes, t: T) -> bool:
    """t itself (no constant offset) is a coordinate."""
    b, k = linear(t)
    if b is None or k != 0:
        return False
    return _coordlike(ax, t)


def bounds_atom(ax: Axes, t: T):
    """(X, kind 'zero'|'ext', other, inside_when_true: bool, canonical: bool, text) or None."""
    if t.kind != "cmp" or t.args[0] not in FLIP:
        return None
    op, a, b = t.args
    for X, O, o in ((a, b, op), (b, a, FLIP[op])):
        if not _is_coord(ax, X):
            continue
        bo, ko = linear(O)
        if bo is None and ko is not None:
            # X o ko      canonical: X >= 0, X < 0, X > -1, X <= -1
            inside = {(">=", 0): True, ("<", 0): False, (">", -1): True, ("<=", -1): False}.get((o, ko))
            near = ko in (0, -1, 1)
            if not near:
                if ko > 1 and o in ("<", ">=", "<=", ">"):
                    # a literal extent (module constant such as GRID_SIZE folded to its value): the side it selects is
                    # known, whether the literal is the right one is not decided here
                    inside = o in ("<", "<=")
                    return X, "ext", O, inside, (True if o in ("<", ">=") else None), f"{txt(X, 2, 30)} {o} {ko}"
                return None
            if inside is None:
                # a non-canonical test against the border constant: which side it is meant to select
                inside = o in (">", ">=")
                return X, "zero", O, inside, False, f"{txt(X, 2, 30)} {o} {ko}"
            return X, "zero", O, inside, True, f"{txt(X, 2, 30)} {o} {ko}"
        if bo is not None and ko is not None and _is_ext(ax, bo) and not _is_coord(ax, bo):
            # X o E + ko   canonical: X < E, X >= E, X <= E-1, X > E-1
            inside = {("<", 0): True, (">=", 0): False, ("<=", -1): True, (">", -1): False}.get((o, ko))
            if abs(ko) > 1:
                return None
            if inside is None:
                inside = o in ("<", "<=")
                return X, "ext", bo, inside, False, f"{txt(X, 2, 30)} {o} {txt(bo, 2, 30)}{ko:+d}" if ko else f"{txt(X, 2, 30)} {o} {txt(bo, 2, 30)}"
            return X, "ext", bo, inside, True, f"{txt(X, 2, 30)} {o} {txt(bo, 2, 30)}" + (f"{ko:+d}" if ko else "")
    return None


def _bool_parts(t: T):
    """('and'|'or', [operands]) / ('not', [x]) / ('ite', [c, a, b]) / None for a boolean connective node."""
    t0 = strip_cast(t)
    k = t0.kind
    if k == "bin" and t0.args[0] in ("&", "|"):
        return ("and" if t0.args[0] == "&" else "or"), [t0.args[1], t0.args[2]]
    if k == "bool":
        return t0.args[0], list(t0.args[1])
    if k == "un" and t0.args[0] in ("~", "not"):
        return "not", [t0.args[1]]
    n = ext_name(t0)
    if n in BOOL_FUNCS and len(t0.args[1]) == 2:
        return ("and" if BOOL_FUNCS[n] == "&" else "or"), list(t0.args[1])
    if n in NOT_FUNCS and len(t0.args[1]) == 1:
        return "not", [t0.args[1][0]]
    if n in ("jax.numpy.all", "jax.numpy.any", "numpy.all", "numpy.any") and len(t0.args[1]) == 1:
        # a reduction over the coordinate axis of a vector test: all(...) of an inside test / any(...) of an outside test
        return "id", [t0.args[1][0]]
    if k == "choice" and t0.args[0] in ("where", "select", "ifexp") and len(t0.args[2]) == 2 and all(_boolish(a) for a in t0.args[2]):
        return "ite", [t0.args[1], t0.args[2][0], t0.args[2][1]]
    return None


def _boolish(t: T) -> bool:
    """a boolean constant, a comparison or a boolean connective (so that where(c, a, b) is the formula `c ? a : b`)"""
    t0 = strip_cast(t)
    if t0.kind == "const":
        return isinstance(t0.args[0], bool)
    if t0.kind == "cmp":
        return True
    if t0.kind == "choice":
        return all(_boolish(a) for a in t0.args[2])
    return _bool_parts(t0) is not None


def formulas_with_atoms(ax: Axes, atoms: Dict[int, tuple]) -> List[T]:
    """maximal boolean-connective terms of the universe that contain a bounds atom"""
    contains: Dict[int, bool] = {}

    def has(t: T) -> bool:
        t0 = strip_cast(t)
        if t0.id in contains:
            return contains[t0.id]
        contains[t0.id] = False
        if t0.id in atoms:
            r = True
        else:
            bp = _bool_parts(t0)
            r = bool(bp) and any(has(x) for x in bp[1])
        contains[t0.id] = r
        return r

    skeleton = [t for t in ax.terms.values() if _bool_parts(t) is not None and has(t)]
    inner: Set[int] = set()
    for t in skeleton:
        for x in _bool_parts(t)[1]:
            inner.add(strip_cast(x).id)
    return [t for t in skeleton if strip_cast(t).id not in inner and t.id not in inner]


def decisive(ax: Axes, F: T, atoms: Dict[int, tuple], want: Optional[bool] = None):
    """(ok or None, detail).  `want`: the truth value the formula must take when an atom is on its outside value
    (None = any, as long as all atoms agree)."""
    leaves: List[T] = []

    def collect(t: T):
        t0 = strip_cast(t)
        if t0.id in atoms:
            if t0 not in leaves:
                leaves.append(t0)
            return
        bp = _bool_parts(t0)
        if bp is None:
            if t0 not in leaves:
                leaves.append(t0)
            return
        for x in bp[1]:
            collect(x)

    collect(F)
    if len(leaves) > 12:
        return None, f"{len(leaves)} sub-formulas (not evaluated)"

    def ev(t: T, env) -> bool:
        t0 = strip_cast(t)
        if t0.id in env:
            return env[t0.id]
        if t0.kind == "const" and isinstance(t0.args[0], bool):
            return t0.args[0]
        bp = _bool_parts(t0)
        op, xs = bp
        if op == "and":
            return all(ev(x, env) for x in xs)
        if op == "or":
            return any(ev(x, env) for x in xs)
        if op == "not":
            return not ev(xs[0], env)
        if op == "id":
            return ev(xs[0], env)
        c, a, b = xs
        return ev(a, env) if ev(c, env) else ev(b, env)

    my_atoms = [l for l in leaves if l.id in atoms]
    consts = [l for l in leaves if l.kind == "const"]
    free = [l for l in leaves if l.id not in atoms and l.kind != "const"]
    verdicts = {}
    for a in my_atoms:
        inside_when_true = atoms[a.id][3]
        outside_value = not inside_when_true
        seen = set()
        others = [l for l in leaves if l is not a and l.kind != "const"]
        for bits in itertools.product((False, True), repeat=len(others)):
            env = {o.id: b for o, b in zip(others, bits)}
            env[a.id] = outside_value
            seen.add(ev(F, env))
            if len(seen) == 2:
                break
        verdicts[a.id] = seen
    undecided = [a for a in my_atoms if len(verdicts[a.id]) == 2]
    values = {next(iter(v)) for v in verdicts.values() if len(v) == 1}
    if not undecided and len(values) == 1:
        s = next(iter(values))
        if want is not None and s is not want:
            return False, f"the formula is {s} whenever one of its {len(my_atoms)} decisive conditions is on its excluded value: polarity inverted"
        return True, f"{len(my_atoms)} border tests, each forces the formula to {s} when its coordinate is outside ({len(free)} other sub-formulas free)"
    if undecided:
        a = undecided[0]
        return False, (f"with {atoms[a.id][5]} on its outside value the formula still depends on the other conditions: "
                       f"a coordinate outside the grid does not decide it")
    return False, "border tests pull the formula in opposite directions (one forces True, another forces False)"


def _grid_reads(t: T) -> List[Tuple[T, List[T]]]:
    """[(array, coordinate terms)] of the subscript reads G[tuple(p)], G[a, b], G[c, a, b] at the top of t: the walk goes
    through casts, comparisons, arithmetic and call arguments, and stops at the first subscript (what the array G itself
    was computed from is not part of this formula)."""
    out = []
    seen = set()

    def walk(d: T, depth: int):
        d = strip_cast(d)
        if d.id in seen or depth > 6:
            return
        seen.add(d.id)
        if d.kind == "index":
            base, idx = d.args
            if base.kind == "attr" and base.args[1] in ("shape", "at"):
                return
            i0 = strip_cast(idx)
            coords = None
            if ext_name(i0) == "builtins.tuple" and i0.args[1]:
                coords = [strip_cast(i0.args[1][0])]
            elif i0.kind == "tuple":
                cs = [strip_cast(x) for x in i0.args[0] if strip_cast(x).kind not in ("const", "slice")]
                if len(cs) == 2:
                    coords = cs
            if coords:
                out.append((base, coords))
            return
        if d.kind in ("cmp", "bin"):
            walk(d.args[1], depth + 1)
            walk(d.args[2], depth + 1)
        elif d.kind == "un":
            walk(d.args[1], depth + 1)
        elif d.kind == "call":
            for a in d.args[1]:
                walk(a, depth + 1)
        elif d.kind in ("copy", "elem"):
            walk(d.args[0], depth + 1)

    walk(t, 0)
    return out


def guarded_read(ax: Axes, F: T, atoms: Dict[int, tuple]):
    """B3: inside a formula that bounds-tests a coordinate, the cells that are READ are the cell that is tested.
    (ok or None, detail)"""
    from ..terms import contains
    tested: List[T] = []
    leaves: List[T] = []

    def collect(t: T):
        t0 = strip_cast(t)
        if t0.id in atoms:
            X = ax.core(atoms[t0.id][0])
            if X not in tested:
                tested.append(X)
            return
        bp = _bool_parts(t0)
        if bp is None:
            leaves.append(t0)
            return
        for x in bp[1]:
            collect(x)

    collect(F)
    reads = []
    for l in leaves:
        reads += _grid_reads(l)
    if not reads or not tested:
        return None, "no grid read inside the formula"

    def same(coords: List[T]) -> bool:
        # the read coordinates are the tested coordinate (a vector) or its two components
        for X in tested:
            if len(coords) == 1 and (ax.core(coords[0]) is X):
                return True
            if len(coords) == 2 and all(ax.core(c) is X or contains(c, X) and c.kind in ("proj", "index") or ax.core(c) in tested for c in coords):
                return True
        return False
    bad = [(g, cs) for g, cs in reads if not same(cs)]
    related = [(g, cs) for g, cs in bad if any(contains(c, X) or contains(X, ax.core(c)) for c in cs for X in tested)]
    if not bad:
        return True, f"{len(reads)} grid read(s), all at the bounds-tested coordinate"
    if related:
        g, cs = related[0]
        return False, (f"the formula bounds-tests {txt(tested[0], 2, 40)} but reads {txt(g, 2, 30)} at {[txt(c, 2, 40) for c in cs]}, "
                       f"a different cell computed from it: that cell can lie outside the grid (JAX clamps / wraps the index silently)")
    return None, "reads at unrelated coordinates (not compared)"


def add_obligations(res, tree, rule: str, scope: str = "all") -> int:
    """scope 'all' | 'mask' (sites inside mask / validity functions only)."""
    from .axis_rules import MASK_FUNC_HINTS
    n = 0
    seen_global = set()
    per_env: Dict[str, int] = {}
    for ea in analyses(tree):
        ax, roots = env_axes(ea)
        ax.bind_conflicts()
        atoms: Dict[int, tuple] = {}
        for t in list(ax.terms.values()):
            at = bounds_atom(ax, t)
            if at is not None:
                atoms[t.id] = at
        if not atoms:
            continue
        env = short(ea.cls.qual)
        # an atom counts only when its coordinate has a partner test against the other border (0 <-> extent) somewhere
        # in the same environment: a lone `x > 0` on a subscript is some other condition, not a bounds test
        by_coord: Dict[int, Set[str]] = {}
        for tid, at in atoms.items():
            by_coord.setdefault(ax.core(at[0]).id, set()).add(at[1])
        atoms = {tid: at for tid, at in atoms.items() if by_coord[ax.core(at[0]).id] == {"zero", "ext"}}
        for tid, at in sorted(atoms.items()):
            t = ax.terms[tid]
            loc, fn, src = site_of(t)
            if scope == "mask" and not any(h in fn.lower() for h in MASK_FUNC_HINTS):
                continue
            key = ("B1", fn, src)
            if key in seen_global:
                continue
            seen_global.add(key)
            X, kind, other, inside, canonical, text = at
            res.add(rule, loc, fn, f"border test: {src}", canonical,
                    f"{text} selects the {'inside' if inside else 'outside'} of the border exactly" if canonical else
                    f"{text} moves the border by one cell: the cells of an axis are 0 .. extent-1, separated exactly by `>= 0` / `< extent` (or their negations)")
            n += 1
            per_env[ea.cls.name] = per_env.get(ea.cls.name, 0) + 1
        for F in formulas_with_atoms(ax, atoms):
            loc, fn, src = site_of(F)
            if scope == "mask" and not any(h in fn.lower() for h in MASK_FUNC_HINTS):
                continue
            key = ("B2", fn, src)
            if key in seen_global:
                continue
            seen_global.add(key)
            ok, why = decisive(ax, F, atoms)
            res.add(rule, loc, fn, f"a coordinate outside the grid decides: {src}", ok, why)
            n += 1
            per_env[ea.cls.name] = per_env.get(ea.cls.name, 0) + 1
            ok3, why3 = guarded_read(ax, F, atoms)
            if ok3 is not None:
                res.add(rule, loc, fn, f"the cell that is read is the cell that is bounds-tested: {src}", ok3, why3)
                n += 1
    res.extra.setdefault("border_test_sites_per_environment", {}).update({f"{rule}:{k}": v for k, v in per_env.items()})
    return n
