"""C03 -- FIRST, MID*, LAST protocol with sane reward and discount."""
from __future__ import annotations

from typing import Optional

from ..engine import VFG, analyse_env, get_tree
from ..loader import AnalysisError, short
from ..model import Model
from ..normal import disjuncts, ext_name, negand, strip_cast
from ..report import Result
from ..terms import NONE, T, const, mk, show, uncopy
from .common import analyses, env_site, last_conditions, leaves, step_types, timestep_kind, txt

EXPLANATION = (
    "Decided on the value-flow graph of every reset/step closure: (R0) the four constructors in jumanji/types.py "
    "build FIRST/zeros/ones, MID/default ones, LAST/zeros, LAST/default ones; (R1) every value reset can return is a "
    "FIRST timestep whose reward is zeros(shape) and discount ones(shape) with shape equal to reward_spec and "
    "discount_spec; (R2) every value step can return has a constant step type in {MID, LAST}, both occur, FIRST "
    "never; (R3) LAST timesteps carry a zeros discount except the documented truncation of LevelBasedForaging, MID "
    "timesteps carry a ones discount except Connector's explicit per-agent discount; (R4) Connector's MID discount "
    "is the complement 1-B of a boolean vector B and all(B) is a LAST condition, so values are in {0,1} and a MID "
    "step never has an all-zero discount; (R5) LBF's switch decodes to 00 MID, 01 termination(0), 10 truncation(1), "
    "11 termination(0); (R6) reward/discount shapes of step constructors equal the declared spec shapes. "
    "Not decided: behaviour of step after a LAST timestep; reward values.")

TRUNCATION_ALLOWED = {"LevelBasedForaging": "documented: truncation at the time limit keeps discount 1"}
EXPLICIT_DISCOUNT = {"Connector": "documented: per-agent discount 1 - done"}


def norm_shape(t: Optional[T]) -> Optional[T]:
    if t is None:
        return mk("tuple", ())
    t = strip_cast(t)
    if t.kind in ("tuple", "list") and len(t.args[0]) == 1:
        return strip_cast(t.args[0][0])
    if t.kind in ("tuple", "list"):
        return mk("tuple", tuple(strip_cast(x) for x in t.args[0]))
    return t


def fill_shape(t: T) -> Optional[T]:
    """shape argument of jnp.zeros/ones(shape, ...)"""
    if t.kind == "call" and t.args[1]:
        return norm_shape(t.args[1][0])
    if t.kind == "call":
        return norm_shape(dict(t.args[2]).get("shape"))
    return None


def spec_shape(vfg: VFG, self_t: T, which: str) -> Optional[T]:
    s = vfg.mk_attr(self_t, which)
    if s.kind != "new":
        return None
    args, kw = s.args[1], dict(s.args[2])
    if "shape" in kw:
        return norm_shape(kw["shape"])
    if args:
        return norm_shape(args[0])
    return None


def check_types_table(res: Result, tree):
    vfg = VFG(tree, Model(tree))
    st = step_types(vfg)
    table = {"restart": ("FIRST", "zeros", "ones"), "transition": ("MID", "param", "default_ones"),
             "termination": ("LAST", "param", "zeros"), "truncation": ("LAST", "param", "default_ones")}
    for name, (kind, rew, disc) in table.items():
        f = tree.functions.get("jumanji.types." + name)
        if f is None:
            raise AnalysisError(f"anchor jumanji.types.{name} not found")
        params = {p: mk("param", f.qual, p) for p in f.params}
        r = vfg.apply_func(f, None, None, [], dict(params), None, None)
        ok = True
        why = []
        for l, _ in leaves(r):
            k = timestep_kind(vfg, l, st)
            if k != kind:
                ok = False
                why.append(f"step_type {k}")
                continue
            rw, dc = vfg.mk_attr(l, "reward"), vfg.mk_attr(l, "discount")
            shape = params.get("shape")
            if rew == "zeros":
                if not (ext_name(rw) == "jax.numpy.zeros" and rw.args[1] and rw.args[1][0] is shape):
                    ok = False
                    why.append(f"reward {txt(rw)}")
            else:
                if rw is not params["reward"]:
                    ok = False
                    why.append(f"reward {txt(rw)}")
            def is_fill(t, fn):
                return ext_name(t) == "jax.numpy." + fn and t.args[1] and t.args[1][0] is shape
            if disc == "ones" and not is_fill(dc, "ones"):
                ok = False
                why.append(f"discount {txt(dc)}")
            if disc == "zeros" and not is_fill(dc, "zeros"):
                ok = False
                why.append(f"discount {txt(dc)}")
            if disc == "default_ones":
                good = (dc.kind == "choice" and len(dc.args[2]) == 2 and
                        {id(x) for x in dc.args[2]} >= {id(params["discount"])} and
                        any(is_fill(x, "ones") for x in dc.args[2]))
                if good:
                    c = dc.args[1]
                    a, b = dc.args[2]
                    # discount if discount is not None else ones
                    good = (c.kind == "cmp" and c.args[1] is params["discount"] and c.args[2] is NONE and
                            ((c.args[0] == "isnot" and a is params["discount"]) or (c.args[0] == "is" and b is params["discount"])))
                if not good and dc.kind == "phi" and len(dc.args[0]) == 2 and any(x is params["discount"] for x in dc.args[0]) \
                        and any(is_fill(x, "ones") for x in dc.args[0]):
                    # `if discount is None: return ones(...)` / `return discount` (statement form of the same default)
                    tests = [e.target for e in vfg.events if e.kind == "py_branch" and e.target is not None and e.target.kind == "cmp"
                             and e.target.args[0] in ("is", "isnot") and e.target.args[1] is params["discount"] and e.target.args[2] is NONE]
                    good = bool(tests)
                if not good:
                    ok = False
                    why.append(f"discount {txt(dc)}")
            if vfg.mk_attr(l, "observation") is not params["observation"]:
                ok = False
                why.append("observation not passed through")
            ex = strip_cast(vfg.mk_attr(l, "extras"))
            ep = params.get("extras")
            ex_ok = ex is ep
            if ex.kind == "bool" and ex.args[0] == "or" and len(ex.args[1]) == 2:
                ex_ok = ex.args[1][0] is ep and ex.args[1][1].kind == "dict" and not ex.args[1][1].args[0]      # extras or {}
            elif ex.kind == "choice" and len(ex.args[2]) == 2:
                c = ex.args[1]
                a, b = ex.args[2]
                if c.kind == "cmp" and c.args[1] is ep and c.args[2] is NONE:
                    ex_ok = (c.args[0] == "isnot" and a is ep) or (c.args[0] == "is" and b is ep)
                elif c is ep:
                    ex_ok = a is ep
            elif ex.kind == "phi":
                ex_ok = any(x is ep for x in ex.args[0]) and all(x is ep or (x.kind == "dict" and not x.args[0]) for x in ex.args[0])
            if not ex_ok:
                ok = False
                why.append(f"extras {txt(ex, 3, 60)}: the extras given by the environment are not passed through")
        res.add("C03.R0", f.loc(), "types." + name, f"{name} -> {kind}, reward {rew}, discount {disc}", ok, "; ".join(why) or "as tabulated")


def check_step_type_api(res: Result, tree):
    """StepType.FIRST/MID/LAST are the integers 0/1/2 (the dm_env adapter relays the raw value into dm_env.TimeStep,
    whose StepType uses exactly these), and TimeStep.first()/mid()/last() test equality with their own constant."""
    m = tree.modules.get("jumanji.types")
    ci = tree.classes.get("jumanji.types.StepType")
    ts = tree.classes.get("jumanji.types.TimeStep")
    if m is None or ci is None or ts is None:
        raise AnalysisError("anchor jumanji.types.StepType / TimeStep not found")
    vfg = VFG(tree, Model(tree))
    stt = step_types(vfg)
    want = {"FIRST": 0, "MID": 1, "LAST": 2}
    got = {}
    for k_, t_ in stt.items():
        t_ = strip_cast(uncopy(t_))
        while t_.kind == "call" and t_.args[1]:
            t_ = strip_cast(uncopy(t_.args[1][0]))       # jnp.array(<code>, dtype) / StepType(<code>)
        got[k_] = t_.args[0] if t_.kind == "const" else None
    verdict = (got == want) if all(v_ is not None for v_ in got.values()) else None
    res.add("C03.R0", ci.loc(), "types.StepType", "FIRST, MID, LAST are 0, 1, 2 (distinct; the values dm_env.StepType uses)", verdict, f"{got}")
    self_t = mk("self", ts.qual)
    for meth, kind in (("first", "FIRST"), ("mid", "MID"), ("last", "LAST")):
        f = ts.methods.get(meth)
        if f is None:
            raise AnalysisError(f"TimeStep.{meth} not found")
        r = strip_cast(uncopy(vfg.apply_func(f, self_t, ts, [], {}, None, None)))
        fld = mk("attr", self_t, "step_type")
        ok = r.kind == "cmp" and r.args[0] == "==" and {r.args[1], r.args[2]} == {fld, stt[kind]}
        if not ok and ext_name(r) in ("jax.numpy.equal", "jax.numpy.array_equal") and len(r.args[1]) == 2:
            ok = set(r.args[1]) == {fld, stt[kind]}
        res.add("C03.R0", f.loc(), f"types.TimeStep.{meth}", f"{meth}() is step_type == StepType.{kind}", ok, txt(r, 4, 100))


def check(tier: str) -> Result:
    tree = get_tree()
    res = Result(explanation=EXPLANATION)
    check_step_type_api(res, tree)
    try:
        return _check_rest(tier, tree, res)
    except AnalysisError:
        # a definite violation of the step-type API (e.g. two step types sharing one code) makes the rest of the
        # analysis meaningless; report that violation instead of failing closed
        if any(o.ok is False for o in res.obligations):
            return res
        raise


def _check_rest(tier: str, tree, res: Result) -> Result:
    check_types_table(res, tree)
    n_leaves = 0
    for ea in analyses(tree):
        vfg = ea.vfg
        st = step_types(vfg)
        name = ea.cls.name
        env = short(ea.cls.qual)
        r_shape = spec_shape(vfg, ea.self_t, "reward_spec")
        d_shape = spec_shape(vfg, ea.self_t, "discount_spec")
        if r_shape is None or d_shape is None:
            raise AnalysisError(f"{env}: reward_spec/discount_spec shape not resolved")
        res.add("C03.R6", env_site(ea, "reward_spec")[0], f"{env}.reward_spec", "reward_spec.shape == discount_spec.shape",
                r_shape is d_shape, f"{txt(r_shape)} vs {txt(d_shape)}")
        # ---- R1 reset
        site, fn = env_site(ea, "reset")
        for l, _ in leaves(ea.reset_ts):
            n_leaves += 1
            k = timestep_kind(vfg, l, st)
            if k is None and l.kind != "construct":
                raise AnalysisError(f"{env}.reset: returned timestep not resolved to a constructor: {txt(l, 3)}")
            rw, dc = vfg.mk_attr(l, "reward"), vfg.mk_attr(l, "discount")
            ok = (k == "FIRST" and ext_name(rw) == "jax.numpy.zeros" and ext_name(dc) == "jax.numpy.ones")
            res.add("C03.R1", site, fn, "reset returns FIRST with zeros reward and ones discount", ok,
                    f"step_type {k}, reward {txt(rw, 3, 60)}, discount {txt(dc, 3, 60)}")
            if ok:
                sr, sd = fill_shape(rw), fill_shape(dc)
                res.add("C03.R6", site, fn, "restart shape == reward_spec/discount_spec shape",
                        sr is r_shape and sd is d_shape, f"restart shape {txt(sr)} / {txt(sd)}, specs {txt(r_shape)} / {txt(d_shape)}")
        # ---- R2 / R3 step
        site, fn = env_site(ea, "step")
        kinds = []
        mid_explicit = []
        for l, path in leaves(ea.step_ts):
            n_leaves += 1
            k = timestep_kind(vfg, l, st)
            if l.kind != "construct":
                raise AnalysisError(f"{env}.step: returned timestep not resolved to a constructor: {txt(l, 3)}")
            kinds.append(k)
            res.add("C03.R2", site, fn, f"step returns a constant step type in {{MID, LAST}} [{len(kinds)}]", k in ("MID", "LAST"),
                    f"step_type {k or txt(vfg.mk_attr(l, 'step_type'))}")
            dc = vfg.mk_attr(l, "discount")
            dn = ext_name(dc)
            if k == "LAST":
                if dn == "jax.numpy.zeros":
                    ok, why = True, "zeros"
                elif dn == "jax.numpy.ones" and name in TRUNCATION_ALLOWED:
                    ok, why = True, "ones (truncation) -- " + TRUNCATION_ALLOWED[name]
                else:
                    ok, why = False, f"LAST timestep with discount {txt(dc, 4, 100)}; truncation is documented only for {sorted(TRUNCATION_ALLOWED)}"
                res.add("C03.R3", site, fn, f"LAST discount is zero (or documented truncation) [{len(kinds)}]", ok, why)
                if dn in ("jax.numpy.zeros", "jax.numpy.ones"):
                    res.add("C03.R6", site, fn, f"LAST discount shape == discount_spec shape [{len(kinds)}]", fill_shape(dc) is d_shape,
                            f"{txt(fill_shape(dc))} vs {txt(d_shape)}")
            elif k == "MID":
                if dn == "jax.numpy.ones":
                    res.add("C03.R3", site, fn, f"MID discount is ones [{len(kinds)}]", True, "ones")
                    res.add("C03.R6", site, fn, f"MID discount shape == discount_spec shape [{len(kinds)}]", fill_shape(dc) is d_shape,
                            f"{txt(fill_shape(dc))} vs {txt(d_shape)}")
                elif name in EXPLICIT_DISCOUNT:
                    mid_explicit.append(dc)
                else:
                    res.add("C03.R3", site, fn, f"MID discount is ones [{len(kinds)}]", False,
                            f"MID timestep with explicit discount {txt(dc, 4, 100)}; only {sorted(EXPLICIT_DISCOUNT)} may pass one")
        res.add("C03.R2", site, fn, "step can return both MID and LAST", "MID" in kinds and "LAST" in kinds, f"kinds {kinds}")
        # ---- R4 explicit discount
        if name in EXPLICIT_DISCOUNT:
            if not mid_explicit:
                res.add("C03.R4", site, fn, "explicit MID discount is 1 - B and all(B) terminates", None,
                        "no explicit discount found any more (plain ones): nothing to check", nontrivial=False)
            conds = last_conditions(ea)
            for dc in mid_explicit:
                B = negand(dc)
                ok = False
                why = f"discount {txt(dc, 4, 100)} is not the complement of a boolean vector"
                if B is not None:
                    alls = [c for c in conds if ext_name(strip_cast(c)) in ("jax.numpy.all", "jax.numpy.any") and strip_cast(strip_cast(c).args[1][0]) is B]
                    ok = bool(alls)
                    why = (f"discount = 1 - B with B = {txt(B, 3, 80)}; all(B) is a LAST condition" if ok else
                           f"discount = 1 - B but all(B) is not among the LAST conditions {[txt(c, 3, 60) for c in conds]}: a MID step could have an all-zero discount")
                res.add("C03.R4", site, fn, "explicit MID discount is 1 - B and all(B) terminates", ok, why)
        # ---- R5 LBF switch table
        if name in TRUNCATION_ALLOWED:
            ts = ea.step_ts
            ok = False
            why = "final selection is not a 4-way switch"
            if ts.kind == "choice" and ts.args[0] == "switch" and len(ts.args[2]) == 4:
                dec = []
                for a in ts.args[2]:
                    k = timestep_kind(vfg, a, st)
                    dn = ext_name(vfg.mk_attr(a, "discount")) if a.kind == "construct" else None
                    dec.append((k, (dn or "?").split(".")[-1]))
                ok = dec == [("MID", "ones"), ("LAST", "zeros"), ("LAST", "ones"), ("LAST", "zeros")]
                why = f"decoded {dec}"
                last_conditions(ea)  # validates index form a + 2*b
                # the weight-2 bit (truncation branch) must be the time-limit test, the weight-1 bit must not be
                from ..normal import ge_form
                p = strip_cast(ts.args[1])
                bits = {}
                for x in (p.args[1], p.args[2]):
                    x = strip_cast(x)
                    if x.kind == "bin" and x.args[0] == "*":
                        l, r_ = strip_cast(x.args[1]), strip_cast(x.args[2])
                        bits[2] = r_ if l.kind == "const" else l
                    else:
                        bits[1] = x
                T_ = vfg.mk_attr(ea.self_t, "time_limit")
                def is_limit(b):
                    g = ge_form(b) if b is not None else None
                    return g is not None and g[1] is T_
                wired = is_limit(bits.get(2)) and not is_limit(bits.get(1))
                ok = ok and wired
                why += f"; weight-2 bit is the time-limit test: {is_limit(bits.get(2))}, weight-1 bit is not: {not is_limit(bits.get(1))}"
            res.add("C03.R5", site, fn, "switch table 00 MID / 01 termination / 10 truncation / 11 termination", ok, why)
    # ---- R7: the wrappers are environments too: an auto-reset step keeps the terminal timestep's step type, reward and
    # discount (replaced-field set = {observation}), and MultiToSingleWrapper aggregates the discount with max by default
    from .common import borrow
    n_wr = borrow(res, "c13", {"C13.R2": "C03.R7"}, only_if=lambda ob: "nothing else replace" in ob.construct or "replace" in ob.construct)
    n_wr += borrow(res, "c14", {"C14.R2.R2": "C03.R7"}, only_if=lambda ob: "replace" in ob.construct)
    n_wr += borrow(res, "c15", {"C15.R3": "C03.R7"}, envs=["MultiToSingleWrapper"])
    res.analysed = {"environments": len(analyses(tree)), "timestep_leaves": n_leaves,
                    "functions_in_closures": sum(len(e.reset_funcs) + len(e.step_funcs) for e in analyses(tree))}
    res.assumptions = ["lax.cond/switch select one of their branch results; jnp.zeros/ones fill semantics",
                       "exception tables: truncation only in LevelBasedForaging, explicit discount only in Connector (property text)"]
    return res
