"""C08 -- rewards add up to the documented objective; dense and sparse agree (structural wiring clauses only)."""
from __future__ import annotations

from typing import Dict, List

from ..engine import get_tree
from ..loader import AnalysisError, short
from ..normal import disjuncts, strip_cast
from ..report import Result
from ..terms import contains, uncopy
from .common import analyses, env_site, last_conditions, leaves, step_types, timestep_kind, txt

EXPLANATION = (
    "The property equates a floating-point sum over a runtime episode with a function of the final state; that equation "
    "itself is NOT decided here (no static argument in reach bounds the values computed by compute_tour_length, "
    "item_volume, merge, ...). Decided are the wiring clauses that are visible in the shape of the code and that every "
    "telescoping / dense-equals-sparse argument needs: (R1) reward relay -- in every environment the reward placed in the "
    "MID timestep and the reward placed in the LAST timestep of one step are the same value, the one computed by the "
    "reward function / reward expression (a terminal step whose reward is dropped, rescaled or recomputed loses the last "
    "term of the return: the closing edge of a tour, the last item's value, the final utilisation); (R2) the index "
    "arithmetic of reward code on non-square boards (row-major strides, bounds tests, wrap-around) uses the extent of the "
    "right axis (axis-kind engine shared with C07/C09), e.g. Minesweeper's mine lookup that decides between the "
    "revealed-square and the mine reward; (R3) argument roles at every call of a reward-function collaborator "
    "(Dense*/Sparse* classes, all candidates): the parameter named state receives the incoming state of step, the "
    "parameter named next_state/new_state receives a state built by this step (never the incoming state, and it depends "
    "on the action), and a parameter named is_done/done receives the very predicate on which step selects the LAST "
    "timestep (a sparse reward pays out exactly when the episode ends). Not decided: the values computed inside the reward "
    "functions, hence the equality of the return with the objective and of dense with sparse returns.")

MIN_ENVS_RELAY = 23
MIN_ROLE_SITES = 15
NEXT_NAMES = {"next_state", "new_state"}
DONE_NAMES = {"is_done", "done"}


def check(tier: str) -> Result:
    tree = get_tree()
    res = Result(explanation=EXPLANATION)
    n_relay = n_roles = 0
    for ea in analyses(tree):
        vfg = ea.vfg
        st = step_types(vfg)
        site, fn = env_site(ea, "step")
        # ---- R1 relay
        by_kind: Dict[str, List] = {"MID": [], "LAST": []}
        for l, _ in leaves(ea.step_ts):
            k = timestep_kind(vfg, l, st)
            if k in by_kind:
                rw = uncopy(strip_cast(vfg.mk_attr(l, "reward")))
                if rw not in by_kind[k]:
                    by_kind[k].append(rw)
        if not by_kind["MID"] or not by_kind["LAST"]:
            raise AnalysisError(f"{fn}: MID / LAST timestep constructors not found")
        same = set(by_kind["MID"]) == set(by_kind["LAST"]) and len(by_kind["MID"]) == 1
        res.add("C08.R1", site, fn, "the MID and the LAST timestep of a step carry the same reward value", same,
                "one reward node shared by both constructors" if same else
                f"MID reward {[txt(x, 3, 70) for x in by_kind['MID']]} vs LAST reward {[txt(x, 3, 70) for x in by_kind['LAST']]}: the terminal step's reward is not the reward function's value")
        n_relay += 1
        # ---- R3 roles
        try:
            lasts = last_conditions(ea)
        except AnalysisError:
            lasts = None
        pred = ea.step_ts.args[1] if ea.step_ts.kind == "choice" else None
        for f, vars_, caller, node, result in vfg.callsites:
            if f.name != "__call__" or f.cls is None or "reward" not in f.cls.qual.lower():
                continue
            names = set(vars_)
            csite = f"{caller.module.relpath}:{getattr(node, 'lineno', 0)}" if caller is not None and node is not None else site
            cfn = f"{fn} -> {short(f.cls.qual)}"
            if "state" in names and names & NEXT_NAMES:
                v = uncopy(strip_cast(vars_["state"]))
                ok = v is ea.state
                res.add("C08.R3", csite, cfn, "parameter `state` receives the incoming state of step", ok,
                        "incoming state" if ok else f"receives {txt(v, 3, 80)}")
                n_roles += 1
            for pn in sorted(names & NEXT_NAMES):
                v = uncopy(strip_cast(vars_[pn]))
                ok = v is not ea.state and contains(v, ea.action)
                res.add("C08.R3", csite, cfn, f"parameter `{pn}` receives a state built by this step", ok,
                        "depends on the action" if ok else ("receives the incoming state" if v is ea.state else f"{txt(v, 3, 80)} does not depend on the action"))
                n_roles += 1
            for pn in sorted(names & DONE_NAMES):
                v = strip_cast(vars_[pn])
                if pred is None or lasts is None:
                    continue
                have = set(disjuncts(v))
                want = set(lasts)
                if have == want:
                    ok, why = True, "the predicate that selects the LAST timestep"
                elif have < want or want < have:
                    ok, why = False, (f"passes {txt(v, 3, 80)} while step selects LAST on {[txt(x, 2, 40) for x in lasts]}: "
                                      f"{'a terminating condition is missing from' if have < want else 'an extra condition is in'} the flag handed to the reward function")
                else:
                    ok, why = None, "formulated differently from the LAST predicate (not compared)"
                res.add("C08.R3", csite, cfn, f"parameter `{pn}` receives the predicate on which step selects LAST", ok, why)
                n_roles += 1
    # ---- R2 axis sites of reward code
    from . import axis_rules
    n_axis = axis_rules.add_obligations(res, tree, "C08.R2", scope="reward")
    if n_relay < MIN_ENVS_RELAY or n_roles < MIN_ROLE_SITES:
        raise AnalysisError(f"instances below the hand-confirmed minimum: relay {n_relay} (>= {MIN_ENVS_RELAY}), role sites {n_roles} (>= {MIN_ROLE_SITES})")
    res.analysed = {"environments": n_relay, "reward_function_role_obligations": n_roles, "reward_axis_sites": n_axis}
    res.assumptions = ["parameter names of the reward-function interfaces carry their usual meaning (state = before, next_state/new_state = after, is_done = episode ends)",
                       "the value equation (return = objective, dense = sparse) is not decided"]
    return res
