"""C11 -- episodes end exactly at the configured time limit (12 time-limited environments).

Five syntactic premises per environment (see DESIGN.md section 3, C11)."""
from __future__ import annotations

from ..loader import AnalysisError, short
from ..normal import ge_form, linear, strip_cast, ext_name
from ..report import Result
from ..terms import NONE, T, const, mk, show, uncopy
from .common import (TIME_LIMITED, analyses, env_site, get_tree, last_conditions, leaves, step_types,
                     timestep_kind, txt)

EXPLANATION = (
    "Decided: for every environment whose constructor takes `time_limit`, (R1) the parameter flows to "
    "self.time_limit for every positive int, (R2) every reset path (all generator candidates) sets "
    "State.step_count to literal 0, (R3) step returns State.step_count = state.step_count + 1 on all paths, "
    "(R4) the predicate selecting the LAST constructor has a disjunct equivalent to "
    "state.step_count + 1 >= self.time_limit, (R5) that predicate selects a LAST timestep. By induction the "
    "count after n steps is n, so LAST occurs at step time_limit at the latest, and this disjunct cannot fire "
    "earlier. Also recorded with the same rule: FlatPack (num_blocks) and MultiCVRP (2*num_customers) "
    "structural horizons. Not decided: structural horizons of the 8 environments without counters "
    "(progress arguments over runtime masks); that no *other* disjunct fires spuriously.")


def _zero_literal(t: T) -> bool:
    t0 = t
    t = strip_cast(t)
    if t.kind == "const" and t.args[0] == 0 and not isinstance(t.args[0], bool):
        return True
    n = ext_name(t)
    if n in ("jax.numpy.zeros", "jax.numpy.zeros_like"):
        return True
    return False


def time_limit_envs(tree):
    out = []
    for ci in tree.environment_classes():
        init = tree.find_method(ci, "__init__")
        if init is not None and "time_limit" in [a.arg for a in init.node.args.args + init.node.args.kwonlyargs]:
            out.append(ci)
    return out


def check(tier: str) -> Result:
    tree = get_tree()
    res = Result(explanation=EXPLANATION)
    tl = time_limit_envs(tree)
    names = sorted(c.name for c in tl)
    missing = [n for n in TIME_LIMITED if n not in names]
    if missing:
        raise AnalysisError(f"time-limited environments no longer found: {missing}")
    from ..engine import analyse_env
    for ci in tl:
        ea = analyse_env(tree, ci)
        vfg = ea.vfg
        env = short(ci.qual)
        # ---- R1: configuration flow
        init = tree.find_method(ci, "__init__")
        self_t = ea.self_t
        params = {}
        args = []
        for a in init.node.args.args[1:]:
            p = mk("param", init.qual, a.arg)
            params[a.arg] = p
            args.append(p)
        kw = {a.arg: mk("param", init.qual, a.arg) for a in init.node.args.kwonlyargs}
        params.update(kw)
        from ..engine import VFG
        from ..model import Model
        v_init = VFG(tree, Model(tree))
        v_init.apply_func(init, self_t, init.cls, args, kw, None, None)
        stores = [e for e in v_init.events if e.kind == "store_attr" and e.target is self_t and e.name == "time_limit"]
        if not stores:
            raise AnalysisError(f"{env}.__init__: no assignment to self.time_limit found")
        P = params["time_limit"]
        # branch form: `if time_limit: self.time_limit = time_limit` / `else: self.time_limit = <default>` -- two stores under
        # complementary tests on the argument are the selection `time_limit if time_limit else <default>`
        if len(stores) == 2:
            from .common import norm_path as _np2
            def _ptest(e_):
                ts_ = [(t_, pol_) for t_, pol_, _f in _np2(e_.path) if t_ is P or (t_.kind == "cmp" and t_.args[0] == "is" and t_.args[1] is P and t_.args[2] is NONE)]
                return ts_[0] if len(ts_) == 1 else None
            pa, pb = _ptest(stores[0]), _ptest(stores[1])
            if pa is not None and pb is not None and pa[0] is pb[0] and pa[1] != pb[1]:
                def _given(pt):     # the path on which the argument was given (truthy / not None)
                    t_, pol_ = pt
                    return pol_ if t_ is P else (not pol_)
                given, dflt_e = (stores[0], stores[1]) if _given(pa) else (stores[1], stores[0])
                if strip_cast(given.value) is P and strip_cast(dflt_e.value) is not P:
                    res.add("C11.R1", given.loc(), f"{env}.__init__", "self.time_limit <- time_limit", True,
                            f"time_limit when it is given, {txt(strip_cast(dflt_e.value), 3, 50)} otherwise (two stores under complementary tests)")
                    stores = []
        for e in stores:
            v = strip_cast(e.value)
            ok = None
            why = ""
            if v is P:
                ok, why = True, "direct"
            elif v.kind == "bool" and v.args[0] == "or" and v.args[1][0] is P:
                ok, why = True, "time_limit or <default>"
            elif v.kind == "choice" and v.args[0] == "ifexp":
                c = v.args[1]
                a, b = v.args[2]
                if c.kind == "cmp" and c.args[1] is P and c.args[2] is NONE:
                    if (c.args[0] == "is" and strip_cast(b) is P) or (c.args[0] == "isnot" and strip_cast(a) is P):
                        ok, why = True, "default if None"
                elif c is P and strip_cast(a) is P:
                    ok, why = True, "time_limit if time_limit else default"
            elif v.kind == "phi" and len(v.args[0]) == 2:
                # statement form: `if <test on time_limit>: time_limit = <default>` (or the mirrored form)
                from ..terms import contains as _contains
                from .common import norm_cond
                tests = [norm_cond(uncopy(ev.target), True) for ev in v_init.events
                         if ev.kind == "py_branch" and ev.name == "if" and ev.target is not None and _contains(ev.target, P)]
                a, b = (strip_cast(x) for x in v.args[0])    # value on the then-path, value on the else-path
                if len(tests) == 1:
                    t_, pol = tests[0]
                    is_none_test = t_.kind == "cmp" and t_.args[0] == "is" and t_.args[1] is P and t_.args[2] is NONE
                    # then-path runs when: P is None (pol True) / P falsy (t_ is P, pol False)
                    then_is_default = (is_none_test and pol) or (t_ is P and not pol)
                    then_is_param = (is_none_test and not pol) or (t_ is P and pol)
                    if (then_is_default and b is P and a is not P) or (then_is_param and a is P and b is not P):
                        ok, why = True, ("default if None" if is_none_test else "time_limit if time_limit else default") + " (statement form)"
                        v = mk("choice", "ifexp", uncopy([ev.target for ev in v_init.events if ev.kind == "py_branch" and ev.name == "if" and ev.target is not None and _contains(ev.target, P)][0]),
                               (a, b))
            if ok is None:
                from ..terms import contains
                if not contains(v, P):
                    ok, why = False, f"self.time_limit = {txt(v)} does not depend on the time_limit argument"
                else:
                    # forms that definitely replace some positive value of the argument by another value
                    from ..normal import ext_name as _ext
                    n_ = _ext(v)
                    oper = [strip_cast(x) for x in (v.args[1] if v.kind == "call" else ())]
                    if n_ in ("builtins.max", "jax.numpy.maximum", "numpy.maximum") and len(oper) == 2 and any(x is P for x in oper):
                        other = [x for x in oper if x is not P][0]
                        if other.kind == "const" and isinstance(other.args[0], int) and other.args[0] <= 1:
                            ok, why = True, "max(time_limit, c) with c <= 1 is the identity on positive limits"
                        else:
                            ok, why = False, f"self.time_limit = {txt(v)}: every time_limit below {txt(other, 3, 60)} is silently replaced by it"
                    elif n_ in ("builtins.min", "jax.numpy.minimum", "numpy.minimum") and len(oper) == 2 and any(x is P for x in oper):
                        other = [x for x in oper if x is not P][0]
                        ok, why = False, f"self.time_limit = {txt(v)}: every time_limit above {txt(other, 3, 60)} is silently replaced by it"
                    elif v.kind == "bin" and (strip_cast(v.args[1]) is P or strip_cast(v.args[2]) is P):
                        other = strip_cast(v.args[2]) if strip_cast(v.args[1]) is P else strip_cast(v.args[1])
                        ident = other.kind == "const" and ((v.args[0] in ("+", "-") and other.args[0] == 0) or (v.args[0] in ("*", "//") and other.args[0] == 1))
                        if ident:
                            ok, why = True, "arithmetic identity"
                        else:
                            ok, why = False, f"self.time_limit = {txt(v)} is not the value passed as time_limit"
                    else:
                        raise AnalysisError(f"{env}.__init__: unrecognised flow self.time_limit = {txt(v)}")
            res.add("C11.R1", e.loc(), f"{env}.__init__", "self.time_limit <- time_limit", ok, f"{why}: {txt(v)}")
            # documented default `num_rows * num_cols`: a product of two grid extents must use both axes
            from ..axis import NAME_AXIS
            dflt = None
            if v.kind == "bool" and len(v.args[1]) == 2:
                dflt = strip_cast(v.args[1][1])
            elif v.kind == "choice":
                dflt = next((strip_cast(x) for x in v.args[2] if strip_cast(x) is not P), None)
            if dflt is not None and dflt.kind == "bin" and dflt.args[0] == "*":
                ax = []
                for x in (dflt.args[1], dflt.args[2]):
                    x = strip_cast(x)
                    ax.append(NAME_AXIS.get(x.args[1].lstrip("_")) if x.kind == "attr" else None)
                if None not in ax:
                    res.add("C11.R1", e.loc(), f"{env}.__init__", "default time limit is the grid area (rows x columns)", ax[0] != ax[1],
                            f"default {txt(dflt)} multiplies the extents of axes {ax}")
        # ---- R2: counter init
        site, fn = env_site(ea, "reset")
        sc0 = vfg.mk_attr(ea.reset_state, "step_count")
        lv = leaves(sc0)
        for l, _ in lv:
            if l.kind == "attr" and l.args[1] == "step_count":
                raise AnalysisError(f"{env}.reset: State.step_count not resolved: {txt(l)}")
            res.add("C11.R2", site, fn, "reset State.step_count == 0", _zero_literal(l), f"value {txt(l)}")
        # ---- R3: increment
        site, fn = env_site(ea, "step")
        old = vfg.mk_attr(ea.state, "step_count")
        sc1 = vfg.mk_attr(ea.step_state, "step_count")
        for l, _ in leaves(sc1):
            b, k = linear(l)
            ok = (b is old and k == 1)
            res.add("C11.R3", site, fn, "step State.step_count == state.step_count + 1", ok, f"value {txt(l)}")
        # ---- R4 / R5
        conds = last_conditions(ea)
        T_ = vfg.mk_attr(self_t, "time_limit")
        hit = []
        near = []
        for c in conds:
            g = ge_form(c)
            if g is None:
                continue
            X, Y, k = g
            if X is old and Y is T_:
                (hit if k == -1 else near).append((c, k))
        if hit:
            res.add("C11.R4", site, fn, "LAST if state.step_count + 1 >= self.time_limit", True, f"disjunct {txt(hit[0][0])}")
        elif near:
            c, k = near[0]
            res.add("C11.R4", site, fn, "LAST if state.step_count + 1 >= self.time_limit", False,
                    f"disjunct {txt(c)} means step_count >= time_limit{k:+d}: episode ends at step time_limit{k + 1:+d}")
        else:
            res.add("C11.R4", site, fn, "LAST if state.step_count + 1 >= self.time_limit", False,
                    f"no disjunct of the LAST predicate compares the step counter with self.time_limit; disjuncts: {[txt(c, 3, 80) for c in conds]}")
        res.add("C11.R5", site, fn, "limit predicate selects a LAST constructor", bool(conds),
                "structure of the returned timestep decoded" if conds else "no LAST-sufficient condition found")
    # ---- structural horizons with counters (recorded, same rule)
    for name, bound_desc in (("FlatPack", "num_blocks"), ("MultiCVRP", "2*num_customers")):
        cis = [c for c in tree.environment_classes() if c.name == name]
        if not cis:
            raise AnalysisError(f"environment {name} not found")
        ea = analyse_env(tree, cis[0])
        vfg = ea.vfg
        site, fn = env_site(ea, "step")
        old = vfg.mk_attr(ea.state, "step_count")
        sc1 = vfg.mk_attr(ea.step_state, "step_count")
        b, k = linear(sc1)
        res.add("C11.R3", site, fn, "step State.step_count == state.step_count + 1", b is old and k == 1, f"value {txt(sc1)}")
        conds = last_conditions(ea)
        found = None
        for c in conds:
            g = ge_form(c)
            if g and g[0] is old:
                found = (c, g)
        ok = found is not None
        why = "no counter disjunct"
        if ok:
            Y, k = found[1][1], found[1][2]
            why = f"disjunct {txt(found[0])} normal form step_count >= {txt(Y, 3)}{k:+d}"
            # reference forms (documented horizons; today's tree): FlatPack new_count >= state.num_blocks;
            # MultiCVRP new_count > 2 * num_customers
            Ys = strip_cast(Y) if Y is not None else None
            if name == "FlatPack":
                ok = Ys is vfg.mk_attr(ea.state, "num_blocks") and k == -1
            else:
                from ..shapes import canon
                sides = [strip_cast(Ys.args[1]), strip_cast(Ys.args[2])] if Ys is not None and Ys.kind == "bin" and Ys.args[0] == "*" else []
                two_n = len(sides) == 2 and const(2) in sides and any(
                    x.kind == "attr" and x.args[0] is ea.self_t and canon(vfg, x.args[1]) == canon(vfg, "num_customers") for x in sides)
                ok = bool(two_n) and k == 0
            if not ok:
                why += f" -- not the documented horizon ({bound_desc})"
        res.add("C11.R6", site, fn, f"LAST when the counter reaches the structural horizon ({bound_desc})", ok, why)
    # ---- TSP: the number of visited cities is a progress counter (0 at reset, +1 on every valid step, unchanged on an
    # invalid one, which terminates): the episode ends within num_cities steps
    cis = [c for c in tree.environment_classes() if c.name == "TSP"]
    if not cis:
        raise AnalysisError("environment TSP not found")
    ea = analyse_env(tree, cis[0])
    vfg = ea.vfg
    site, fn = env_site(ea, "step")
    from ..terms import uncopy as _unc
    from ..shapes import canon as _canon
    old = vfg.mk_attr(ea.state, "num_visited")
    new = _unc(strip_cast(vfg.mk_attr(ea.step_state, "num_visited")))
    alts = list(new.args[2]) if new.kind == "choice" else [new]
    incs = [a for a in alts if linear(_unc(strip_cast(a))) == (old, 1)]
    keeps = [a for a in alts if _unc(strip_cast(a)) is old]
    ok3 = len(incs) == 1 and len(incs) + len(keeps) == len(alts)
    res.add("C11.R6", site, fn, "TSP: num_visited advances by exactly 1 on a valid step and is unchanged otherwise", ok3, f"value {txt(new, 4, 120)}")
    r0 = _unc(strip_cast(vfg.mk_attr(ea.reset_state, "num_visited")))
    r_alts = list(r0.args[0]) if r0.kind == "phi" else [r0]
    def _is_zero(t):
        t = _unc(strip_cast(t))
        while t.kind == "call" and t.args[1] and ext_name(t) in ("jax.numpy.array", "jax.numpy.asarray", "jax.numpy.int32"):
            t = _unc(strip_cast(t.args[1][0]))
        return t.kind == "const" and t.args[0] == 0 and not isinstance(t.args[0], bool)
    res.add("C11.R6", env_site(ea, "reset")[0], env_site(ea, "reset")[1], "TSP: num_visited starts at 0", all(_is_zero(a) for a in r_alts), f"value {txt(r0, 3, 80)}")
    conds = last_conditions(ea)
    hit = None
    from ..normal import negand as _negand
    for c in conds:
        c0 = strip_cast(c)
        n0 = _negand(c0)
        if n0 is not None and n0.kind == "cmp" and n0.args[0] in ("!=", "<"):
            c0 = mk("cmp", {"!=": "==", "<": ">="}[n0.args[0]], n0.args[1], n0.args[2])      # not (x != N) is x == N
        if c0.kind == "cmp" and c0.args[0] in ("==", ">="):
            a_, b_ = _unc(strip_cast(c0.args[1])), _unc(strip_cast(c0.args[2]))
            for x, y in ((a_, b_), (b_, a_)):
                if x is new and y.kind == "attr" and y.args[0] is ea.self_t and _canon(vfg, y.args[1]) == _canon(vfg, "num_cities") and (c0.args[0] == "==" or x is a_):
                    hit = c
    res.add("C11.R6", site, fn, "TSP: LAST when the new num_visited reaches num_cities", hit is not None,
            f"disjunct {txt(hit, 3, 80)}" if hit is not None else f"no disjunct compares the new num_visited with self.num_cities: {[txt(c, 3, 60) for c in conds]}")
    # ---- R7: the counter belongs to the state VALUE: a step that writes into its argument advances the caller's counter
    # (re-stepping a kept state then ends the episode early); and the limit a user passes through make() is the one used
    from .common import borrow, TIME_LIMITED as _TL
    n_b = borrow(res, "c02", {"C02.R3": "C11.R7"}, envs=_TL, only_if=lambda ob: "argument of reset/step" in ob.detail)
    n_b += borrow(res, "c18", {"C18.R3": "C11.R7", "C18.R7": "C11.R7"}, only_if=lambda ob: "make" in ob.func or "time_limit" in ob.detail)
    res.analysed = {"environments_with_time_limit": names, "count": len(names)}
    res.assumptions = ["Python `or` / conditional-expression semantics; integer step counters",
                       "time_limit is a positive int (0/None select the documented default)"]
    return res
