"""Shared by C04.R1 and C12.R1: no stale read of superseded state in values returned by step,
and observation fields agree with the same-named field of the state returned with them."""
from __future__ import annotations

from typing import Dict, List, Optional, Set, Tuple

from ..engine import EnvAnalysis
from ..loader import AnalysisError
from ..normal import strip_cast
from ..terms import T, children, deps, mk, show
from .common import leaves, txt


def components(t: T, out: Optional[Set[T]] = None, vfg=None) -> Set[T]:
    """t, its cast-stripped core and its structural components (record fields, container items)."""
    if out is None:
        out = set()
    if t in out:
        return out
    out.add(t)
    s = strip_cast(t)
    if s is not t:
        components(s, out, vfg)
    if t.kind == "construct":
        for _, v in t.args[1]:
            components(v, out, vfg)
    elif t.kind in ("tuple", "list"):
        for v in t.args[0]:
            components(v, out, vfg)
    elif t.kind == "dict":
        for v in t.args[1]:
            components(v, out, vfg)
    elif t.kind == "update":
        components(t.args[2], out, vfg)
    elif t.kind == "copy":
        components(t.args[0], out, vfg)
    if t.kind == "batched":
        components(t.args[0], out, vfg)  # per-element view of a mapped result
    if vfg is not None and t.kind in ("choice", "phi", "batched", "elem", "loop", "update", "copy"):
        ci = vfg.typeof(t)
        if ci is not None and vfg.tree.is_record(ci):
            for f in vfg.tree.fields(ci):
                components(vfg.mk_attr(t, f), out, vfg)
    return out


def flat_fields(vfg, t: T, prefix: str = "") -> List[Tuple[str, T]]:
    """Leaves of a record value as (dotted field path, term)."""
    if t.kind == "construct":
        out = []
        for n, v in t.args[1]:
            out += flat_fields(vfg, v, f"{prefix}{n}.")
        return out
    return [(prefix[:-1], t)]


class StepFlow:
    def __init__(self, ea: EnvAnalysis):
        self.ea = ea
        vfg = ea.vfg
        tree = vfg.tree
        if ea.state_cls is None:
            raise AnalysisError(f"{ea.cls.qual}: State type not resolved")
        self.fields = tree.fields(ea.state_cls)
        self.old = {f: vfg.mk_attr(ea.state, f) for f in self.fields}
        self.new = {f: vfg.mk_attr(ea.step_state, f) for f in self.fields}
        self.superseded = {f for f in self.fields if self.new[f] is not self.old[f]}
        self.stop: Set[T] = set()
        for f in self.fields:
            if f in self.superseded:
                self.stop |= components(self.new[f], None, vfg)
        self.stop_ids = {t.id for t in self.stop}
        self.old_by_id = {self.old[f].id: f for f in self.superseded}

    def covered(self, n: T, depth: int = 0) -> bool:
        """n is a value stored in the returned state, or a projection (field, element) of one."""
        if n.id in self.stop_ids:
            return True
        if depth > 8:
            return False
        for src in self.ea.vfg.projection_of.get(n.id, ()):
            if src.id not in self.old_by_id and src is not self.ea.state and self.covered(src, depth + 1):
                return True
        return False

    def stale_reads(self, value: T, exclude_field: Optional[str] = None) -> List[str]:
        """Superseded state fields read by `value` other than through a value stored in the returned state."""
        stop_ids = self.stop_ids
        if exclude_field is not None:
            own = {t.id for t in components(self.new[exclude_field], None, self.ea.vfg)}
        else:
            own = set()
        found = []
        seen = set()
        stack = [value]
        root = value
        state = self.ea.state
        while stack:
            n = stack.pop()
            if n.id in seen:
                continue
            seen.add(n.id)
            if n.id not in own and self.covered(n):
                continue
            if n.kind == "attr" and n.args[0] is state and n.id not in self.old_by_id:
                continue  # read of a field the step leaves unchanged
            if n.id in self.old_by_id:
                found.append(self.old_by_id[n.id])
                continue
            if n is state:
                found.append("<whole state>")
                continue
            stack.extend(children(n))
        return sorted(set(found))


def observation_leaves(ea: EnvAnalysis, ts: T) -> List[T]:
    vfg = ea.vfg
    out = []
    for l, _ in leaves(ts):
        o = vfg.mk_attr(l, "observation")
        for ol, _ in leaves(o):
            if ol not in out:
                out.append(ol)
    return out
