"""C12.R2 -- wiring of the documented computed views (Snake feature planes, BinPack normalisation and
largest-EMS selection, Tetris board/next piece).  Structural facts read off the value-flow graph of
reset and step; the content of the views beyond their wiring is value-level and not decided."""
from __future__ import annotations

from typing import Dict, List, Optional

from ..engine import EnvAnalysis
from ..loader import AnalysisError, short
from ..normal import ext_name, strip_cast
from ..terms import T, contains, deps, mk, uncopy
from .common import env_site, leaves, txt
from .stale import flat_fields, observation_leaves


def _obs(ea: EnvAnalysis, ts: T) -> List[Dict[str, T]]:
    return [dict(flat_fields(ea.vfg, o)) for o in observation_leaves(ea, ts) if o.kind == "construct"]


def at_set(t: T):
    if t.kind == "call" and t.args[0].kind == "attr" and t.args[0].args[1] == "set" and t.args[0].args[0].kind == "index" \
            and t.args[0].args[0].args[0].kind == "attr" and t.args[0].args[0].args[0].args[1] == "at" and len(t.args[1]) == 1:
        return t.args[0].args[0].args[0].args[0], t.args[0].args[0].args[1], t.args[1][0]
    return None


def snake(res, ea: EnvAnalysis, rule: str) -> int:
    vfg = ea.vfg
    n = 0
    for which, ts, st in (("reset", ea.reset_ts, ea.reset_state), ("step", ea.step_ts, ea.step_state)):
        site, fn = env_site(ea, which)
        for o in _obs(ea, ts):
            g = o.get("grid")
            if g is None:
                raise AnalysisError("Snake observation has no grid")
            ok = False
            why = txt(g, 4, 160)
            if ext_name(g) == "jax.numpy.concatenate" and g.args[1] and g.args[1][0].kind in ("list", "tuple") and len(g.args[1][0].args[0]) == 5:
                ax = dict(g.args[2]).get("axis")
                planes = []
                for p in g.args[1][0].args[0]:
                    # x[..., None]
                    planes.append(p.args[0] if p.kind == "index" else p)
                body, head, tail, fruit, norm = planes
                S = {f: vfg.mk_attr(st, f) for f in ("body", "tail", "body_state", "head_position", "fruit_position")}
                c0 = strip_cast(body) is strip_cast(S["body"])
                c2 = strip_cast(tail) is strip_cast(S["tail"])
                h = at_set(head)
                f_ = at_set(fruit)
                hp = [vfg.mk_attr(S["head_position"], k) for k in ("row", "col")]
                fp = [vfg.mk_attr(S["fruit_position"], k) for k in ("row", "col")]
                c1 = h is not None and uncopy(h[1]) is mk("tuple", tuple(hp)) and strip_cast(h[2]).kind == "const"
                c3 = f_ is not None and uncopy(f_[1]) is mk("tuple", tuple(fp)) and strip_cast(f_[2]).kind == "const"
                c4 = norm.kind == "bin" and norm.args[0] == "/" and strip_cast(norm.args[1]) is strip_cast(S["body_state"]) and contains(norm.args[2], S["body_state"])
                last = ax is not None and ax.kind == "const" and ax.args[0] == -1
                ok = c0 and c1 and c2 and c3 and c4 and last
                why = f"planes [body={c0}, head@head_position={c1}, tail={c2}, fruit@fruit_position={c3}, body_state/max={c4}], stacked on the last axis: {last}"
            res.add(rule, site, fn, "grid = [body, head, tail, fruit, normalised body order] of the returned state, in that order", ok, why)
            n += 1
    return n


AXIS_LETTER = {"x1": "x", "x2": "x", "y1": "y", "y2": "y", "z1": "z", "z2": "z", "x_len": "x", "y_len": "y", "z_len": "z"}


def bin_pack(res, ea: EnvAnalysis, rule: str) -> int:
    """Normalisation divides every coordinate by the container length of the SAME axis; the EMS shown are
    the first obs_num_ems of the volume-sorted order, and ems / ems_mask use the same selection."""
    vfg = ea.vfg
    n = 0
    site, fn = env_site(ea, "step")
    f = vfg.tree.find_method(ea.cls, "_normalize_ems_and_items")
    if f is not None:
        site, fn = f.loc(), short(f.qual)
    seen = set()
    cont = None
    for t in deps(ea.step_result) | deps(ea.reset_result):
        if t.kind != "construct" or t.id in seen:
            continue
        cname = t.args[0].split(".")[-1]
        if cname not in ("Space", "Item"):
            continue
        fields = dict(t.args[1])
        # a normaliser record: every field is a difference of two container coordinates
        diffs = {}
        for name, val in fields.items():
            v = strip_cast(val)
            if v.kind == "bin" and v.args[0] == "-":
                a, b = strip_cast(v.args[1]), strip_cast(v.args[2])
                if a.kind == "attr" and b.kind == "attr" and a.args[0] is b.args[0] and a.args[1][:1] == b.args[1][:1] and a.args[1][:1] in "xyz" \
                        and a.args[0].kind == "attr" and a.args[0].args[1] == "container":
                    diffs[name] = a.args[1][:1]
        if len(diffs) != len(fields) or not diffs:
            continue
        seen.add(t.id)
        bad = {k: v for k, v in diffs.items() if AXIS_LETTER.get(k) != v}
        res.add(rule, site, fn, f"normaliser {cname}({', '.join(sorted(fields))}) divides each coordinate by the container length of its own axis", not bad,
                "axis letters agree" if not bad else f"fields normalised by the wrong axis: {bad}")
        n += 1
    # division direction: observation / container (not the reverse)
    for which, ts in (("reset", ea.reset_ts), ("step", ea.step_ts)):
        for o in _obs(ea, ts):
            for fld in ("ems", "items"):
                keys = [k for k in o if k.startswith(fld + ".")]
                for k in keys[:1]:
                    for alt in (o[k].args[0] if o[k].kind == "phi" else (o[k],)):
                        tm_ = [x for x in deps(alt) if ext_name(x) in ("jax.tree_util.tree_map", "jax.tree_map") and x.args[1] and x.args[1][0].kind == "bin"]
                        for x in tm_[:1]:
                            body = x.args[1][0]
                            if body.args[0] in ("/", "*"):
                                okd = body.args[0] == "/" and body.args[1].kind == "leaf" and body.args[2].kind == "leaf" and \
                                    any(c.kind == "construct" for c in deps(body.args[2]))
                                res.add(rule, *env_site(ea, which), f"normalised {fld} = {fld} / container lengths (leaf-wise)", okd, txt(body, 4, 120))
                                n += 1
    # largest-EMS selection shared by ems and ems_mask
    for which, ts in (("reset", ea.reset_ts), ("step", ea.step_ts)):
        for o in _obs(ea, ts):
            m = o.get("ems_mask")
            if m is None:
                continue
            sel = [x for x in deps(m) if x.kind == "index" and x.args[1].kind == "slice"]
            idxs = [x for x in deps(m) if ext_name(x) == "jax.numpy.argsort"]
            ok = False
            why = txt(m, 4, 140)
            if m.kind == "index" and idxs:
                I = m.args[1]
                sl = I if I.kind == "index" else None
                k_ok = sl is not None and sl.args[1].kind == "slice" and sl.args[1].args[1] is vfg.mk_attr(ea.self_t, "obs_num_ems") and ext_name(sl.args[0]) == "jax.numpy.argsort"
                neg = k_ok and strip_cast(sl.args[0].args[1][0]).kind == "un" and strip_cast(sl.args[0].args[1][0]).args[0] == "-"
                ems_keys = [k for k in o if k == "ems" or k.startswith("ems.")]
                same = all(any(x.kind == "index" and x.args[1] is I for x in deps(o[k])) for k in ems_keys) if ems_keys else False
                masked = False
                if k_ok and neg:
                    key = strip_cast(strip_cast(sl.args[0].args[1][0]).args[1])
                    # inactive (deleted) EMS keep stale coordinates: their volume must be zeroed by the mask before ranking
                    masked = key.kind == "bin" and key.args[0] == "*" and any(strip_cast(m.args[0]) is strip_cast(x) for x in (key.args[1], key.args[2])) if m.kind == "index" else False
                ok = bool(k_ok and neg and same and masked)
                why = (f"indices = argsort(-volume)[:obs_num_ems]: {bool(k_ok and neg)}; ranking key is volume * ems_mask (inactive EMS rank last): {masked}; "
                       f"ems coordinates use the same indices: {same}")
            res.add(rule, *env_site(ea, which), "the EMS shown are the obs_num_ems largest (descending volume), same selection for ems and ems_mask", ok, why)
            n += 1
    return n


def tetris(res, ea: EnvAnalysis, rule: str) -> int:
    vfg = ea.vfg
    n = 0
    site, fn = env_site(ea, "step")
    for o in _obs(ea, ea.step_ts):
        g, t = o.get("grid"), o.get("tetromino")
        S = ea.step_state
        gp = vfg.mk_attr(S, "grid_padded")
        ok = g is not None and contains(g, gp) and g.kind == "index" and g.args[1].kind == "tuple" and all(x.kind == "slice" for x in g.args[1].args[0])
        res.add(rule, site, fn, "grid is the visible window of the returned state's padded board", bool(ok), txt(g, 4, 120) if g is not None else "no grid")
        ok = t is not None and strip_cast(t) is strip_cast(vfg.mk_attr(S, "new_tetromino"))
        res.add(rule, site, fn, "tetromino is the next piece stored in the returned state", bool(ok), txt(t, 4, 100) if t is not None else "no tetromino")
        idx = vfg.mk_attr(S, "tetromino_index")
        ok = t is not None and contains(t, idx)
        res.add(rule, site, fn, "the next piece shown is the one selected by the returned state's tetromino_index", bool(ok), txt(idx, 4, 80))
        n += 3
    return n


def add_obligations(res, by_name: Dict[str, EnvAnalysis], rule: str) -> int:
    n = 0
    for name, fn in (("Snake", snake), ("BinPack", bin_pack), ("Tetris", tetris)):
        if name not in by_name:
            raise AnalysisError(f"environment {name} not found")
        n += fn(res, by_name[name], rule)
    return n
