"""Mask <-> step-side validity comparison (C04.R3b) and the validity value used by C05.

The mask shown in the observation is a term over the values stored in the returned state.  Rewriting
those values back to the incoming state's fields gives the mask the agent saw *before* this step
(the same expression is used by reset/step).  The validity test that step applies to the action is
compared with that mask after erasing the indexing by the action and normalising comparisons."""
from __future__ import annotations

from typing import Dict, List, Optional, Set, Tuple

from ..engine import EnvAnalysis
from ..normal import conjuncts, disjuncts, ext_name, negand, strip_cast
from ..terms import T, children, contains, deps, mk
from .stale import StepFlow, components, flat_fields, observation_leaves

_memo: Dict[Tuple[int, int], T] = {}


def rewrite(t: T, mapping: Dict[int, T], memo: Optional[Dict[int, T]] = None, vfg=None) -> T:
    if memo is None:
        memo = {}
    r = memo.get(t.id)
    if r is not None:
        return r
    if t.id in mapping:
        memo[t.id] = mapping[t.id]
        return mapping[t.id]
    if vfg is not None:
        # t is a field / element of a mapped value (attribute access distributed over a selection):
        # rebuild the same access on the image of that value
        for src, acc in vfg.projection_acc.get(t.id, ()):
            if src.kind in ("const", "ext", "cls", "mod", "self", "param"):
                continue
            memo[t.id] = t  # cycle guard
            img = rewrite(src, mapping, memo, vfg)
            if img is not src and _mapped_root(src, mapping, vfg, 0):
                r = vfg.mk_attr(img, acc[1]) if acc[0] == "attr" else vfg.mk_proj(img, acc[1])
                memo[t.id] = r
                return r
            del memo[t.id]
    if t.kind in ("fn", "opaque", "const", "ext", "cls", "mod", "self", "param"):
        memo[t.id] = t
        return t

    def conv(a):
        if isinstance(a, T):
            return rewrite(a, mapping, memo, vfg)
        if isinstance(a, tuple):
            return tuple(conv(x) for x in a)
        return a

    new_args = tuple(conv(a) for a in t.args)
    same = all(_same(x, y) for x, y in zip(new_args, t.args))
    r = t if same else mk(t.kind, *new_args)
    memo[t.id] = r
    return r


def _mapped_root(t: T, mapping, vfg, depth: int) -> bool:
    """t is a mapped value or a projection (chain) of one."""
    if t.id in mapping:
        return True
    if depth > 6:
        return False
    return any(_mapped_root(src, mapping, vfg, depth + 1) for src, _ in vfg.projection_acc.get(t.id, ()))


def _same(a, b) -> bool:
    if isinstance(a, tuple) and isinstance(b, tuple):
        return len(a) == len(b) and all(_same(x, y) for x, y in zip(a, b))
    return a is b or (not isinstance(a, T) and a == b)


def old_mask(ea: EnvAnalysis, sf: StepFlow, mask_new: T) -> T:
    """The mask expression with every value stored in the returned state replaced by the incoming
    state's field (and fields of nested records likewise)."""
    vfg = ea.vfg
    tree = vfg.tree
    mapping: Dict[int, T] = {}
    for f in sf.fields:
        if f not in sf.superseded:
            continue
        new, old = sf.new[f], sf.old[f]
        mapping[new.id] = old
        c = strip_cast(new)
        mapping.setdefault(c.id, old)
        ci = vfg.typeof(new)
        if ci is not None and tree.is_record(ci):
            for g in tree.fields(ci):
                n2 = vfg.mk_attr(new, g)
                mapping.setdefault(n2.id, vfg.mk_attr(old, g))
                mapping.setdefault(strip_cast(n2).id, vfg.mk_attr(old, g))
        if new.kind == "batched":
            # per-element view of a mapped result  <->  element of the incoming field
            mapping.setdefault(new.args[0].id, vfg.wrap("elem", old))
    return rewrite(mask_new, mapping, None, vfg)


def canonical_action(t: T, action: T) -> T:
    """Per-action view of a mask built by mapping a body over an enumeration of actions:
    `ones(..).at[I].set(batched(body))` / `batched(body)` -> body, with the enumeration variable
    elem(arange(..)) and the per-agent elem(action) both replaced by the action."""
    t = strip_cast(t)
    while t.kind in ("batched", "copy"):
        t = strip_cast(t.args[0])
    # ones.at[I].set(X): entries outside I are constant True (no-op always allowed) -- keep X
    while t.kind == "call" and t.args[0].kind == "attr" and t.args[0].args[1] == "set" and t.args[0].args[0].kind == "index" \
            and t.args[0].args[0].args[0].kind == "attr" and t.args[0].args[0].args[0].args[1] == "at" \
            and ext_name(strip_cast(t.args[0].args[0].args[0].args[0])) in ("jax.numpy.ones",) and len(t.args[1]) == 1:
        t = strip_cast(t.args[1][0])
        while t.kind in ("batched", "copy"):
            t = strip_cast(t.args[0])
    # X.at[<constant index>].set(Y): a single documented special entry (CVRP's depot); the general entries are X
    while t.kind == "call" and t.args[0].kind == "attr" and t.args[0].args[1] == "set" and t.args[0].args[0].kind == "index" \
            and t.args[0].args[0].args[0].kind == "attr" and t.args[0].args[0].args[0].args[1] == "at" \
            and strip_cast(t.args[0].args[0].args[1]).kind == "const" and len(t.args[1]) == 1:
        t = strip_cast(t.args[0].args[0].args[0].args[0])
    mapping: Dict[int, T] = {}
    for n in deps(t):
        if n.kind == "elem":
            inner = strip_cast(n.args[0])
            if inner is action or ext_name(inner) in ("jax.numpy.arange",):
                mapping[n.id] = action
    return rewrite(t, mapping) if mapping else t


def erase_action_index(t: T, action: T) -> T:
    """index(X, <something built from the action>) -> X ; batched(body) -> body ; elem(X) -> X."""
    t = canonical_action(t, action)
    memo: Dict[int, T] = {}

    def go(x: T) -> T:
        r = memo.get(x.id)
        if r is not None:
            return r
        if x.kind in ("const", "ext", "cls", "mod", "self", "param", "fn", "opaque"):
            memo[x.id] = x
            return x
        if x.kind == "index" and contains(x.args[1], action):
            r = go(x.args[0])
        elif x.kind in ("batched", "elem", "copy"):
            r = go(x.args[0])
        elif ext_name(x) in ("jax.numpy.all", "jax.numpy.any") and len(x.args[1]) == 1 and dict(x.args[2]).get("axis") is not None:
            # reduction over a trailing coordinate axis is kept
            r = mk("call", x.args[0], (go(x.args[1][0]),), x.args[2])
        else:
            def conv(a):
                if isinstance(a, T):
                    return go(a)
                if isinstance(a, tuple):
                    return tuple(conv(y) for y in a)
                return a
            na = tuple(conv(a) for a in x.args)
            r = x if all(_same(p, q) for p, q in zip(na, x.args)) else mk(x.kind, *na)
        memo[x.id] = r
        return r

    return go(t)


# ---------------------------------------------------------------------- atom normal form
def _terms(t: T, sign: int, pos: List[T], neg: List[T], k: List[float]) -> None:
    t = strip_cast(t)
    if t.kind == "const" and isinstance(t.args[0], (int, float)) and not isinstance(t.args[0], bool):
        k[0] += sign * t.args[0]
    elif t.kind == "bin" and t.args[0] == "+":
        _terms(t.args[1], sign, pos, neg, k)
        _terms(t.args[2], sign, pos, neg, k)
    elif t.kind == "bin" and t.args[0] == "-":
        _terms(t.args[1], sign, pos, neg, k)
        _terms(t.args[2], -sign, pos, neg, k)
    else:
        (pos if sign > 0 else neg).append(t)


def atom_form(t: T):
    """('cmp', frozenset P ids, frozenset N ids, k, op) with sum(P) - sum(N) + k  op  0, op in {'>', '>=', '==', '!='}
    or ('not', form) or ('atom', id)."""
    t = strip_cast(t)
    n = negand(t)
    if n is not None:
        f = atom_form(n)
        if f[0] == "cmp":
            inv = {">": "<=", ">=": "<", "==": "!=", "!=": "=="}
            op = inv[f[4]]
            if op in ("<=", "<"):
                # -(P - N + k) {>=,>} 0
                return ("cmp", f[2], f[1], -f[3], ">=" if op == "<=" else ">")
            return ("cmp", f[1], f[2], f[3], op)
        if f[0] == "not":
            return f[1]
        return ("not", f)
    if t.kind == "cmp" and t.args[0] in ("<", "<=", ">", ">=", "==", "!="):
        op, a, b = t.args
        pos, neg, k = [], [], [0]
        if op in ("<", "<="):
            a, b = b, a
            op = {"<": ">", "<=": ">="}[op]
        _terms(a, 1, pos, neg, k)
        _terms(b, -1, pos, neg, k)
        P = tuple(sorted(x.id for x in pos))
        N = tuple(sorted(x.id for x in neg))
        if op in ("==", "!=") and (N, P, -k[0]) < (P, N, k[0]):
            P, N, k[0] = N, P, -k[0]
        return ("cmp", P, N, k[0], op)
    return ("atom", t.id)


def skeleton(f) -> tuple:
    """The form without strictness / constant / polarity -- two atoms with the same skeleton talk about
    the same quantities."""
    if f[0] == "cmp":
        a, b = f[1], f[2]
        return ("cmp",) + tuple(sorted([a, b]))
    if f[0] == "not":
        return skeleton(f[1])
    return f


def conj_forms(t: T) -> Set[tuple]:
    out = set()
    for c in conjuncts(t):
        # all(...) over per-coordinate conjunctions: look inside
        s = strip_cast(c)
        if ext_name(s) == "jax.numpy.all" and len(s.args[1]) == 1:
            inner = conj_forms(s.args[1][0])
            out |= {("all", f) for f in inner}
        else:
            out.add(atom_form(c))
    return out


LAST_DIFF: Dict[str, set] = {}


def _var_of(f):
    """(variable key, negated?) for an atom form: complementary comparisons share one variable."""
    if f[0] == "not":
        k, n = _var_of(f[1])
        return k, not n
    if f[0] == "cmp":
        _, P, N, k, op = f
        if op == "!=":
            return ("cmp", P, N, k, "=="), True
        if op == "==":
            return f, False
        if (N, P) < (P, N):
            # Y op 0 with Y = P - N + k; rewrite over -Y:  Y > 0 == not(-Y >= 0),  Y >= 0 == not(-Y > 0)
            return ("cmp", N, P, -k, ">=" if op == ">" else ">"), True
        return f, False
    return f, False


def _bool_tree(t: T, leaves: Dict[tuple, int]):
    """nested ('and'|'or'|'not'|'var', ...) over atom variables; jnp.all / jnp.any wrappers of a formula are looked through"""
    s = strip_cast(t)
    if s.kind == "bin" and s.args[0] in ("&", "|"):
        return ("and" if s.args[0] == "&" else "or", _bool_tree(s.args[1], leaves), _bool_tree(s.args[2], leaves))
    if s.kind == "bool":
        out = _bool_tree(s.args[1][0], leaves)
        for x in s.args[1][1:]:
            out = (s.args[0], out, _bool_tree(x, leaves))
        return out
    n = negand(s)
    if n is not None and atom_form(s)[0] != "cmp":
        return ("not", _bool_tree(n, leaves))
    if ext_name(s) in ("jax.numpy.all", "jax.numpy.any") and len(s.args[1]) == 1 and strip_cast(s.args[1][0]).kind in ("bin", "bool", "un"):
        return _bool_tree(s.args[1][0], leaves)
    key, neg = _var_of(atom_form(s))
    i = leaves.setdefault(key, len(leaves))
    return ("not", ("var", i)) if neg else ("var", i)


def _ev(tr, bits) -> bool:
    if tr[0] == "var":
        return bits[tr[1]]
    if tr[0] == "not":
        return not _ev(tr[1], bits)
    a, b = _ev(tr[1], bits), _ev(tr[2], bits)
    return (a and b) if tr[0] == "and" else (a or b)


def same_atoms_different_connectives(a: T, b: T) -> Optional[str]:
    """When both formulas are built from the SAME atoms (complementary comparisons counted as one), their truth
    tables decide: returns a description of a distinguishing row, or None (equivalent / not comparable)."""
    import itertools
    la: Dict[tuple, int] = {}
    ta = _bool_tree(a, la)
    lb: Dict[tuple, int] = dict(la)
    tb = _bool_tree(b, lb)
    la2: Dict[tuple, int] = dict(lb)
    ta = _bool_tree(a, la2)
    if len(la2) != len(la) or len(lb) != len(la) or not 2 <= len(la) <= 10:
        return None
    for bits in itertools.product((False, True), repeat=len(la)):
        if _ev(ta, bits) != _ev(tb, bits):
            return f"the two formulas use the same {len(la)} conditions but combine them differently (e.g. they disagree when the conditions are {list(bits)})"
    return None


def compare(mask_old: T, validity: T, action: T) -> Tuple[Optional[bool], str]:
    """True = equivalent after normalisation; False = definitely different (same quantities, different
    strictness / constant / polarity); None = cannot be aligned."""
    LAST_DIFF.clear()
    A = conj_forms(erase_action_index(mask_old, action))
    B = conj_forms(erase_action_index(validity, action))
    if A == B:
        return True, "same conjuncts after normalisation"
    try:
        diff = same_atoms_different_connectives(erase_action_index(mask_old, action), erase_action_index(validity, action))
    except Exception:
        diff = None
    if diff:
        return False, diff
    sa, sb = {skeleton_of(x) for x in A}, {skeleton_of(x) for x in B}
    if sa == sb:
        diff = sorted(str(x) for x in (A ^ B))
        return False, f"same quantities but different strictness / constant / polarity: {len(A ^ B)} atom(s) differ"
    shared = A & B
    only_a, only_b = A - B, B - A
    ska, skb = {skeleton_of(x) for x in only_a}, {skeleton_of(x) for x in only_b}
    if shared and len(shared) >= max(len(only_a), len(only_b)) and not (ska & skb):
        # the two sides agree on most clauses and each difference is a whole clause present on one side only
        LAST_DIFF["mask_only"] = only_a
        LAST_DIFF["step_only"] = only_b
        return None, f"EXTRA mask:{len(A - B)} step:{len(B - A)} -- identical on the shared clauses; one side has additional clauses"
    if sb < sa or sa < sb:
        return None, "one side has additional clauses (and shared clauses differ in form)"
    return None, "different structure"


def skeleton_of(f) -> tuple:
    if f[0] == "all":
        return ("all", skeleton(f[1]))
    return skeleton(f)
