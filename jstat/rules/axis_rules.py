"""Axis-kind consistency rules (C01.R5, C04.R2, C07.R1) -- filled in by axis.py."""
def add_obligations(res, tree, rule, scope="all"):
    return 0
