"""Axis-kind consistency rules (C01.R5, C04.R2, C07.R1): check sites over the value-flow graph."""
from __future__ import annotations

from typing import Dict, List, Optional, Tuple

from ..axis import Axes
from ..engine import EnvAnalysis, analyse_env
from ..loader import AnalysisError, short
from ..normal import ext_name, linear, strip_cast
from ..terms import T, deps, mk
from .common import analyses, txt

# environments whose grid has two distinct extent symbols (strict typing applies)
STRICT = ["Maze", "Cleaner", "Snake", "Tetris", "Minesweeper", "FlatPack", "PacMan", "RobotWarehouse"]
MASK_FUNC_HINTS = ("mask", "is_move_valid", "is_valid", "valid")


def env_axes(ea: EnvAnalysis) -> Tuple[Axes, List[T]]:
    vfg = ea.vfg
    roots = [ea.reset_result, ea.step_result]
    for spec in ("observation_spec", "action_spec"):
        try:
            roots.append(vfg.mk_attr(ea.self_t, spec))
        except Exception:
            pass
    ax = Axes(vfg, roots)
    ax.note_vectors_from_components()
    return ax, roots


def site_of(t: T) -> Tuple[str, str, str]:
    m = t.meta or {}
    return m.get("loc", "?"), short(m.get("func", "?")), m.get("src", "")


def check_sites(ea: EnvAnalysis, ax: Axes, conflicts) -> List[dict]:
    """All typed check sites of one environment: dicts(kind, term, ok, detail)."""
    out = []
    A = {0: "axis 0 (rows)", 1: "axis 1 (columns)"}
    for t in list(ax.terms.values()):
        k = t.kind
        if k == "cmp" and t.args[0] in ("<", "<=", ">", ">="):
            a, b = t.args[1], t.args[2]
            ka, kb = ax.kind(a), ax.kind(b)
            if ka and kb and {ka[0], kb[0]} == {"idx", "ext"}:
                ok = ka[1] == kb[1]
                idx, ext = (a, b) if ka[0] == "idx" else (b, a)
                out.append(dict(kind="bounds test", term=t, ok=ok,
                                detail=f"index {txt(idx, 3, 50)} is on {A[ax.axis(idx)]} [{ax.reason(idx)[:70]}]; extent {txt(ext, 3, 40)} is {A[ax.axis(ext)]} [{ax.reason(ext)[:50]}]"))
        if k == "cmp" and t.args[0] in ("<", "<=", ">", ">="):
            # position vector vs vector of extents: (row, col) < array([E0, E1]) -- the extents must be in axis order
            from ..axis import VEC  # noqa: F401
            for pv, ev in ((t.args[1], t.args[2]), (t.args[2], t.args[1])):
                e0 = strip_cast(ev)
                if ext_name(e0) in ("jax.numpy.array", "jax.numpy.asarray", "jax.numpy.stack", "numpy.array") and e0.args[1]:
                    e0 = strip_cast(e0.args[1][0])
                if e0.kind in ("list", "tuple") and len(e0.args[0]) == 2 and ax.core(pv).id in ax.vec:
                    ka0, ka1 = ax.kind(e0.args[0][0]), ax.kind(e0.args[0][1])
                    if ka0 and ka1 and ka0[0] == "ext" and ka1[0] == "ext" and ka0[1] != ka1[1]:
                        ok = ka0[1] == 0 and ka1[1] == 1
                        out.append(dict(kind="bounds vector", term=t, ok=ok,
                                        detail=f"position vector {txt(pv, 3, 40)} is (axis 0, axis 1) [{ax.why.get((ax.core(pv).id, -1), '?')[:50]}]; it is compared with "
                                               f"({txt(e0.args[0][0], 2, 25)}, {txt(e0.args[0][1], 2, 25)}) = (extent of {A[ka0[1]]}, extent of {A[ka1[1]]})"))
        if k == "index" and t.args[1].kind == "tuple" and any(x.kind == "slice" for x in t.args[1].args[0]):
            # G[:, :E] -- a slice bound along subscript position p must be the extent of axis p
            items = t.args[1].args[0]
            base = t.args[0]
            if base.kind == "attr" and base.args[1] == "at":
                base = base.args[0]
            if 2 <= len(items) <= 3 and not (base.kind == "attr" and base.args[1] == "shape"):
                off = len(items) - 2  # leading channel axis when three subscripts
                if len(items) == 3 and not (items[0].kind in ("const",) or items[0].kind == "slice"):
                    off = None
                if off is not None:
                    for pos, it in enumerate(items):
                        axis = pos - off
                        if it.kind != "slice" or axis not in (0, 1):
                            continue
                        for bound in (it.args[0], it.args[1]):
                            kb = ax.kind(bound)
                            if kb and kb[0] == "ext":
                                out.append(dict(kind="slice bound", term=t, ok=kb[1] == axis,
                                                detail=f"slice along {A[axis]} is bounded by {txt(bound, 3, 40)}, the extent of {A[kb[1]]} [{ax.reason(bound)[:50]}]"))
        elif k == "bin" and t.args[0] == "%":
            a, b = t.args[1], t.args[2]
            ka, kb = ax.kind(a), ax.kind(b)
            if ka and kb and ka[0] == "idx" and kb[0] == "ext":
                ok = ka[1] == kb[1]
                out.append(dict(kind="wrap-around", term=t, ok=ok,
                                detail=f"index {txt(a, 3, 50)} is on {A[ka[1]]} [{ax.reason(a)[:70]}]; modulus {txt(b, 3, 40)} is the extent of {A[kb[1]]} [{ax.reason(b)[:50]}]"))
        elif k == "call" and ext_name(t) in ("jax.numpy.divmod", "builtins.divmod") and len(t.args[1]) == 2:
            E = t.args[1][1]
            kE = ax.kind(E)
            if kE and kE[0] == "ext":
                out.append(dict(kind="unflatten", term=t, ok=kE[1] == 1,
                                detail=f"divmod(flat, E) yields (row, col) only for E = number of columns; E = {txt(E, 3, 40)} is the extent of {A[kE[1]]} [{ax.reason(E)[:50]}]"))
        elif k == "bin" and t.args[0] in ("//",):
            E = t.args[2]
            kE = ax.kind(E)
            kr = ax.kind(t)
            if kE and kE[0] == "ext" and kr and kr[0] == "idx" and kr[1] == 0:
                out.append(dict(kind="unflatten", term=t, ok=kE[1] == 1,
                                detail=f"flat // E is a row only for E = number of columns; E = {txt(E, 3, 40)} is the extent of {A[kE[1]]}"))
        elif k == "bin" and t.args[0] == "+":
            # flatten r*E + c
            for x, y in ((t.args[1], t.args[2]), (t.args[2], t.args[1])):
                sx = strip_cast(x)
                if sx.kind == "bin" and sx.args[0] == "*":
                    for r, E in ((sx.args[1], sx.args[2]), (sx.args[2], sx.args[1])):
                        kE, kr, kc = ax.kind(E), ax.kind(r), ax.kind(y)
                        if kE and kE[0] == "ext" and kr and kr[0] == "idx" and kc and kc[0] == "idx":
                            ok = kE[1] == 1 and kr[1] == 0 and kc[1] == 1
                            out.append(dict(kind="flatten", term=t, ok=ok,
                                            detail=f"{txt(r, 2, 30)}*{txt(E, 2, 30)} + {txt(y, 2, 30)}: multiplier is the extent of {A[kE[1]]}, scaled index on {A[kr[1]]}, added index on {A[kc[1]]}; row-major needs row*num_cols + col"))
    for f, pn, pv, caller, node, have, want in conflicts:
        pass
    return out


def add_obligations(res, tree, rule: str, scope: str = "all") -> int:
    """scope: 'all' (C07.R1), 'mask' (C04.R2: sites inside mask/validity functions), 'spec' (C01.R5)."""
    n = 0
    per_env: Dict[str, int] = {}
    seen_global = set()
    for ea in analyses(tree):
        if ea.cls.name not in STRICT:
            continue
        ax, roots = env_axes(ea)
        conflicts = ax.bind_conflicts()
        sites = check_sites(ea, ax, conflicts) if scope in ("all", "mask", "generator", "observed", "reward") else []
        env = short(ea.cls.qual)
        seen = set()
        obs_deps = None
        if scope == "observed":
            # ids of every term an emitted observation (reset or step) depends on
            from ..terms import deps as _deps
            from .stale import observation_leaves
            obs_deps = set()
            for ts in (ea.reset_ts, ea.step_ts):
                for leaf in observation_leaves(ea, ts):
                    obs_deps |= {d.id for d in _deps(leaf)}
        if scope == "reward":
            # ids of every term the reward of a returned timestep depends on
            from ..terms import deps as _deps
            from .common import leaves as _leaves
            obs_deps = set()
            for l, _ in _leaves(ea.step_ts):
                if l.kind == "construct":
                    obs_deps |= {d.id for d in _deps(ea.vfg.mk_attr(l, "reward"))}
        for s in sites:
            loc, fn, src = site_of(s["term"])
            if obs_deps is not None and s["term"].id not in obs_deps:
                continue
            if scope == "mask" and not any(h in fn.lower() for h in MASK_FUNC_HINTS):
                continue
            if scope == "generator" and not any(h in fn for h in (".generator.", "maze_generation", "utils_spawn", "._sample", "create_flat_mine")):
                continue
            key = (s["kind"], fn, src)
            if key in seen or key in seen_global:
                continue
            seen.add(key)
            seen_global.add(key)
            res.add(rule, loc, fn, f"{s['kind']}: {src}", s["ok"], s["detail"])
            n += 1
            per_env[ea.cls.name] = per_env.get(ea.cls.name, 0) + 1
        if scope in ("all", "generator"):
            for f, pn, pv, caller, node, have, want in conflicts:
                loc = f"{caller.module.relpath}:{getattr(node, 'lineno', 0)}" if caller is not None and node is not None else f.loc()
                key = ("bind", f.qual, pn, loc)
                if key in seen or key in seen_global:
                    continue
                seen.add(key)
                seen_global.add(key)
                ok = have == want
                res.add(rule, loc, short(caller.qual) if caller is not None else env, f"argument for parameter '{pn}' of {f.name}: {txt(pv, 3, 60)}", ok,
                        f"argument is the extent of axis {have} [{ax.reason(pv)[:60]}]; the parameter name means axis {want}")
                n += 1
                per_env[ea.cls.name] = per_env.get(ea.cls.name, 0) + 1
        if scope == "all":
            for t, w0, w1 in ax.contradictions():
                key = ("contra", txt(t, 3, 60))
                if key in seen_global:
                    continue
                seen_global.add(key)
                res.add(rule, ea.cls.loc(), env, f"extent {txt(t, 3, 60)} used consistently", False,
                        f"it is the extent of axis 0 by [{w0[:80]}] and of axis 1 by [{w1[:80]}]")
                n += 1
        if scope in ("all", "spec"):
            k = spec_bound_obligations(res, ea, ax, rule if scope == "spec" else rule)
            n += k
            per_env[ea.cls.name] = per_env.get(ea.cls.name, 0) + k
    res.extra.setdefault("axis_sites_per_environment", {}).update({f"{rule}:{k}": v for k, v in per_env.items()})
    return n


def spec_bound_obligations(res, ea: EnvAnalysis, ax: Axes, rule: str) -> int:
    """Bound <-> axis agreement for coordinate fields of the observation spec: the extent used in the
    maximum of a field must be the extent of the axis that field is used to index."""
    vfg = ea.vfg
    tree = vfg.tree
    spec = vfg.mk_attr(ea.self_t, "observation_spec")
    n = 0
    # field -> axis, from attr nodes `<something>.<field>` that were typed as indices
    field_axis: Dict[Tuple[str, str], set] = {}
    for t in ax.terms.values():
        if t.kind == "attr":
            kd = ax.kind(t)
            ci = vfg.typeof(t.args[0])
            if kd and kd[0] == "idx" and ci is not None and tree.is_record(ci):
                why = ax.reason(t)
                if why.startswith("field name"):
                    continue
                field_axis.setdefault((ci.qual, t.args[1]), set()).add(kd[1])

    def walk(s: T, path: str):
        nonlocal n
        if s.kind != "new":
            return
        cq = s.args[0]
        args, kw = s.args[1], dict(s.args[2])
        if cq == "jumanji.specs.Spec":
            ctor = args[0] if args else kw.get("constructor")
            for name, child in kw.items():
                if name in ("constructor", "name"):
                    continue
                if child.kind == "new" and child.args[0] == "jumanji.specs.BoundedArray" and ctor is not None and ctor.kind == "cls":
                    ca, ck = child.args[1], dict(child.args[2])
                    mx = ck.get("maximum", ca[3] if len(ca) > 3 else None)
                    axes = field_axis.get((ctor.args[0], name))
                    if mx is not None and axes and len(axes) == 1:
                        fa = next(iter(axes))
                        E = ax.kind(mx)
                        if E and E[0] == "ext":
                            ok = E[1] == fa
                            f = tree.find_method(ea.cls, "observation_spec")
                            res.add(rule, f.loc() if f else ea.cls.loc(), short(ea.cls.qual) + ".observation_spec",
                                    f"bound of coordinate field {ctor.args[0].split('.')[-1]}.{name}: maximum {txt(mx, 3, 40)}", ok,
                                    f"field '{name}' indexes axis {fa} in the step/reset closure; its maximum uses the extent of axis {E[1]} [{ax.reason(mx)[:50]}]")
                            n += 1
                walk(child, path + "." + name)

    walk(spec, "")
    return n
