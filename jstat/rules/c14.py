"""C14 -- batched wrappers equal per-instance execution; VmapAutoReset = Vmap(AutoReset)."""
from __future__ import annotations

import ast

from ..engine import VFG, get_tree
from ..loader import AnalysisError
from ..model import Model
from ..report import Result
from ..terms import T, const, mk, uncopy
from .c13 import W, add_obs_obligation, autoreset_obligations
from .common import txt, wrapper_env_attr

EXPLANATION = (
    "Decided on the value-flow graph of jumanji/wrappers.py with the wrapped environment abstract: (R1) VmapWrapper.reset/"
    "step are exactly jax.vmap(env.reset)(key) / jax.vmap(env.step)(state, action): no in_axes/out_axes, no "
    "post-processing, hence per index the unwrapped result; (R2) VmapAutoResetWrapper satisfies, per batch element, the "
    "same dataflow obligations as AutoResetWrapper (C13.R1-R4 instantiated on it: predicate last(), identity keep "
    "branch, reset key = projection of split(state.key), replaced-field set {observation}, maybe_add before the "
    "replacement) and agrees with AutoResetWrapper on the split projection index, on the function stored under "
    "next_obs_in_extras and on the replaced fields -- each necessary for VmapAutoReset == Vmap(AutoReset); (R3) both "
    "render methods pass tree_slice(state, 0) to the inner render. Not decided: numerical equality of lax.map vs vmap "
    "execution (XLA semantics).")
EXPLANATION += ' tree_slice itself is a single leaf-wise index of the leading axis (shared with C19.R1).'


def vmap_calls_plain(res: Result, tree, clsname: str):
    ci = tree.classes[W + clsname]
    n = 0
    seen = set()
    methods = []
    for c in tree.mro(ci):     # own methods and those inherited from helper bases defined in wrappers.py
        if c.module is ci.module and c.qual != W + "Wrapper":
            methods += [(name, f) for name, f in c.methods.items() if id(f.node) not in seen and not seen.add(id(f.node))]
    for name, f in methods:
        for node in ast.walk(f.node):
            if isinstance(node, ast.Call) and tree.resolve_expr(ci.module, node.func) == "jax.vmap":
                n += 1
                ok = len(node.args) == 1 and not node.keywords
                res.add("C14.R1", f"{ci.module.relpath}:{node.lineno}", f"wrappers.{clsname}.{name}",
                        f"jax.vmap used without in_axes/out_axes [{ast.unparse(node.args[0]) if node.args else ''}]", ok,
                        ast.unparse(node))
    return n


def check(tier: str) -> Result:
    tree = get_tree()
    res = Result(explanation=EXPLANATION)
    vfg = VFG(tree, Model(tree))
    for c in ("VmapWrapper", "VmapAutoResetWrapper", "AutoResetWrapper"):
        if W + c not in tree.classes:
            raise AnalysisError(f"anchor {W}{c} not found")
    # ---- R1 VmapWrapper
    ci = tree.classes[W + "VmapWrapper"]
    self_t = mk("self", ci.qual)
    E = mk("attr", self_t, wrapper_env_attr(tree))
    for meth, nparams in (("reset", 1), ("step", 2)):
        f = tree.find_method(ci, meth)
        if f is None or f.cls.qual == W + "Wrapper":
            raise AnalysisError(f"VmapWrapper.{meth} not found")
        ps = [mk("param", f.qual, p) for p in f.params[1:]]
        r = uncopy(vfg.apply_func(f, self_t, f.cls, ps, {}, None, None))
        call = mk("call", mk("attr", E, meth), tuple(mk("elem", p) for p in ps), ())
        exp = mk("tuple", (mk("batched", mk("proj", call, 0)), mk("batched", mk("proj", call, 1))))
        res.add("C14.R1", f.loc(), f"wrappers.VmapWrapper.{meth}", f"{meth} == jax.vmap(env.{meth})(args), nothing else", r is exp, txt(r, 6, 300))
    n = vmap_calls_plain(res, tree, "VmapWrapper") + vmap_calls_plain(res, tree, "VmapAutoResetWrapper")
    # (the count is evidence only: what the calls compute is decided on the value-flow graph above and below)
    # ---- R2 sibling obligations
    facts_v = autoreset_obligations(res, "C14.R2", vfg, tree, "VmapAutoResetWrapper", batched=True)
    shadow = Result()
    facts_a = autoreset_obligations(shadow, "C13", VFG(tree, Model(tree)), tree, "AutoResetWrapper", batched=False)
    for k, desc in (("split_index", "same projection of split(state.key) seeds the reset"),
                    ("replaced", "same replaced-field set"), ("add_fn", "same next_obs function")):
        a, v = facts_a.get(k), facts_v.get(k)
        ok = a is not None and a == v
        res.add("C14.R2.agree", tree.classes[W + "VmapAutoResetWrapper"].loc(), "wrappers.VmapAutoResetWrapper vs AutoResetWrapper", desc, ok,
                f"AutoReset {a!r} / VmapAutoReset {v!r}")
    # ---- R3 render
    ts = tree.functions.get("jumanji.tree_utils.tree_slice")
    if ts is None:
        raise AnalysisError("anchor jumanji.tree_utils.tree_slice not found")
    for c in ("VmapWrapper", "VmapAutoResetWrapper"):
        ci = tree.classes[W + c]
        f = tree.find_method(ci, "render")
        if f is None or f.cls.qual == W + "Wrapper":
            res.add("C14.R3", ci.loc(), f"wrappers.{c}.render", "render slices index 0 of the batch", False, "no render override: the batched state would be passed to the inner render")
            continue
        self_t = mk("self", ci.qual)
        S = mk("param", f.qual, f.params[1])
        r = uncopy(vfg.apply_func(f, self_t, f.cls, [S], {}, None, None))
        sl = uncopy(vfg.apply_func(ts, None, None, [S, const(0)], {}, None, None))
        exp = mk("call", mk("attr", mk("attr", self_t, wrapper_env_attr(tree)), "render"), (sl,), ())
        res.add("C14.R3", f.loc(), f"wrappers.{c}.render", "render(state) == env.render(tree_slice(state, 0))", r is exp, txt(r, 6, 200))
    from .c13 import base_wrapper_obligations
    n_base = base_wrapper_obligations(res, "C14.R4", tree)
    from .common import borrow
    n_ts = borrow(res, "c19", {"C19.R1": "C14.R3"}, envs=None, only_if=None)
    res.analysed = {"tree_slice_obligations": n_ts, "classes": [W + "VmapWrapper", W + "VmapAutoResetWrapper", W + "AutoResetWrapper"], "vmap_call_sites": n,
                    "functions": len(vfg.visited_funcs)}
    res.assumptions = ["jax.vmap without axes maps axis 0 of every argument and result; lax.map applies its function per element",
                       "the wrapped environment is abstract"]
    return res
