"""C09 -- transitions follow the published rules (move-table agreement clause only)."""
from __future__ import annotations

from ..engine import get_tree
from ..loader import AnalysisError
from ..report import Result
from ..terms import const
from . import table_rules

EXPLANATION = (
    "Decided clause: every encoding of the action -> displacement map inside one environment agrees with its siblings "
    "and with the direction names used in the code (convention taken from the names: up = axis0 - 1, down = axis0 + 1, "
    "left = axis1 - 1, right = axis1 + 1, noop/load = 0). Instances re-derived from the tree on every run: Maze (switch "
    "branches applied by step vs the MOVES table tested by the mask), the four-row unit-move tables of Maze, Cleaner, "
    "Sokoban, SlidingTilePuzzle and Snake (unit steps, opposite moves cancel, documented Up/Right/Down/Left order), Snake "
    "(Actions enum vs MOVES), SlidingTilePuzzle (named vectors), LevelBasedForaging (action constants vs MOVES), "
    "Connector (lambda names vs displacements, switch order vs NOOP..LEFT constants, the generator's displacement-to-"
    "action pairs), PacMan (the three copies of the player move table agree), RobotWarehouse (forward displacements "
    "are unit steps and opposite directions cancel). Tables are folded by the analyser's literal evaluator. (R2) the "
    "index arithmetic of transition code on non-square boards (row-major stride of flat indices such as Minesweeper's mine "
    "lookup, wrap-around moduli, bounds tests) uses the extent of the right axis (axis-kind engine shared with C07). "
    "(R4) every reward alternative of every environment depends on the action taken (a reward computed from the incoming state alone describes the previous situation). (R3) LevelBasedForaging: eaten food is ignored by the movement and loading rules (frozen instance table, see rules/lbf_rules.py). Not decided: everything that needs executing a reference model (2048 merges, Tetris drop and line clearing, Sokoban "
    "pushes, JobShop clock, Minesweeper counts, ...).")
EXPLANATION += ' (R5) where step re-tests validity itself (Knapsack, TSP, CVRP, SlidingTilePuzzle, Minesweeper, Connector) that test equals the published mask clause by clause (borrowed from C04.R3b).'

MIN_PAIRINGS = 40   # 54 on the pinned tree; one environment may have its tables in a form the syntactic pairing does not read (recorded as undecided)


def check(tier: str) -> Result:
    tree = get_tree()
    res = Result(explanation=EXPLANATION)
    n = table_rules.add_obligations(res, tree, "C09.R1")
    if n < MIN_PAIRINGS:
        raise AnalysisError(f"only {n} table pairings derived (hand-confirmed minimum {MIN_PAIRINGS})")
    # ---- R2: index arithmetic of the transition code (stride of flat indices, wrap-around, bounds) uses the
    # extent of the right axis -- the axis-kind engine of C07 (shared)
    from . import axis_rules
    n_axis = axis_rules.add_obligations(res, tree, "C09.R2", scope="all")
    # ---- R4: the reward of a transition depends on the action taken (directly or through the new state)
    from ..engine import analyse_env
    from ..terms import contains
    from .common import analyses, env_site, leaves, txt
    n_rw = 0
    for ea in analyses(tree):
        vfg = ea.vfg
        site, fn = env_site(ea, "step")
        rws = []
        for l, _ in leaves(ea.step_ts):
            if l.kind == "construct":
                rw = vfg.mk_attr(l, "reward")
                for alt in (rw.args[0] if rw.kind == "phi" else (rw,)):
                    if alt not in rws:
                        rws.append(alt)
        for i, rw in enumerate(rws):
            ok = contains(rw, ea.action)
            res.add("C09.R4", site, fn, f"the reward is a function of the transition (depends on the action) [{i}]", ok,
                    "depends on the action" if ok else f"reward {txt(rw, 4, 120)} is computed from the incoming state alone: it rewards the previous situation, not the move")
            n_rw += 1
    from . import lbf_rules
    n_lbf = lbf_rules.add_obligations(res, tree, "C09.R3", "transition")
    from .common import borrow
    n_b = borrow(res, "c04", {"C04.R3b": "C09.R5"}, envs=["Knapsack", "TSP", "CVRP", "SlidingTilePuzzle", "Minesweeper", "Connector"])
    # ---- R6: movement rules: a move that would leave the grid is recognised exactly at the border (rules/bounds_rules.py)
    from . import bounds_rules
    n_bd = bounds_rules.add_obligations(res, tree, "C09.R6", scope="all")
    # ---- R7: documented termination: "the episode ends when no action is legal any more" (Game2048, Sudoku, BinPack,
    # Knapsack, Tetris, Maze -- frozen instance table confirmed by reading the docstrings; DESIGN.md Appendix A)
    from ..normal import conjuncts, disjuncts, negand, strip_cast, ext_name
    from ..terms import uncopy
    from .common import last_conditions, environments
    NO_ACTION_ENDS = ("Game2048", "Sudoku", "BinPack", "Knapsack", "Tetris", "Maze")
    n_term = 0

    def any_of(t, masks):
        """True when t is any(M) / M.any() / jnp.sum(M) > 0 for one of the mask nodes"""
        t = uncopy(strip_cast(t))
        if ext_name(t) in ("jax.numpy.any", "numpy.any", "builtins.any") and t.args[1] and uncopy(strip_cast(t.args[1][0])) in masks:
            return True
        if t.kind == "call" and t.args[0].kind == "attr" and t.args[0].args[1] == "any" and uncopy(strip_cast(t.args[0].args[0])) in masks:
            return True
        return False

    for ea in analyses(tree):
        if ea.cls.name not in NO_ACTION_ENDS:
            continue
        vfg = ea.vfg
        site, fn = env_site(ea, "step")
        masks = set()
        srcs = [vfg.mk_attr(ea.step_state, "action_mask")]
        for tl, _ in leaves(ea.step_ts):
            if tl.kind == "construct":
                srcs.append(vfg.mk_attr(vfg.mk_attr(tl, "observation"), "action_mask"))
        for src_ in srcs:
            for l, _ in leaves(src_):
                l = uncopy(strip_cast(l))
                if l.kind not in ("opaque",) and not (l.kind == "attr" and l.args[1] == "action_mask" and l.args[0] is ea.step_state):
                    masks.add(l)
        conds = last_conditions(ea)
        verdict, why = False, f"no disjunct of the LAST predicate depends on the new action mask: {[txt(c, 3, 50) for c in conds]}"
        for d in conds:
            if not any(contains(d, m) for m in masks):
                continue
            inner = negand(d)
            if inner is not None and any_of(inner, masks):
                verdict, why = True, f"disjunct {txt(d, 3, 70)}"
                break
            if any_of(d, masks):
                verdict, why = False, f"disjunct {txt(d, 3, 70)} ends the episode while actions ARE available (negation lost)"
                break
            cj = conjuncts(d)
            if len(cj) > 1 and any((negand(c) is not None and any_of(negand(c), masks)) for c in cj):
                verdict, why = False, f"disjunct {txt(d, 3, 90)}: mask exhaustion ends the episode only together with another condition"
                break
            verdict, why = None, f"disjunct {txt(d, 3, 70)} depends on the mask in a form that is not compared"
        res.add("C09.R7", site, fn, "the episode ends when no action is legal any more (~any(new action mask) is a LAST disjunct)", verdict, why)
        n_term += 1
    if n_term < len(NO_ACTION_ENDS):
        raise AnalysisError(f"only {n_term} of the {len(NO_ACTION_ENDS)} mask-exhaustion environments found")
    # ---- R8: `step_count` is the number of steps taken (the JobShop clock): 0 after reset, exactly +1 per step -- for
    # every environment that keeps one and is not already covered by the time-limit induction of C11 (R2/R3 there)
    from ..normal import linear as _linear
    from .common import TIME_LIMITED as _TL
    n_cnt = 0
    for ea in analyses(tree):
        if ea.state_cls is None or "step_count" not in tree.fields(ea.state_cls) or ea.cls.name in _TL or ea.cls.name in ("FlatPack", "MultiCVRP"):
            continue
        vfg = ea.vfg
        old = vfg.mk_attr(ea.state, "step_count")
        new = uncopy(strip_cast(vfg.mk_attr(ea.step_state, "step_count")))
        site, fn = env_site(ea, "step")
        alts = [uncopy(strip_cast(l)) for l, _ in leaves(new)]
        ok = bool(alts) and all(_linear(a) == (old, 1) for a in alts)
        res.add("C09.R8", site, fn, "State.step_count advances by exactly 1 per step", ok, f"value {txt(new, 4, 100)}")
        rsite, rfn = env_site(ea, "reset")
        zs = []
        for l, _ in leaves(vfg.mk_attr(ea.reset_state, "step_count")):
            l = uncopy(strip_cast(l))
            while l.kind == "call" and l.args[1] and ext_name(l) in ("jax.numpy.array", "jax.numpy.asarray", "jax.numpy.int32", "jax.numpy.zeros"):
                if ext_name(l) == "jax.numpy.zeros":
                    l = const(0)
                    break
                l = uncopy(strip_cast(l.args[1][0]))
            zs.append(l)
        verdict = None if any(z.kind != "const" for z in zs) else all(z.args[0] == 0 for z in zs)
        res.add("C09.R8", rsite, rfn, "State.step_count is 0 after reset", verdict, f"values {[txt(z, 2, 30) for z in zs]}")
        n_cnt += 1
    # ---- R9: unit-move tables are applied by addition (rules/move_rules.py)
    from . import move_rules
    n_mv = move_rules.add_obligations(res, tree, "C09.R9")
    if n_mv < 12:
        raise AnalysisError(f"only {n_mv} applications of a unit-move table found (hand-confirmed minimum 12)")
    n_wo = move_rules.write_order_obligations(res, tree, "C09.R10")
    n_re = move_rules.reencoding_obligations(res, tree, "C09.R11")
    lbf_rules.occupancy_obligations(res, tree, "C09.R3")
    move_rules.negative_sentinel_obligations(res, tree, "C09.R12")
    res.analysed = {"table_pairings": n, "axis_typed_sites": n_axis, "mask_vs_step_validity": n_b}
    res.assumptions = ["direction names in the code carry their usual meaning (up = previous row, left = previous column)",
                       "PacMan is excluded from the naming convention (its x/y naming is transposed); only sibling agreement is checked there"]
    return res
