"""C07 -- grid worlds stay physically consistent: the inside-the-grid clause on non-square grids."""
from __future__ import annotations

from ..engine import get_tree
from ..loader import AnalysisError
from ..report import Result
from . import axis_rules

EXPLANATION = (
    "Decided clause: entities stay inside the grid on every grid shape. Rule C07.R1 is an axis-kind inference over the "
    "value-flow graph of the reset/step closure and generators of the environments that declare two distinct spatial "
    "extents (Maze, Cleaner, Snake, Tetris, Minesweeper, FlatPack, PacMan, RobotWarehouse, commons/maze_utils): every "
    "term used as the first/second spatial subscript of an array is an axis-0/axis-1 index; shape tuples, .shape "
    "projections and the repository's naming convention (num_rows/height -> axis 0, num_cols/width -> axis 1) type the "
    "extents; kinds flow through offsets, selections, casts and mapped views. At every bounds test, wrap-around "
    "modulus, divmod / row*ncols+col (un)flattening, argument binding to an extent-named parameter and coordinate "
    "spec bound where BOTH sides have one definite kind, the axes must agree. A disagreement lets an entity leave a "
    "non-square grid (or wraps it at the wrong width) while every test on the square default grid passes. Unknown or "
    "ambiguous kinds are silent. Rule C07.R3 (sibling call sites): a helper that reset calls with exactly the value it "
    "stores in a state field is, when step calls it too, given the value step stores in that field or an intermediate, "
    "never the superseded field of the incoming state (e.g. Snake samples the new fruit against the NEW body). Not decided: entity counts, position/grid agreement, conservation laws (numeric).")
EXPLANATION += " (R6) moving an entity = a write at its origin and a write at its destination on the same array; the destination is computed from the origin, and when the move is blocked both coincide and the last write wins: the destination write must come last (RobotWarehouse agents and shelves, Sokoban agent, SlidingTilePuzzle blank)."
EXPLANATION += " (R5) border tests: every comparison of a coordinate (a term the code uses as a grid subscript, or a position moved by a displacement) with 0 or with an extent of the grid is one of the four exact tests >= 0, < 0, < extent, >= extent (B1), and in every boolean formula built from such tests a coordinate outside the grid decides the formula by itself -- truth table over the formula's own atoms (B2); Maze, Cleaner, Snake, SlidingTilePuzzle, Connector, LevelBasedForaging (rules/bounds_rules.py)."
EXPLANATION += ' (R4) Connector: an action the mask forbids (connected agent) is not executed by step (borrowed from C04.R3b, one direction only).'

GRID_WORLDS = ("Maze", "Cleaner", "PacMan", "Sokoban", "Snake", "Tetris", "Game2048", "Minesweeper", "Connector",
               "LevelBasedForaging", "RobotWarehouse")
MIN_TOTAL = 20
MIN_PER_ENV = {"Cleaner": 4, "Maze": 5, "Snake": 3, "PacMan": 4, "Minesweeper": 3}


def check(tier: str) -> Result:
    tree = get_tree()
    res = Result(explanation=EXPLANATION)
    n = axis_rules.add_obligations(res, tree, "C07.R1", scope="all")
    from . import wiring
    n_w = wiring.add_obligations(res, tree, "C07.R2", lambda ci: ci.module.name.startswith("jumanji.environments.") and not ci.module.name.endswith((".reward", ".done", ".types")))
    n_p = wiring.paired_call_args(res, tree, "C07.R3", "state", lambda ci: ci.name in GRID_WORLDS)
    from . import bounds_rules
    n_bd = bounds_rules.add_obligations(res, tree, "C07.R5", scope="all")
    if n_bd < 30:
        raise AnalysisError(f"only {n_bd} border-test obligations derived (hand-confirmed minimum 30)")
    from .common import borrow
    n_b = borrow(res, "c04", {"C04.R3b": "C07.R4"}, envs=["Connector"], only_if=lambda ob: "mask forbids" in ob.detail)
    per = {k.split(":")[1]: v for k, v in res.extra.get("axis_sites_per_environment", {}).items()}
    low = {e: (per.get(e, 0), m) for e, m in MIN_PER_ENV.items() if per.get(e, 0) < m}
    if (n < MIN_TOTAL or low) and not any(o.ok is False for o in res.obligations):
        raise AnalysisError(f"typed check sites below the hand-confirmed minimum: total {n} (>= {MIN_TOTAL}), per environment {low}")
    from . import move_rules
    n_wo = move_rules.write_order_obligations(res, tree, "C07.R6")
    if n_wo < 3:
        raise AnalysisError(f"only {n_wo} two-write moves found (hand-confirmed minimum 3 of SlidingTilePuzzle, RobotWarehouse x2, Sokoban)")
    n_re = move_rules.reencoding_obligations(res, tree, "C07.R7")
    from . import lbf_rules as _lbf
    _lbf.occupancy_obligations(res, tree, "C07.R8")
    res.analysed = {"strict_environments": axis_rules.STRICT, "typed_sites": n, "paired_reset_step_call_arguments": n_p, "per_environment": per}
    res.assumptions = ["row-major arrays; the repository's naming convention for extents (confirmed by reading all 23 environments)",
                       "environments with a single extent symbol for both axes are not typed (square by construction)"]
    return res
