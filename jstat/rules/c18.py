"""C18 -- the registry maps each id to one reproducible configuration (structural part)."""
from __future__ import annotations

import ast
import re
from typing import Dict, List, Optional

from ..engine import VFG, get_tree
from ..loader import AnalysisError, short
from ..model import Model
from ..normal import ext_name, strip_cast
from ..report import Result
from ..terms import NONE, T, const, contains, deps, mk, uncopy
from .common import as_proj, norm_path, raise_exits, txt

EXPLANATION = (
    "Decided on jumanji/registration.py and jumanji/__init__.py: (R1) the id regex (parsed to its AST with the standard "
    "library's regex parser) is anchored, has one lazy name group over a character class and an optional group made of a "
    "literal separator followed by a digit-only version group; the separator equals the literal used by get_env_id; "
    "parse_env_id raises on no match and on a missing version and returns (name, int(version)); (R2) the only write to "
    "_REGISTRY in the whole package is the single subscript store in register, dominated by the call to "
    "_check_registration_is_allowed(spec) which raises when spec.id is already in _REGISTRY; the stored key is the "
    "spec's id (refusal happens before any mutation, so a refused registration leaves the registry unchanged); (R3) make "
    "passes to the loaded class a *copy* of the registered kwargs updated with the caller's kwargs after the copy, "
    "never writes to the spec or the registry, and raises for unknown ids with a message built from the registry; (R4) "
    "the shipped register(...) calls have literal, pairwise distinct ids that match the regex, entry points that "
    "resolve to Environment subclasses of the tree, and literal kwargs keys that are constructor parameters; make hands the caller's id to parse_env_id unchanged; (R6) no function of jumanji.registration writes module-level state other than the registry store (no memo / cache in load or make); (R7) no environment, generator or wrapper constructor stores a value derived from one argument into another argument's object (the registered kwargs objects are shared by all make(id) calls). Not "
    "decided: that instantiation succeeds at runtime (datasets, devices); behaviour equality of two make() calls is "
    "C02's purity premise plus R3.")

REG = "jumanji.registration."
MUT = {"update", "pop", "popitem", "clear", "setdefault", "__setitem__", "__delitem__"}


def regex_shape(pattern: str):
    """Returns dict(name_class=..., sep=..., version_digits_only=..., anchored=..., optional_version=...) or raises."""
    import re._parser as sp  # stdlib regex AST
    p = sp.parse(pattern)
    items = list(p)
    info = {"anchored": False, "sep": None, "version_digits_only": False, "optional_version": False, "name_group": False,
            "name_lazy": False}
    if items and items[0][0] == sp.AT and items[0][1] in (sp.AT_BEGINNING, sp.AT_BEGINNING_STRING) and items[-1][0] == sp.AT and items[-1][1] in (sp.AT_END, sp.AT_END_STRING):
        info["anchored"] = True
        info["end_string"] = items[-1][1] == sp.AT_END_STRING

    def find_groups(seq, path=()):
        for op, av in seq:
            if op == sp.SUBPATTERN:
                gid, _, _, sub = av
                yield gid, sub, path
                yield from find_groups(sub, path + (("group", gid),))
            elif op in (sp.MAX_REPEAT, sp.MIN_REPEAT):
                lo, hi, sub = av
                yield from find_groups(sub, path + ((str(op), lo, hi),))
            elif op == sp.BRANCH:
                for alt in av[1]:
                    yield from find_groups(alt, path + (("branch",),))

    gi = p.state.groupdict
    name_id, ver_id = gi.get("name"), gi.get("version")
    if name_id is None or ver_id is None:
        raise AnalysisError("regex has no (?P<name>..)/(?P<version>..) groups")
    for gid, sub, path in find_groups(items):
        if gid == name_id:
            info["name_group"] = True
            s = list(sub)
            if len(s) == 1 and s[0][0] == sp.MIN_REPEAT and s[0][1][0] >= 1:
                info["name_lazy"] = True
                inner = list(s[0][1][2])
                info["name_class"] = len(inner) == 1 and inner[0][0] == sp.IN
        if gid == ver_id:
            s = list(sub)
            if len(s) == 1 and s[0][0] == sp.MAX_REPEAT and s[0][1][0] >= 1:
                inner = list(s[0][1][2])
                if len(inner) == 1 and inner[0][0] == sp.IN and list(inner[0][1]) == [(sp.CATEGORY, sp.CATEGORY_DIGIT)]:
                    info["version_digits_only"] = True
            # optional enclosing group: path contains a repeat with lo == 0, hi == 1
            info["optional_version"] = any(len(x) == 3 and x[1] == 0 and x[2] == 1 for x in path)
    # separator: the literal run immediately before the version group inside its enclosing (optional) group
    def sep_of(seq):
        seq = list(seq)
        lits = []
        for op, av in seq:
            if op == sp.LITERAL:
                lits.append(chr(av))
                continue
            if op == sp.SUBPATTERN and av[0] == ver_id:
                return "".join(lits)
            lits = []
            if op in (sp.MAX_REPEAT, sp.MIN_REPEAT):
                r = sep_of(av[2])
                if r is not None:
                    return r
            elif op == sp.SUBPATTERN:
                r = sep_of(av[3])
                if r is not None:
                    return r
        return None
    info["sep"] = sep_of(items)
    return info


def fstring_literal(node: ast.expr) -> Optional[str]:
    """Literal text that get_env_id puts between name and version."""
    parts: List[str] = []

    def walk(e):
        if isinstance(e, ast.BinOp) and isinstance(e.op, ast.Add):
            walk(e.left)
            walk(e.right)
        elif isinstance(e, ast.JoinedStr):
            for v in e.values:
                if isinstance(v, ast.Constant):
                    parts.append(str(v.value))
                else:
                    parts.append(None)
        elif isinstance(e, ast.Constant) and isinstance(e.value, str):
            parts.append(e.value)
        else:
            parts.append(None)

    walk(node)
    # expect [None(name), 'sep', None(version)]
    lits = [p for p in parts if p is not None]
    if len(parts) == 3 and parts[0] is None and parts[2] is None and len(lits) == 1:
        return lits[0]
    return None


def registry_writes(tree):
    """Every construct in the package that can modify jumanji.registration._REGISTRY."""
    out = []
    target = registry_name(tree)
    for m in tree.modules.values():
        def is_reg(e):
            return tree.resolve_expr(m, e) == target

        for fn_node, qual in _functions(m):
            body_nodes = ast.walk(fn_node) if fn_node is not None else iter(m.tree.body)
            for node in (ast.walk(fn_node) if fn_node is not None else _toplevel_walk(m.tree)):
                hit = None
                if isinstance(node, (ast.Assign, ast.AugAssign, ast.AnnAssign, ast.Delete)):
                    tgts = node.targets if isinstance(node, (ast.Assign, ast.Delete)) else [node.target]
                    for t in tgts:
                        base = t.value if isinstance(t, (ast.Subscript, ast.Attribute)) else t
                        if isinstance(t, (ast.Subscript, ast.Attribute)) and is_reg(base):
                            hit = "store " + ast.unparse(t)
                        elif isinstance(t, ast.Name) and fn_node is not None and is_reg(t) and _declares_global(fn_node, t.id):
                            hit = "rebind " + t.id
                elif isinstance(node, ast.Call) and isinstance(node.func, ast.Attribute) and node.func.attr in MUT and is_reg(node.func.value):
                    hit = "call " + ast.unparse(node.func)
                if hit:
                    out.append((m, qual, node, hit))
    return out


_REG_NAME: Dict[int, str] = {}


def registry_name(tree) -> str:
    """The module-level dict of jumanji.registration that register() stores into (by role: `<X>[...] = ...` inside
    register with X a module-level name), 'jumanji.registration.<X>'."""
    if id(tree) in _REG_NAME:
        return _REG_NAME[id(tree)]
    m = tree.modules.get("jumanji.registration")
    f = m.functions.get("register") if m is not None else None
    if f is None:
        raise AnalysisError("anchor jumanji.registration.register not found")
    names = []
    for st in ast.walk(f.node):
        if isinstance(st, ast.Assign):
            for t in st.targets:
                if isinstance(t, ast.Subscript) and isinstance(t.value, ast.Name) and t.value.id in m.assigns and t.value.id not in names:
                    names.append(t.value.id)
    if len(names) != 1:
        # no store left in register (a variant moved it): fall back to the module-level dict annotated / initialised as a dict
        names = [k for k, v in m.assigns.items() if isinstance(v, ast.Dict) and not v.keys]
    if len(names) != 1:
        raise AnalysisError(f"jumanji.registration: the registry dict could not be identified (candidates {names})")
    _REG_NAME[id(tree)] = REG + names[0]
    return _REG_NAME[id(tree)]


def _declares_global(fn_node, name):
    return any(isinstance(n, ast.Global) and name in n.names for n in ast.walk(fn_node))


def _functions(m):
    yield None, m.name + ".<module>"
    for node in ast.walk(m.tree):
        if isinstance(node, (ast.FunctionDef, ast.AsyncFunctionDef)):
            yield node, f"{m.name}.{node.name}"


def _toplevel_walk(mod):
    for st in mod.body:
        if isinstance(st, (ast.FunctionDef, ast.AsyncFunctionDef, ast.ClassDef)):
            continue
        yield from ast.walk(st)


CONTAINER_MUT = MUT | {"append", "add", "extend", "insert", "remove", "discard", "appendleft", "sort", "reverse"}


def _root_name(e):
    while isinstance(e, (ast.Attribute, ast.Subscript)):
        e = e.value
    return e.id if isinstance(e, ast.Name) else None


def module_state_writes(m, registry_short: str):
    """Writes by any function of module `m` into a module-level name of `m` (subscript / attribute store, mutating
    container method, `global` rebinding), the sanctioned registry store in register() excepted."""
    out = []
    scanned = 0
    for node in ast.walk(m.tree):
        if not isinstance(node, (ast.FunctionDef, ast.AsyncFunctionDef)):
            continue
        scanned += 1
        a = node.args
        local = {x.arg for x in a.args + a.kwonlyargs + a.posonlyargs} | ({a.vararg.arg} if a.vararg else set()) | ({a.kwarg.arg} if a.kwarg else set())
        globs = set()
        for n in ast.walk(node):
            if isinstance(n, ast.Global):
                globs |= set(n.names)
        for n in ast.walk(node):
            if isinstance(n, (ast.Assign, ast.AnnAssign, ast.AugAssign)):
                for t in (n.targets if isinstance(n, ast.Assign) else [n.target]):
                    for x in ast.walk(t):
                        if isinstance(x, ast.Name) and isinstance(x.ctx, ast.Store) and x.id not in globs:
                            local.add(x.id)
            elif isinstance(n, (ast.For, ast.comprehension)):
                for x in ast.walk(n.target):
                    if isinstance(x, ast.Name):
                        local.add(x.id)
        for n in ast.walk(node):
            hit = None
            if isinstance(n, (ast.Assign, ast.AugAssign, ast.AnnAssign, ast.Delete)):
                for t in (n.targets if isinstance(n, (ast.Assign, ast.Delete)) else [n.target]):
                    r = _root_name(t)
                    if isinstance(t, (ast.Subscript, ast.Attribute)) and r in m.assigns and r not in local:
                        hit = (r, "store " + ast.unparse(t)[:60])
                    elif isinstance(t, ast.Name) and t.id in globs and t.id in m.assigns:
                        hit = (t.id, "global rebinding of " + t.id)
            elif isinstance(n, ast.Call) and isinstance(n.func, ast.Attribute) and n.func.attr in CONTAINER_MUT:
                r = _root_name(n.func.value)
                if r in m.assigns and r not in local:
                    hit = (r, "call " + ast.unparse(n.func)[:60])
            if hit and not (node.name == "register" and hit[0] == registry_short and hit[1].startswith("store ")):
                g = hit[0]
                # is the global read anywhere in the module apart from this very statement?
                reads = [x for x in ast.walk(m.tree) if isinstance(x, ast.Name) and x.id == g and isinstance(x.ctx, ast.Load)
                         and not any(x is y for y in ast.walk(n))]
                verdict = False
                if not reads:
                    verdict = None      # write-only (a log): cannot influence any result
                elif isinstance(n, ast.Assign) and len(n.targets) == 1 and isinstance(n.targets[0], ast.Subscript) \
                        and isinstance(n.targets[0].slice, ast.Name) and n.targets[0].slice.id in {x.arg for x in a.args + a.kwonlyargs} \
                        and len(a.args + a.kwonlyargs) == 1:
                    verdict = None      # memo keyed by the function's whole (single) argument: sound iff the function is pure; not decided
                out.append((node, n, hit[1], verdict))
    return scanned, out


def constructor_argument_leaks(tree, select):
    """[(class, node, text)]: inside __init__, a store into an object that came in as a constructor argument (directly or
    through the self attribute that keeps it) of a value that depends on a DIFFERENT constructor argument.  The
    registered kwargs of make() are shared by every make(id) call: such a store lets one call's overrides change what
    later calls build."""
    out = []
    n_cls = 0
    for q, ci in sorted(tree.classes.items()):
        if not select(ci):
            continue
        init = ci.methods.get("__init__")
        if init is None:
            continue
        n_cls += 1
        a = init.node.args
        params = [x.arg for x in a.args[1:] + a.kwonlyargs]
        pset = set(params)
        # self.<attr> -> parameters its value mentions; and which attrs alias an argument object
        attr_params: Dict[str, set] = {}
        for st in ast.walk(init.node):
            if isinstance(st, (ast.Assign, ast.AnnAssign)) and getattr(st, "value", None) is not None:
                for t in (st.targets if isinstance(st, ast.Assign) else [st.target]):
                    if isinstance(t, ast.Attribute) and isinstance(t.value, ast.Name) and t.value.id == "self":
                        names = {x.id for x in ast.walk(st.value) if isinstance(x, ast.Name)} & pset
                        attr_params.setdefault(t.attr, set()).update(names)

        def alias_params(v) -> set:
            """parameters whose object `v` may be (v = param | param or D | D if param is None else param)."""
            if isinstance(v, ast.Name) and v.id in pset:
                return {v.id}
            if isinstance(v, ast.BoolOp):
                return set().union(*[alias_params(x) for x in v.values])
            if isinstance(v, ast.IfExp):
                return alias_params(v.body) | alias_params(v.orelse)
            return set()

        attr_alias: Dict[str, set] = {}
        for st in ast.walk(init.node):
            if isinstance(st, (ast.Assign, ast.AnnAssign)) and getattr(st, "value", None) is not None:
                for t in (st.targets if isinstance(st, ast.Assign) else [st.target]):
                    if isinstance(t, ast.Attribute) and isinstance(t.value, ast.Name) and t.value.id == "self":
                        attr_alias.setdefault(t.attr, set()).update(alias_params(st.value))

        def owner_params(target) -> set:
            """argument objects a store target `x.f`, `self.g.f`, `x[k]` writes into."""
            base = target.value
            chain = []
            while isinstance(base, (ast.Attribute, ast.Subscript)):
                chain.append(base)
                base = base.value
            if not isinstance(base, ast.Name):
                return set()
            if base.id in pset:
                return {base.id}
            if base.id == "self" and chain:
                first = chain[-1]
                if isinstance(first, ast.Attribute):
                    return set(attr_alias.get(first.attr, set()))
            return set()

        def value_params(v) -> set:
            ps = {x.id for x in ast.walk(v) if isinstance(x, ast.Name)} & pset
            for x in ast.walk(v):
                if isinstance(x, ast.Attribute) and isinstance(x.value, ast.Name) and x.value.id == "self":
                    ps |= attr_params.get(x.attr, set())
            return ps

        for st in ast.walk(init.node):
            if isinstance(st, (ast.Assign, ast.AugAssign, ast.AnnAssign)) and getattr(st, "value", None) is not None:
                for t in (st.targets if isinstance(st, ast.Assign) else [st.target]):
                    if not isinstance(t, (ast.Attribute, ast.Subscript)):
                        continue
                    if isinstance(t, ast.Attribute) and isinstance(t.value, ast.Name) and t.value.id == "self":
                        continue
                    owners = owner_params(t)
                    if not owners:
                        continue
                    others = value_params(st.value) - owners
                    if others:
                        out.append((ci, st, f"{ast.unparse(t)[:50]} = {ast.unparse(st.value)[:60]}: writes into the argument object {sorted(owners)} a value that depends on the argument(s) {sorted(others)}"))
    return n_cls, out


def check(tier: str) -> Result:
    tree = get_tree()
    res = Result(explanation=EXPLANATION)
    m = tree.modules.get("jumanji.registration")
    if m is None:
        raise AnalysisError("module jumanji.registration not found")
    fns = {}
    for n in ("parse_env_id", "get_env_id", "register", "make"):
        f = m.functions.get(n)
        if f is None:
            raise AnalysisError(f"anchor {REG}{n} not found")
        fns[n] = f
    REGQ = registry_name(tree)
    # the availability check, by role: the function register() calls that raises and reads the registry
    called = {tree.resolve_expr(m, c.func) for c in ast.walk(fns["register"].node) if isinstance(c, ast.Call)}
    cands = [f for q, f in m.functions.items() if REG + q in called and q not in fns and any(isinstance(x, ast.Raise) for x in ast.walk(f.node))]
    if len(cands) > 1:
        cands = [f for f in cands if any(isinstance(x, ast.Name) and tree.resolve_expr(m, x) == REGQ for x in ast.walk(f.node))]
    if len(cands) != 1:
        raise AnalysisError(f"jumanji.registration.register: expected one called helper that can raise (the availability check), found {[c.name for c in cands]}")
    fns["_check_registration_is_allowed"] = cands[0]
    # ------------------------------------------------------------------ R1
    pat_expr = m.assigns.get("ENV_NAME_RE")
    pattern = None
    if isinstance(pat_expr, ast.Call) and pat_expr.args and isinstance(pat_expr.args[0], ast.Constant) and isinstance(pat_expr.args[0].value, str) \
            and tree.resolve_expr(m, pat_expr.func) == "re.compile" and len(pat_expr.args) == 1 and not pat_expr.keywords:
        pattern = pat_expr.args[0].value
    if pattern is None:
        raise AnalysisError("ENV_NAME_RE is not re.compile(<literal>) without flags")
    info = regex_shape(pattern)
    site = f"{m.relpath}:{pat_expr.lineno}"
    res.add("C18.R1", site, "registration.ENV_NAME_RE", "regex anchored at both ends", info["anchored"], pattern)
    res.add("C18.R1", site, "registration.ENV_NAME_RE", "lazy name group over one character class", bool(info["name_group"] and info["name_lazy"] and info.get("name_class")), pattern)
    res.add("C18.R1", site, "registration.ENV_NAME_RE", "version group is digits only, inside an optional group", info["version_digits_only"] and info["optional_version"], pattern)
    ret = [n for n in ast.walk(fns["get_env_id"].node) if isinstance(n, ast.Return)]
    sep_fmt = fstring_literal(ret[0].value) if len(ret) == 1 else None
    res.add("C18.R1", fns["get_env_id"].loc(), "registration.get_env_id", "formatter separator equals the regex separator literal",
            sep_fmt is not None and sep_fmt == info["sep"], f"formatter {sep_fmt!r} / regex {info['sep']!r}")
    vfg = VFG(tree, Model(tree))
    f = fns["parse_env_id"]
    idp = mk("param", f.qual, f.params[0])
    r = uncopy(vfg.apply_func(f, None, None, [idp], {}, None, None))
    RE = vfg.resolve_qual(REG + "ENV_NAME_RE")
    ok = False
    why = txt(r, 6, 200)
    M = None
    def group_read(t: T):
        """(match term, group name) for the equivalent ways of reading a named group: m.group('a', 'b')[i] (or unpacked),
        m.group('a'), m['a'], m.groupdict()['a']."""
        t = uncopy(strip_cast(t))
        pj = as_proj(t)
        if pj is not None:
            G, i = pj
            if G.kind == "call" and G.args[0].kind == "attr" and G.args[0].args[1] == "group" and all(x.kind == "const" for x in G.args[1]) and 0 <= i < len(G.args[1]):
                return G.args[0].args[0], G.args[1][i].args[0]
        if t.kind == "call" and t.args[0].kind == "attr" and t.args[0].args[1] == "group" and len(t.args[1]) == 1 and t.args[1][0].kind == "const":
            return t.args[0].args[0], t.args[1][0].args[0]
        if t.kind == "index" and t.args[1].kind == "const" and isinstance(t.args[1].args[0], str):
            base = uncopy(t.args[0])
            if base.kind == "call" and base.args[0].kind == "attr" and base.args[0].args[1] == "groupdict" and not base.args[1]:
                return base.args[0].args[0], t.args[1].args[0]
            return base, t.args[1].args[0]
        return None

    if r.kind == "tuple" and len(r.args[0]) == 2:
        a, b = r.args[0]
        ga = group_read(a)
        gb = group_read(b.args[1][0]) if ext_name(b) == "builtins.int" and b.args[1] else None
        if ga is not None and gb is not None and ga[1] == "name" and gb[1] == "version" and ga[0] is gb[0]:
            M = ga[0]
            meth = M.args[0].args[1] if (M.kind == "call" and M.args[0].kind == "attr") else None
            # `$` also matches before a trailing newline: only fullmatch (or match with \Z) rejects "name-v0\n"
            whole = meth == "fullmatch" or (meth == "match" and info.get("end_string"))
            ok = M.kind == "call" and M.args[0].kind == "attr" and M.args[0].args[0] is RE and bool(whole) and M.args[1] == (idp,)
            if meth == "match" and not info.get("end_string"):
                why += " -- .match with a `$` anchor accepts an id followed by a newline (malformed ids must be rejected)"
    res.add("C18.R1", f.loc(), "registration.parse_env_id", "returns (match.group('name'), int(match.group('version'))) of ENV_NAME_RE on the id", ok, why)
    # raising paths (path conditions of the raise statements reached from parse_env_id)
    rx = [(fn, node, path) for fn, node, path, _ in raise_exits(vfg)]
    raises = [" and ".join(("" if pol else "not ") + txt(t, 3, 50) for t, pol, _ in path) for _, _, path in rx]

    def is_no_match(t, pol):
        return M is not None and ((t is M and not pol) or (t.kind == "cmp" and t.args[0] == "is" and t.args[1] is M and t.args[2] is NONE and pol))

    def is_version_none(t, pol):
        if t.kind == "cmp" and t.args[0] == "is" and t.args[2] is NONE and pol:
            gv = group_read(t.args[1])
            return gv is not None and gv[1] == "version" and M is not None and gv[0] is M
        gv = group_read(t)
        return gv is not None and gv[1] == "version" and not pol and M is not None and gv[0] is M   # `if not version`

    no_match = any(len(path) == 1 and is_no_match(*path[0][:2]) for _, _, path in rx)
    ver_none = any(len(path) == 2 and not is_no_match(*path[0][:2]) and is_no_match(path[0][0], not path[0][1]) and is_version_none(*path[1][:2]) for _, _, path in rx)
    res.add("C18.R1", f.loc(), "registration.parse_env_id", "raises when the regex does not match", no_match, f"raising paths {raises}")
    res.add("C18.R1", f.loc(), "registration.parse_env_id", "raises when the version group is None", ver_none, f"raising paths {raises}")
    # ------------------------------------------------------------------ R2
    writes = registry_writes(tree)
    module_init = [w for w in writes if w[1].endswith("<module>")]
    fn_writes = [w for w in writes if not w[1].endswith("<module>")]
    for mm, qual, node, hit in fn_writes:
        ok = qual == REG + "register" and hit.startswith("store ")
        res.add("C18.R2", f"{mm.relpath}:{node.lineno}", short(qual), f"registry write: {hit}", ok,
                "the single sanctioned store" if ok else "_REGISTRY may be written only by the subscript store in register()")
    in_register = [w for w in fn_writes if w[1] == REG + "register" and w[3].startswith("store ")]
    res.add("C18.R2", fns["register"].loc(), "registration.register", "exactly one store into _REGISTRY exists in the package", len(in_register) == 1 and len(fn_writes) == 1,
            f"{len(fn_writes)} write site(s): {[w[1].split('.')[-1] + ': ' + w[3] for w in fn_writes]}")
    # VFG facts: key stored is spec.id; the store runs only after the availability check let this id through
    v2 = VFG(tree, Model(tree))
    f = fns["register"]
    ps = [mk("param", f.qual, p) for p in f.params]
    v2.apply_func(f, None, None, ps, {"**": mk("param", f.qual, "kwargs")}, None, None)
    st = [e for e in v2.events if e.kind == "store_sub" and e.func is f]
    ok = dom = False
    why = f"{len(st)} store event(s)"
    if len(st) == 1:
        e = st[0]
        key = uncopy(e.extra)
        sid = uncopy(v2.mk_attr(e.value, "id"))
        ok = e.target.kind == "ext" and e.target.args[0] == REGQ and key is sid
        conds = norm_path(e.path)
        dom = any(t.kind == "cmp" and t.args[0] == "in" and uncopy(t.args[1]) is sid and t.args[2] is e.target and not pol and fn is fns["_check_registration_is_allowed"]
                  for t, pol, fn in conds)
        rej = any(any(t.kind == "cmp" and t.args[0] == "in" and uncopy(t.args[1]) is sid and t.args[2] is e.target and pol for t, pol, _ in path)
                  for fn, _, path, _ in raise_exits(v2) if fn is fns["_check_registration_is_allowed"])
        why = f"key {txt(key, 3, 60)} is spec.id: {key is sid}; the store is reached only under `spec.id not in _REGISTRY` established by _check_registration_is_allowed: {dom}; the check raises under `spec.id in _REGISTRY`: {rej}"
        ok = ok and rej
    res.add("C18.R2", fns["register"].loc(), "registration.register", "the store is dominated by the call to _check_registration_is_allowed", dom,
            why if len(st) == 1 else f"{len(st)} store event(s)")
    res.add("C18.R2", fns["register"].loc(), "registration.register", "stored key is the checked spec's id; the check tests `spec.id in _REGISTRY`", ok, why)
    chk = fns["_check_registration_is_allowed"]
    v4 = VFG(tree, Model(tree))
    sp = mk("param", chk.qual, chk.params[0])
    v4.apply_func(chk, None, None, [sp], {}, None, None)
    REG4 = mk("ext", REGQ)
    rx4 = [norm_path(path) for kind, fn, node, path, _ in v4.exits if kind == "raise"]
    good = [path for path in rx4 if len(path) == 1 and path[0][0].kind == "cmp" and path[0][0].args[0] == "in" and path[0][1]
            and path[0][0].args[1] is mk("attr", sp, "id") and path[0][0].args[2] is REG4]
    res.add("C18.R2", chk.loc(), "registration._check_registration_is_allowed",
            "raises when the id is already registered", len(good) == 1 and len(rx4) == 1,
            f"raising paths {[' and '.join(('' if pol else 'not ') + txt(t, 3, 60) for t, pol, _ in path) for path in rx4]}" if rx4 else "no raising path")
    # ------------------------------------------------------------------ R3 make
    v3 = VFG(tree, Model(tree))
    f = fns["make"]
    idp = mk("param", f.qual, "id")
    argsp, kwp = mk("param", f.qual, "args"), mk("param", f.qual, "kwargs")
    r = uncopy(v3.apply_func(f, None, None, [idp, mk("star", argsp)], {"**": kwp}, None, None))
    REGT = mk("ext", REGQ)
    ok = False
    why = txt(r, 5, 260)
    if r.kind == "call":
        kw = dict(r.args[2])
        passed = kw.get("**")
        spec_kwargs = None
        if passed is not None and ext_name(passed) == "builtins.mutated.update" and len(passed.args[1]) == 2:
            base, upd = passed.args[1]
            copied = (base.kind == "call" and base.args[0].kind == "attr" and base.args[0].args[1] == "copy") or \
                ext_name(base) in ("builtins.dict", "copy.copy", "copy.deepcopy")
            if base.kind == "call" and base.args[0].kind == "attr" and base.args[0].args[1] == "copy":
                spec_kwargs = base.args[0].args[0]
            elif ext_name(base) in ("builtins.dict", "copy.copy", "copy.deepcopy") and base.args[1]:
                spec_kwargs = base.args[1][0]
            src_ok = spec_kwargs is not None and spec_kwargs.kind == "attr" and spec_kwargs.args[1] == "kwargs" and contains(spec_kwargs, REGT)
            ok = bool(copied and src_ok and upd is kwp)
            why = f"kwargs = update(copy of registered kwargs: {bool(copied and src_ok)}, caller kwargs: {upd is kwp})"
        elif passed is not None and passed.kind == "dict":
            # {**registered, **caller}: a fresh dict in which later entries override earlier ones
            ks, vs = passed.args[0], passed.args[1]
            stars = [v for k, v in zip(ks, vs) if k.kind == "star"]
            reg_first = len(stars) == 2 and len(ks) == 2 and stars[0].kind == "attr" and stars[0].args[1] == "kwargs" and contains(stars[0], REGT) and stars[1] is kwp
            ok = bool(reg_first)
            why = "kwargs = {**registered kwargs, **caller kwargs} (fresh dict, caller overrides)" if ok else \
                f"dict literal {txt(passed, 4, 120)} is not {{**registered kwargs, **caller kwargs}} in that order"
        elif passed is not None and passed.kind == "loop":
            # kw = registered.copy(); for k, v in caller.items(): kw[k] = v
            init_, body_ = uncopy(passed.args[0]), uncopy(passed.args[1])
            copied = (init_.kind == "call" and init_.args[0].kind == "attr" and init_.args[0].args[1] == "copy" and init_.args[0].args[0].kind == "attr"
                      and init_.args[0].args[0].args[1] == "kwargs" and contains(init_.args[0].args[0], REGT)) or \
                (ext_name(init_) in ("builtins.dict", "copy.copy", "copy.deepcopy") and init_.args[1] and init_.args[1][0].kind == "attr"
                 and init_.args[1][0].args[1] == "kwargs" and contains(init_.args[1][0], REGT))
            over = ext_name(body_) == "builtins.setitem" and len(body_.args[1]) == 3 and contains(body_.args[1][1], kwp) and contains(body_.args[1][2], kwp) \
                and not contains(body_.args[1][1], REGT)
            ok = bool(copied and over)
            why = f"kwargs = copy of the registered kwargs ({bool(copied)}) overlaid item by item with the caller's ({bool(over)})"
        else:
            why = f"constructor kwargs {txt(passed, 4, 160) if passed is not None else None} are not a copy of the registered kwargs updated with the caller's"
        ctor = r.args[0]
        ep_ok = contains(ctor, REGT) and any(n.kind == "attr" and n.args[1] == "entry_point" for n in deps(ctor))
        ok = ok and ep_ok
        why += f"; class loaded from the registered entry_point: {ep_ok}"
    res.add("C18.R3", f.loc(), "registration.make", "constructor receives a copy of the registered kwargs overridden by the caller's kwargs", ok, why)
    def _fresh_copy(t_):
        t_ = uncopy(t_)
        while t_.kind in ("loopin", "loop"):
            t_ = uncopy(t_.args[0])
        return (t_.kind == "call" and t_.args[0].kind == "attr" and t_.args[0].args[1] in ("copy",)) or ext_name(t_) in ("builtins.dict", "copy.copy", "copy.deepcopy") or t_.kind == "dict"
    bad = [e for e in v3.events if e.kind in ("store_attr", "store_sub", "mutate") and e.func is f and
           (contains(e.target, REGT)) and not (e.kind == "mutate" and e.target.kind == "call") and not _fresh_copy(e.target)]
    res.add("C18.R3", f.loc(), "registration.make", "make never writes to the registry or to the registered spec", not bad,
            "no write reaches _REGISTRY / env_spec" if not bad else f"{[ast.unparse(e.node)[:60] for e in bad]}")
    ok = False
    why = "no raising path"
    def _failed_lookup(t, pol):
        """`spec is None` for spec = REG.get(id) / a try-REG[id]-except-KeyError-None sentinel"""
        if not (t.kind == "cmp" and t.args[0] == "is" and t.args[2] is NONE and pol):
            return False
        x = uncopy(t.args[1])
        alts = list(x.args[0]) if x.kind == "phi" else [x]
        looks = [a for a in alts if (uncopy(a).kind == "index" and uncopy(a).args[0] is REGT) or
                 (uncopy(a).kind == "call" and uncopy(a).args[0].kind == "attr" and uncopy(a).args[0].args[1] == "get" and uncopy(a).args[0].args[0] is REGT)]
        return bool(looks)
    for fn, node, path, exc in raise_exits(v3):
        hit = [t for t, pol, _ in path if (t.kind == "cmp" and t.args[0] == "in" and t.args[2] is REGT and not pol) or _failed_lookup(t, pol)]
        own = [t for t, pol, pf in path if pf is f or pf is fn]
        if hit and len(own) == 1 and own[0] is hit[0]:
            uses_registry = exc is not None and contains(exc, REGT)
            if not uses_registry:   # message assembled by statements (loop / join) in the raising function
                uses_registry = any(isinstance(x, ast.Name) and tree.resolve_expr(fn.module, x) == REGQ
                                    for x in ast.walk(fn.node if fn is not f else node))
            ok = uses_registry
            why = f"raises under `{txt(hit[0], 3, 60)}` false in {fn.name}; message lists the registry: {uses_registry}"
    res.add("C18.R3", f.loc(), "registration.make", "unknown ids raise with a message listing the registered ids", ok, why)
    # the id that is parsed, canonicalised and looked up is the caller's id itself (no pre-processing such as splitting
    # off a prefix: every character of the allowed alphabet belongs to the name)
    pcalls = [(vars_, node) for cf, vars_, caller, node, _ in v3.callsites if cf is fns["parse_env_id"]]
    p0 = fns["parse_env_id"].params[0]
    idflow = bool(pcalls) and all(uncopy(strip_cast(vs.get(p0))) is idp for vs, _ in pcalls if vs.get(p0) is not None) and all(vs.get(p0) is not None for vs, _ in pcalls)
    res.add("C18.R3", f.loc(), "registration.make", "the id handed to parse_env_id is the caller's id unchanged", idflow,
            f"{len(pcalls)} call(s) of parse_env_id from make" if idflow else f"parse_env_id receives {[txt(vs.get(p0), 4, 80) if vs.get(p0) is not None else None for vs, _ in pcalls]}, not the id parameter itself")
    # get_env_id receives (name, version) = the two components of parse_env_id's result, in that order, in make and register
    # (whatever helper the two calls sit in: the facts are taken from the value-flow run of make / register)
    gp = fns["get_env_id"].params
    pp = fns["parse_env_id"].params
    for caller_name, vv in (("make", v3), ("register", v2)):
        gcalls = [vars_ for cf, vars_, caller, node, _ in vv.callsites if cf is fns["get_env_id"]]
        presults = [uncopy(res_) for cf, vars_, caller, node, res_ in vv.callsites if cf is fns["parse_env_id"] and res_ is not None]
        okg = bool(gcalls) and bool(presults)
        whyg = f"{len(gcalls)} call(s) of get_env_id, {len(presults)} of parse_env_id"
        comps = []
        for pr_ in presults:
            if pr_.kind == "tuple" and len(pr_.args[0]) == 2:
                comps.append((uncopy(strip_cast(pr_.args[0][0])), uncopy(strip_cast(pr_.args[0][1]))))
            else:
                comps.append((vv.mk_proj(pr_, 0, 2), vv.mk_proj(pr_, 1, 2)))
        for vars_ in gcalls:
            a0 = uncopy(strip_cast(vars_[gp[0]])) if vars_.get(gp[0]) is not None else None
            a1 = uncopy(strip_cast(vars_[gp[1]])) if vars_.get(gp[1]) is not None else None
            if not any(a0 is c0 and a1 is c1 for c0, c1 in comps):
                okg = False
                whyg = f"get_env_id({txt(a0, 3, 50) if a0 is not None else None}, {txt(a1, 3, 50) if a1 is not None else None}): not (name, version) of the parse_env_id result, in that order"
        res.add("C18.R3", fns[caller_name].loc(), "registration." + caller_name, "the canonical id is get_env_id(name, version) of the parsed id, components in order", okg, whyg)
    # ------------------------------------------------------------------ R6 module state of registration.py
    scanned, mw = module_state_writes(m, REGQ.split(".")[-1])
    for fn_node, node, hit, verdict in mw:
        res.add("C18.R6", f"{m.relpath}:{node.lineno}", "registration." + fn_node.name, f"module-level state write: {hit}", verdict,
                "jumanji.registration keeps exactly one piece of module state, the registry, written only by register(); any other memo or cache makes make()/load() depend on the history of earlier calls")
    res.add("C18.R6", f"{m.relpath}:1", "registration", "no function of jumanji.registration writes module-level state other than the registry store in register", not [w for w in mw if w[3] is False],
            f"{scanned} functions scanned")
    # ------------------------------------------------------------------ R7 constructors do not leak one call's arguments into shared argument objects
    n_ctor, leaks = constructor_argument_leaks(tree, lambda ci: ci.module.name.startswith("jumanji.environments.") or ci.module.name == "jumanji.wrappers")
    for lci, node, text in leaks:
        res.add("C18.R7", f"{lci.module.relpath}:{node.lineno}", short(lci.qual) + ".__init__", f"constructor stores into an argument object: {ast.unparse(node)[:70]}", False, text)
    res.add("C18.R7", "jumanji/environments", "environment / generator / wrapper constructors", "no constructor writes a value derived from one argument into another argument's object", not leaks,
            f"{n_ctor} constructors scanned (the registered kwargs objects are shared by every make(id))")
    if n_ctor < 60:
        raise AnalysisError(f"only {n_ctor} constructors scanned (hand-confirmed minimum 60)")
    # ------------------------------------------------------------------ R4 shipped ids
    init = tree.modules.get("jumanji")
    if init is None:
        raise AnalysisError("jumanji/__init__.py not found")
    calls = [n for n in ast.walk(init.tree) if isinstance(n, ast.Call) and tree.resolve_expr(init, n.func) == REG + "register"]
    if len(calls) < 25:
        raise AnalysisError(f"only {len(calls)} register(...) calls found in jumanji/__init__.py (hand-confirmed minimum 25)")
    rx = re.compile(pattern)
    seen = {}
    for c in calls:
        kw = {k.arg: k.value for k in c.keywords}
        ide = kw.get("id", c.args[0] if c.args else None)
        ep = kw.get("entry_point", c.args[1] if len(c.args) > 1 else None)
        site = f"{init.relpath}:{c.lineno}"
        if not (isinstance(ide, ast.Constant) and isinstance(ide.value, str)):
            res.add("C18.R4", site, "jumanji.__init__", "register id is a string literal", None, ast.unparse(c)[:80])
            continue
        idv = ide.value
        mt = rx.fullmatch(idv)
        ok = bool(mt and mt.group("version") is not None and f"{mt.group('name')}{info['sep']}{int(mt.group('version'))}" == idv)
        res.add("C18.R4", site, "jumanji.__init__", f"id {idv!r} is well-formed and canonical", ok, "matches the regex and formats back to itself" if ok else "does not round-trip")
        res.add("C18.R4", site, "jumanji.__init__", f"id {idv!r} is registered once", idv not in seen, "unique" if idv not in seen else f"also registered at line {seen[idv]}")
        seen.setdefault(idv, c.lineno)
        cls = None
        if isinstance(ep, ast.Constant) and isinstance(ep.value, str) and ":" in ep.value:
            mod, cname = ep.value.split(":")
            q = tree.canonical(f"{mod}.{cname}")
            cls = tree.classes.get(q)
        ok = cls is not None and tree.is_subclass(cls, tree.ENV_BASE)
        res.add("C18.R4", site, "jumanji.__init__", f"entry point of {idv!r} resolves to an Environment subclass", ok,
                cls.qual if cls is not None else f"{ast.unparse(ep) if ep is not None else None} not found in the tree")
        kwargs = kw.get("kwargs")
        if cls is not None and isinstance(kwargs, ast.Dict):
            initf = tree.find_method(cls, "__init__")
            params = [a.arg for a in initf.node.args.args[1:] + initf.node.args.kwonlyargs] if initf else []
            keys = [k.value for k in kwargs.keys if isinstance(k, ast.Constant)]
            bad = [k for k in keys if k not in params]
            res.add("C18.R4", site, "jumanji.__init__", f"kwargs keys of {idv!r} are constructor parameters", not bad,
                    f"keys {keys}" if not bad else f"{bad} are not parameters of {cls.name}.__init__ {params}")
    from . import wiring
    n_cs = wiring.class_state_writes(res, tree, "C18.R5", lambda ci: ci.module.name.startswith("jumanji.environments.") and not ci.module.name.endswith(".types") or ci.module.name in ("jumanji.wrappers", "jumanji.specs"))
    res.analysed = {"register_calls": len(calls), "registry_write_sites": len(fn_writes), "modules_scanned_for_writes": len(tree.modules)}
    res.assumptions = ["Python's `re` implements the parsed pattern; dict.copy() returns a new dict",
                       "ids are read as canonical decimal (leading zeros are canonicalised by register)"]
    return res
