"""LevelBasedForaging: eaten food no longer exists -- every place that lets food block a move, feed an agent,
appear in an observation or mask out an action must ignore food whose `eaten` flag is set.

Paired-use rule in the sense of Engler et al.: the instances were found by looking for every function that reads
food positions / levels (6 on the pinned tree), confirmed by reading, and frozen in the table below with one
line each.  An instance holds when the listed function (including its nested functions) reads `.eaten` of a
food-typed value; functions that only forward food objects are not instances."""
from __future__ import annotations

import ast
from typing import List

from ..loader import AnalysisError, Tree

LBF = "jumanji.environments.routing.lbf."
SITES = [
    # (qualified function, which rule family reports it, what the use is)
    ("utils.simulate_agent_movement", "transition", "a move into a cell occupied by food is blocked -- only by uneaten food"),
    ("utils.eat_food", "transition", "food can be loaded only while it is uneaten"),
    ("utils.compute_action_mask", "mask", "moves into food cells and LOAD are masked with respect to uneaten food only"),
    ("observer.VectorObserver.make_agents_view", "observation", "the vector view lists visible uneaten food only"),
    ("observer.GridObserver.make_agents_view", "observation", "the grid view paints the level of uneaten food only"),
]


def add_obligations(res, tree: Tree, rule: str, family: str) -> int:
    n = 0
    for qual, fam, what in SITES:
        if fam != family:
            continue
        f = tree.functions.get(LBF + qual)
        if f is None:
            raise AnalysisError(f"anchor {LBF}{qual} not found")
        reads = [a for a in ast.walk(f.node) if isinstance(a, ast.Attribute) and a.attr == "eaten" and isinstance(a.ctx, ast.Load)]
        uses_food = [a for a in ast.walk(f.node) if isinstance(a, ast.Attribute) and a.attr in ("position", "level")
                     and "food" in ast.unparse(a.value).lower()]
        negated = [a for a in reads if _negated(f.node, a)]
        ok = bool(negated) if uses_food or True else None
        res.add(rule, f.loc(), "routing.lbf." + qual, f"eaten food is ignored: {what}", ok,
                f"{len(reads)} read(s) of .eaten, {len(negated)} negated (~food.eaten)" if ok else
                "the function no longer excludes eaten food (no `~<food>.eaten` factor / conjunct)")
        n += 1
    return n


def _negated(root: ast.AST, attr: ast.Attribute) -> bool:
    """The .eaten read is used negated (~x.eaten / logical_not(x.eaten)), i.e. as 'still present'."""
    for node in ast.walk(root):
        if isinstance(node, ast.UnaryOp) and isinstance(node.op, (ast.Invert, ast.Not)) and node.operand is attr:
            return True
        if isinstance(node, ast.Call) and ast.unparse(node.func).split(".")[-1] in ("logical_not", "invert") and attr in node.args:
            return True
    return False


def occupancy_obligations(res, tree: Tree, rule: str) -> int:
    """Sibling agreement between the mask and the step on what blocks a move: compute_action_mask forbids a move into a
    cell occupied by another agent (it reads the positions of ALL agents), so the step-side resolution of one agent's
    move -- where(blocked, own position, new position) inside the per-agent map -- must depend on the positions of all
    agents as well.  (fix_collisions only sends back agents that END on the same cell; an agent stepping onto a cell
    that another agent holds and fails to leave is a different case.)  Decided on the value-flow graph of step."""
    from ..engine import analyse_env
    from ..normal import strip_cast
    from ..terms import contains, deps, uncopy
    from .common import env_site, txt
    cis = [c for c in tree.environment_classes() if c.name == "LevelBasedForaging"]
    if not cis:
        raise AnalysisError("environment LevelBasedForaging not found")
    ea = analyse_env(tree, cis[0])
    vfg = ea.vfg
    agents = vfg.mk_attr(ea.state, "agents")
    allpos = vfg.mk_attr(agents, "position")
    site, fn = env_site(ea, "step")
    found = []
    for t in deps(ea.step_result):
        if t.kind == "choice" and t.args[0] in ("where", "select") and len(t.args[2]) == 2:
            for x in t.args[2]:
                x = uncopy(strip_cast(x))
                if x.kind == "attr" and x.args[1] == "position" and x.args[0].kind == "elem" and uncopy(x.args[0].args[0]) is agents:
                    found.append(t)
    if not found:
        res.add(rule, site, fn, "a move into a cell held by another agent is blocked by step as it is by the mask", None, "per-agent move resolution not found in the recognised form")
        return 1
    ok = all(contains(t.args[1], allpos) for t in found)
    mask_f = tree.functions.get(LBF + "utils.compute_action_mask")
    res.add(rule, site, fn, "a move into a cell held by another agent is blocked by step as it is by the mask", ok,
            "the per-agent resolution where(blocked, own position, new position) reads the positions of all agents" if ok else
            f"blocked = {txt(found[0].args[1], 3, 100)} does not depend on the other agents' positions, while the mask forbids moves into occupied cells")
    return 1
