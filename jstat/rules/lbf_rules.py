"""LevelBasedForaging: eaten food no longer exists -- every place that lets food block a move, feed an agent,
appear in an observation or mask out an action must ignore food whose `eaten` flag is set.

Paired-use rule in the sense of Engler et al.: the instances were found by looking for every function that reads
food positions / levels (6 on the pinned tree), confirmed by reading, and frozen in the table below with one
line each.  An instance holds when the listed function (including its nested functions) reads `.eaten` of a
food-typed value; functions that only forward food objects are not instances."""
from __future__ import annotations

import ast
from typing import List

from ..loader import AnalysisError, Tree

LBF = "jumanji.environments.routing.lbf."
SITES = [
    # (qualified function, which rule family reports it, what the use is)
    ("utils.simulate_agent_movement", "transition", "a move into a cell occupied by food is blocked -- only by uneaten food"),
    ("utils.eat_food", "transition", "food can be loaded only while it is uneaten"),
    ("utils.compute_action_mask", "mask", "moves into food cells and LOAD are masked with respect to uneaten food only"),
    ("observer.VectorObserver.make_agents_view", "observation", "the vector view lists visible uneaten food only"),
    ("observer.GridObserver.make_agents_view", "observation", "the grid view paints the level of uneaten food only"),
]


def add_obligations(res, tree: Tree, rule: str, family: str) -> int:
    n = 0
    for qual, fam, what in SITES:
        if fam != family:
            continue
        f = tree.functions.get(LBF + qual)
        if f is None:
            raise AnalysisError(f"anchor {LBF}{qual} not found")
        reads = [a for a in ast.walk(f.node) if isinstance(a, ast.Attribute) and a.attr == "eaten" and isinstance(a.ctx, ast.Load)]
        uses_food = [a for a in ast.walk(f.node) if isinstance(a, ast.Attribute) and a.attr in ("position", "level")
                     and "food" in ast.unparse(a.value).lower()]
        negated = [a for a in reads if _negated(f.node, a)]
        ok = bool(negated) if uses_food or True else None
        res.add(rule, f.loc(), "routing.lbf." + qual, f"eaten food is ignored: {what}", ok,
                f"{len(reads)} read(s) of .eaten, {len(negated)} negated (~food.eaten)" if ok else
                "the function no longer excludes eaten food (no `~<food>.eaten` factor / conjunct)")
        n += 1
    return n


def _negated(root: ast.AST, attr: ast.Attribute) -> bool:
    """The .eaten read is used negated (~x.eaten / logical_not(x.eaten)), i.e. as 'still present'."""
    for node in ast.walk(root):
        if isinstance(node, ast.UnaryOp) and isinstance(node.op, (ast.Invert, ast.Not)) and node.operand is attr:
            return True
        if isinstance(node, ast.Call) and ast.unparse(node.func).split(".")[-1] in ("logical_not", "invert") and attr in node.args:
            return True
    return False
