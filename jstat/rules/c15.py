"""C15 -- Gym / dm_env / multi-to-single adapters relay the native episode faithfully
(structural part)."""
from __future__ import annotations

import ast
from typing import Dict, List, Optional

from ..engine import VFG, get_tree
from ..loader import AnalysisError, ClassInfo
from ..model import Model
from ..normal import ext_name, strip_cast
from ..report import Result
from ..terms import NONE, T, const, contains, deps, mk, uncopy
from .c16 import conversion_obligations
from .common import txt, wrapper_env_attr

EXPLANATION = (
    "Decided on the value-flow graph of jumanji/wrappers.py with the wrapped environment abstract: (R1) key schedule -- "
    "both adapters' reset splits the adapter key once, seeds the inner reset with one half and stores the OTHER half back; "
    "seed(s) stores PRNGKey(s); gym reset(seed=...) calls seed before the split; (R2) state threading -- self._state is "
    "assigned from the inner reset/step result and is the state argument of the next inner step; (R3) relay fidelity -- "
    "dm_env step maps step_type/reward/discount/observation field to field and dm_env reset is restart(observation = "
    "inner observation); gym step returns (obs from observation, reward from reward, terminated = not bool(discount), "
    "truncated = last(), info from extras); MultiToSingleWrapper passes state, step_type, observation and extras "
    "through, reward through the reward aggregator and discount through the discount aggregator (defaults jnp.sum / "
    "jnp.max, not crossed) in both reset and step; (R4) the spec -> space / dm_env-spec conversions test subclasses "
    "before superclasses and wire the matching attributes. Not decided: membership of real observations in the "
    "converted spaces; equality of re-seeded episodes as a behavioural statement (R1 + R2 + C02 are its structural part).")

W = "jumanji.wrappers."


def init_attrs(tree, ci: ClassInfo):
    """Evaluate __init__ symbolically; returns (vfg, {attr: [stored values in order]})."""
    v = VFG(tree, Model(tree))
    self_t = mk("self", ci.qual)
    init = tree.find_method(ci, "__init__")
    if init is None:
        raise AnalysisError(f"{ci.qual}.__init__ not found")
    ps = [mk("param", init.qual, p) for p in init.params[1:]]
    v.apply_func(init, self_t, init.cls, ps, {}, None, None)
    out: Dict[str, List[T]] = {}
    for e in v.events:
        if e.kind == "store_attr" and e.target is self_t:
            out.setdefault(e.name, []).append(e.value)
    return v, out, {p: mk("param", init.qual, p) for p in init.params[1:]}


def run_method(tree, ci: ClassInfo, name: str, attrs: Dict[str, T]):
    v = VFG(tree, Model(tree))
    v.instance_attrs = dict(attrs)
    self_t = mk("self", ci.qual)
    f = tree.find_method(ci, name)
    if f is None:
        raise AnalysisError(f"{ci.qual}.{name} not found")
    a = f.node.args
    ps = [mk("param", f.qual, p) for p in f.params[1:]]
    kw = {x.arg: mk("param", f.qual, x.arg) for x in a.kwonlyargs}
    r = uncopy(v.apply_func(f, self_t, f.cls, ps, kw, None, None))
    stores: Dict[str, List[T]] = {}
    for e in v.events:
        if e.kind == "store_attr" and e.target is self_t:
            stores.setdefault(e.name, []).append(uncopy(e.value))
    params = {p: mk("param", f.qual, p) for p in f.params[1:]}
    params.update(kw)
    return r, stores, params, f, v


def mutable_attrs(ci: ClassInfo) -> set:
    """self attributes assigned by any method other than __init__ (per-episode state such as the key and the state)."""
    out = set()
    for name, f in ci.methods.items():
        if name == "__init__":
            continue
        for n in ast.walk(f.node):
            tg = []
            if isinstance(n, ast.Assign):
                tg = n.targets
            elif isinstance(n, (ast.AugAssign, ast.AnnAssign)):
                tg = [n.target]
            for t in tg:
                for x in ast.walk(t):
                    if isinstance(x, ast.Attribute) and isinstance(x.value, ast.Name) and x.value.id == "self":
                        out.add(x.attr)
    return out


def fixed_attrs(ci: ClassInfo, ia: Dict[str, List[T]], env_attr: str) -> Dict[str, T]:
    """Instance attributes fixed by __init__ (never re-assigned), by whatever name -- the wrapped environment excepted."""
    mut = mutable_attrs(ci)
    return {k: v[-1] for k, v in ia.items() if k not in mut and k != env_attr}


def env_attr(ia: Dict[str, List[T]], ip: Dict[str, T], fallback: str) -> str:
    """The attribute in which this class's __init__ chain stores the wrapped environment (by role)."""
    envp = ip.get("env")
    names = [k for k, vs in ia.items() if envp is not None and any(uncopy(v) is envp for v in vs)]
    return names[0] if len(names) == 1 else fallback


def key_attr(stores: Dict[str, List[T]]) -> Optional[str]:
    """The attribute that receives a projection of jax.random.split in this method (the adapter's key, by role)."""
    names = [k for k, vs in stores.items() if any(v.kind == "proj" and ext_name(v.args[0]) == "jax.random.split" for v in vs)]
    return names[0] if len(names) == 1 else None


def key_schedule(res: Result, fn: str, f, stores, inner_reset_call: Optional[T], self_t: T):
    site = f.loc()
    K = key_attr(stores)
    ks = stores.get(K, []) if K is not None else []
    split_stores = [k for k in ks if k.kind == "proj" and ext_name(k.args[0]) == "jax.random.split"]
    ok = False
    why = f"key attribute {K}: stores {[txt(k, 4, 60) for k in ks]}"
    if len(split_stores) == 1 and inner_reset_call is not None and inner_reset_call.args[1]:
        stored = split_stores[0]
        used = inner_reset_call.args[1][0]
        sp = stored.args[0]
        src_ok = sp.args[1] and sp.args[1][0] is mk("attr", self_t, K) and (len(sp.args[1]) == 1 or (len(sp.args[1]) == 2 and sp.args[1][1] is const(2)))
        ok = bool(src_ok and used.kind == "proj" and used.args[0] is sp and used.args[1] != stored.args[1])
        why = f"reset key {txt(used, 4, 60)}; stored back {txt(stored, 4, 60)}"
        if used is mk("attr", self_t, K):
            why += " -- the adapter key itself is reused: every reset replays the same episode"
        elif used.kind == "proj" and used.args[0] is sp and used.args[1] == stored.args[1]:
            why += " -- the SAME half is used and stored: consecutive episodes are correlated"
    res.add("C15.R1", site, fn, "reset splits the adapter key once: one half seeds the inner reset, the other is stored back", ok, why)
    return K


def _converted_by(tree, vfg_, meth, inner_obs: T, obs: T) -> bool:
    """The observation returned by `meth` is the result of a call of the module's observation converter (the function
    that turns array leaves into host arrays and records into dicts; located by role: the wrappers-module function the
    method calls with the inner observation) -- not the raw inner observation."""
    if uncopy(strip_cast(obs)) is inner_obs:
        return False
    for cf, vars_, caller, node, result in vfg_.callsites:
        if cf.cls is None and cf.module.name == "jumanji.wrappers" and result is not None:
            args = [uncopy(strip_cast(v)) for v in vars_.values()]
            if inner_obs in args and (uncopy(result) is uncopy(obs) or contains(obs, uncopy(result))):
                return True
    # a host conversion is present but the value flow between the jitted step and the converter is not resolved
    # (e.g. outputs forwarded through a star-slice): not decided
    if any(ext_name(d) in ("numpy.asarray", "numpy.array", "jax.device_get") for d in deps(obs)):
        return None
    return False


def check(tier: str) -> Result:
    tree = get_tree()
    res = Result(explanation=EXPLANATION)
    for c in ("JumanjiToDMEnvWrapper", "JumanjiToGymWrapper", "MultiToSingleWrapper"):
        if W + c not in tree.classes:
            raise AnalysisError(f"anchor {W}{c} not found")
    # ================================================================== dm_env adapter
    ci = tree.classes[W + "JumanjiToDMEnvWrapper"]
    self_t = mk("self", ci.qual)
    _, ia, ip = init_attrs(tree, ci)
    EA = env_attr(ia, ip, wrapper_env_attr(tree))
    E = mk("attr", self_t, EA)
    res.add("C15.R2", tree.find_method(ci, "__init__").loc(), "wrappers.JumanjiToDMEnvWrapper.__init__", "the wrapped environment is stored once", [uncopy(x) for x in ia.get(EA, [])] == [ip["env"]], f"{[txt(x) for x in ia.get(EA, [])]}")
    attrs = fixed_attrs(ci, ia, EA)
    for meth in ("reset", "step"):
        vs = [k for k, v in attrs.items() if uncopy(v) is mk("attr", E, meth)]
        res.add("C15.R2", tree.find_method(ci, "__init__").loc(), "wrappers.JumanjiToDMEnvWrapper.__init__", f"the (jitted) inner {meth} is kept in an attribute", len(vs) >= 1, f"attributes {vs}")
    r, st, pr, f, _ = run_method(tree, ci, "reset", attrs)
    calls = [n for n in deps(r) if n.kind == "call" and n.args[0].kind == "attr" and n.args[0].args[1] == "reset" and n.args[0].args[0] is E]
    rc = calls[0] if len(calls) == 1 else None
    key_schedule(res, "wrappers.JumanjiToDMEnvWrapper.reset", f, st, rc, self_t)
    S = next((k for k, vs in st.items() if rc is not None and any(v is mk("proj", rc, 0) for v in vs)), None)
    # initial key: the key argument when one is given, a constant PRNGKey otherwise (by path condition of the stores)
    Kd = key_attr(st)
    vinit, _, _ = init_attrs(tree, ci)
    from .common import norm_path as _np
    kst = [e for e in vinit.events if e.kind == "store_attr" and e.target is self_t and e.name == Kd] if Kd is not None else []
    keyp = ip.get("key")
    given_ok = default_ok = False
    flat = []
    for e in kst:
        val = uncopy(e.value)
        conds = [(t, pol) for t, pol, _ in _np(e.path)]
        alts = [(val, conds)]
        if val.kind == "choice" and val.args[0] == "ifexp" and len(val.args[2]) == 2:
            c0, pol0 = val.args[1], True
            from .common import norm_cond as _nc
            c0, pol0 = _nc(c0, True)
            alts = [(uncopy(val.args[2][0]), conds + [(c0, pol0)]), (uncopy(val.args[2][1]), conds + [(c0, not pol0)])]
        elif val.kind == "bool" and val.args[0] == "or" and len(val.args[1]) == 2 and uncopy(val.args[1][0]) is keyp:
            alts = [(keyp, conds + [(mk("cmp", "is", keyp, NONE), False)]), (uncopy(val.args[1][1]), conds + [(mk("cmp", "is", keyp, NONE), True)])]
        flat += alts
    for val, conds in flat:
        none_pol = [pol for t, pol in conds if t.kind == "cmp" and t.args[0] == "is" and t.args[1] is keyp and t.args[2] is NONE]
        if val is keyp and none_pol == [False]:
            given_ok = True
        if ext_name(val) == "jax.random.PRNGKey" and none_pol == [True] and not contains(val, keyp):
            default_ok = True
    res.add("C15.R1", tree.find_method(ci, "__init__").loc(), "wrappers.JumanjiToDMEnvWrapper.__init__", "initial key is the key argument when given, a fixed PRNGKey otherwise",
            given_ok and default_ok and len(flat) == 2, f"key attribute {Kd}: " + "; ".join(f"{txt(v_, 3, 40)} under {[('' if pol else 'not ') + txt(t, 3, 30) for t, pol in c_]}" for v_, c_ in flat))
    def named_args(call: T, order):
        """keyword view of a call to a dm_env constructor whose positional order is `order`"""
        if call.kind != "call":
            return None
        got = dict(call.args[2])
        if len(call.args[1]) > len(order) or any(order[i] in got for i in range(len(call.args[1]))):
            return None
        for i, a in enumerate(call.args[1]):
            got[order[i]] = a
        return got

    exp_obs = mk("attr", mk("proj", rc, 1), "observation") if rc is not None else None
    got_r = named_args(r, ("observation",)) if ext_name(r) == "dm_env.restart" else None
    res.add("C15.R3", f.loc(), "wrappers.JumanjiToDMEnvWrapper.reset", "returns dm_env.restart(observation = inner reset observation)",
            exp_obs is not None and got_r is not None and set(got_r) == {"observation"} and got_r["observation"] is exp_obs, txt(r, 6, 200))
    ss = st.get(S, []) if S is not None else []
    res.add("C15.R2", f.loc(), "wrappers.JumanjiToDMEnvWrapper.reset", "the state attribute <- state returned by the inner reset", rc is not None and ss == [mk("proj", rc, 0)], f"attribute {S}: {[txt(s_, 4, 80) for s_ in ss]}")
    r, st, pr, f, _ = run_method(tree, ci, "step", attrs)
    sc = mk("call", mk("attr", E, "step"), (mk("attr", self_t, S or "_state"), pr["action"]), ())
    ts = mk("proj", sc, 1)
    want = {k: mk("attr", ts, k) for k in ("step_type", "reward", "discount", "observation")}
    got_s = named_args(r, ("step_type", "reward", "discount", "observation")) if ext_name(r) == "dm_env.TimeStep" else None
    ok = got_s is not None and got_s == want
    why = "field-to-field"
    if not ok and r.kind == "call":
        got = got_s if got_s is not None else dict(r.args[2])
        bad = {k: txt(got.get(k), 3, 50) for k in want if got.get(k) is not want[k]}
        why = f"mis-wired {bad}" if bad else txt(r, 5, 200)
    res.add("C15.R3", f.loc(), "wrappers.JumanjiToDMEnvWrapper.step", "dm_env.TimeStep(step_type, reward, discount, observation) taken field-to-field from the inner step on self._state", ok, why)
    ss = st.get(S, []) if S is not None else []
    res.add("C15.R2", f.loc(), "wrappers.JumanjiToDMEnvWrapper.step", "the state attribute <- state returned by the inner step", ss == [mk("proj", sc, 0)], f"attribute {S}: {[txt(s_, 4, 80) for s_ in ss]}")
    # ================================================================== gym adapter
    ci = tree.classes[W + "JumanjiToGymWrapper"]
    self_t = mk("self", ci.qual)
    _, ia, ip = init_attrs(tree, ci)
    EA = env_attr(ia, ip, wrapper_env_attr(tree))
    E = mk("attr", self_t, EA)
    res.add("C15.R2", tree.find_method(ci, "__init__").loc(), "wrappers.JumanjiToGymWrapper.__init__", "the wrapped environment is stored once", [uncopy(x) for x in ia.get(EA, [])] == [ip["env"]], f"{[txt(x) for x in ia.get(EA, [])]}")
    attrs = fixed_attrs(ci, ia, EA)
    r, st, pr, f, vreset0 = run_method(tree, ci, "reset", attrs)
    calls = [n for n in deps(r) if n.kind == "call" and n.args[0].kind == "attr" and n.args[0].args[1] == "reset" and n.args[0].args[0] is E]
    rc = calls[0] if len(calls) == 1 else None
    st2 = {k: [x for x in vs if ext_name(x) != "jax.random.PRNGKey"] for k, vs in st.items()}
    K = key_schedule(res, "wrappers.JumanjiToGymWrapper.reset", f, st2, rc, self_t)
    reset_facts = (r, st, pr, f)
    k0 = ia.get(K, []) if K is not None else []
    ok = len(k0) == 1 and ext_name(k0[0]) == "jax.random.PRNGKey" and k0[0].args[1] == (ip["seed"],)
    res.add("C15.R1", tree.find_method(ci, "__init__").loc(), "wrappers.JumanjiToGymWrapper.__init__", "initial key is PRNGKey(seed)", ok, f"key attribute {K}: {[txt(k, 3, 60) for k in k0]}")
    # documented key schedule starts from seed 0 by default (constructor and seed())
    import ast as _ast
    for mname in ("__init__", "seed"):
        mf_ = ci.methods.get(mname)
        if mf_ is None:
            continue
        a_ = mf_.node.args
        names_ = [x.arg for x in a_.args]
        dflt_ = dict(zip(names_[len(names_) - len(a_.defaults):], a_.defaults))
        d_ = dflt_.get("seed")
        res.add("C15.R1", mf_.loc(), f"wrappers.JumanjiToGymWrapper.{mname}", "the default seed is 0", (isinstance(d_, _ast.Constant) and d_.value == 0 and d_.value is not False) if d_ is not None else None,
                f"default {_ast.unparse(d_) if d_ is not None else None}")
    r, st, pr, f, _ = run_method(tree, ci, "seed", attrs)
    ks = st.get(K, []) if K is not None else []
    ok = len(ks) == 1 and ext_name(ks[0]) == "jax.random.PRNGKey" and ks[0].args[1] == (pr["seed"],)
    res.add("C15.R1", f.loc(), "wrappers.JumanjiToGymWrapper.seed", "seed(s) stores PRNGKey(s)", ok, f"key attribute {K}: {[txt(k, 3, 60) for k in ks]}")
    r, st, pr, f = reset_facts
    S = next((k for k, vs in st.items() if rc is not None and any(v is mk("proj", rc, 0) for v in vs)), None)
    # seed before split: the PRNGKey(seed) store into the key attribute precedes the store of the split half
    _, _, _, _, vreset = run_method(tree, ci, "reset", attrs)
    seedp = pr["seed"]
    kev = [e for e in vreset.events if e.kind == "store_attr" and e.target is self_t and e.name == K] if K is not None else []
    i_seed = next((i for i, e in enumerate(kev) if ext_name(uncopy(e.value)) == "jax.random.PRNGKey" and contains(e.value, seedp)), None)
    i_split = next((i for i, e in enumerate(kev) if uncopy(e.value).kind == "proj" and ext_name(uncopy(e.value).args[0]) == "jax.random.split"), None)
    res.add("C15.R1", f.loc(), "wrappers.JumanjiToGymWrapper.reset", "reset(seed=...) re-seeds before the key is split", i_seed is not None and i_split is not None and i_seed < i_split,
            f"stores into self.{K} in order: {[txt(uncopy(e.value), 3, 40) for e in kev]}")
    # the re-seeding runs exactly under `seed is not None` (every given seed, including 0, re-seeds)
    from .common import norm_path
    conds = [(t, pol) for t, pol, _ in norm_path(kev[i_seed].path)] if i_seed is not None else []
    on_seed = [(t, pol) for t, pol in conds if contains(t, seedp)]
    good = [1 for t, pol in on_seed if t.kind == "cmp" and t.args[0] == "is" and t.args[1] is seedp and t.args[2] is NONE and not pol]
    res.add("C15.R1", f.loc(), "wrappers.JumanjiToGymWrapper.reset", "every given seed re-seeds (guard is `seed is not None`, not truthiness)", bool(good) and len(good) == len(on_seed),
            f"re-seeding runs under {[('' if pol else 'not ') + txt(t, 3, 50) for t, pol in on_seed]}" + ("" if good and len(good) == len(on_seed) else " -- a truthiness test ignores seed=0"))
    ss = st.get(S, []) if S is not None else []
    res.add("C15.R2", f.loc(), "wrappers.JumanjiToGymWrapper.reset", "the state attribute <- state returned by the inner reset", rc is not None and ss == [mk("proj", rc, 0)], f"attribute {S}: {[txt(s_, 4, 80) for s_ in ss]}")
    if rc is not None and r.kind == "tuple" and len(r.args[0]) == 2:
        obs, info = r.args[0]
        tsr = mk("proj", rc, 1)
        ok = contains(obs, mk("attr", tsr, "observation")) and not any(contains(obs, mk("attr", tsr, x)) for x in ("reward", "discount", "extras", "step_type"))
        if not ok and not contains(obs, tsr) and any(ext_name(d) in ("numpy.asarray", "numpy.array", "jax.device_get") for d in deps(obs)):
            ok = None
        res.add("C15.R3", f.loc(), "wrappers.JumanjiToGymWrapper.reset", "returned observation is converted from the inner reset observation only", ok, txt(obs, 3, 120))
        conv = _converted_by(tree, vreset0, f, mk("attr", tsr, "observation"), obs)
        res.add("C15.R3", f.loc(), "wrappers.JumanjiToGymWrapper.reset", "returned observation went through the gym observation converter (host arrays / nested dicts)", conv,
                "jumanji_to_gym_obs(inner observation)" if conv else f"{txt(obs, 3, 100)} is handed out without conversion: a nested observation is not a member of the converted Dict space")
        ok = ext_name(info) == "jax.device_get" and info.args[1] == (mk("attr", tsr, "extras"),)
        res.add("C15.R3", f.loc(), "wrappers.JumanjiToGymWrapper.reset", "returned info is the inner extras", ok, txt(info, 4, 120))
    else:
        res.add("C15.R3", f.loc(), "wrappers.JumanjiToGymWrapper.reset", "returns (observation, info)", False, txt(r, 4, 160))
    r, st, pr, f, vstep = run_method(tree, ci, "step", attrs)
    calls = [n for n in deps(r) if n.kind == "call" and n.args[0].kind == "attr" and n.args[0].args[1] == "step" and n.args[0].args[0] is E]
    sc = calls[0] if len(calls) == 1 else None
    ok = sc is not None and len(sc.args[1]) == 2 and S is not None and sc.args[1][0] is mk("attr", self_t, S) and strip_cast(sc.args[1][1]) is pr["action"]
    res.add("C15.R2", f.loc(), "wrappers.JumanjiToGymWrapper.step", "the inner step runs on the stored state and the given action", ok, txt(sc, 4, 120) if sc is not None else "no single inner step call")
    if sc is not None and r.kind == "tuple" and len(r.args[0]) == 5:
        ts = mk("proj", sc, 1)
        obs, rew, term, trunc, info = r.args[0]
        ss = st.get(S, []) if S is not None else []
        res.add("C15.R2", f.loc(), "wrappers.JumanjiToGymWrapper.step", "the state attribute <- state returned by the inner step", ss == [mk("proj", sc, 0)], f"attribute {S}: {[txt(s_, 4, 80) for s_ in ss]}")
        ok = contains(obs, mk("attr", ts, "observation")) and not any(contains(obs, mk("attr", ts, x)) for x in ("reward", "discount", "extras", "step_type"))
        if not ok and not contains(obs, ts) and any(ext_name(d) in ("numpy.asarray", "numpy.array", "jax.device_get") for d in deps(obs)):
            ok = None
        res.add("C15.R3", f.loc(), "wrappers.JumanjiToGymWrapper.step", "observation is converted from the inner observation only", ok, txt(obs, 3, 120))
        conv = _converted_by(tree, vstep, f, mk("attr", ts, "observation"), obs)
        res.add("C15.R3", f.loc(), "wrappers.JumanjiToGymWrapper.step", "observation went through the gym observation converter (host arrays / nested dicts)", conv,
                "jumanji_to_gym_obs(inner observation)" if conv else f"{txt(obs, 3, 100)} is handed out without conversion: a nested observation is not a member of the converted Dict space")
        res.add("C15.R3", f.loc(), "wrappers.JumanjiToGymWrapper.step", "reward is the inner reward", strip_cast(rew) is mk("attr", ts, "reward"), txt(rew, 4, 100))
        t = strip_cast(term)
        ok = t.kind == "un" and t.args[0] in ("~", "not") and strip_cast(t.args[1]) is mk("attr", ts, "discount")
        res.add("C15.R3", f.loc(), "wrappers.JumanjiToGymWrapper.step", "terminated = not bool(inner discount)", ok, txt(term, 5, 120))
        t = strip_cast(trunc)
        LASTQ = VFG(tree, Model(tree))
        from .c13 import is_last_pred
        ok = is_last_pred(LASTQ, t, ts)
        res.add("C15.R3", f.loc(), "wrappers.JumanjiToGymWrapper.step", "truncated = inner timestep.last()", ok, txt(trunc, 5, 120))
        ok = ext_name(info) == "jax.device_get" and info.args[1] == (mk("attr", ts, "extras"),)
        res.add("C15.R3", f.loc(), "wrappers.JumanjiToGymWrapper.step", "info is the inner extras", ok, txt(info, 4, 120))
    else:
        res.add("C15.R3", f.loc(), "wrappers.JumanjiToGymWrapper.step", "returns (obs, reward, terminated, truncated, info) from one inner step", False, txt(r, 4, 200))
    # value flow between the jitted step and the returned tuple not resolved (outputs forwarded through a star-slice of a
    # list / tuple the evaluator could not index): the field-to-field obligations of gym step are not decided then
    if any(ext_name(d) in ("builtins.list", "builtins.tuple") and d.args[1] and d.args[1][0].kind in ("tuple", "list") for d in deps(r)):
        for o_ in res.obligations:
            if o_.rule == "C15.R3" and o_.func == "wrappers.JumanjiToGymWrapper.step" and o_.ok is False:
                o_.ok = None
                o_.detail = "not decided (outputs of the inner step are forwarded through an unresolved star-slice): " + o_.detail
    # ---- jumanji_to_gym_obs: array leaves are converted without changing their dtype
    cf = tree.functions.get(W + "jumanji_to_gym_obs")
    if cf is None:
        raise AnalysisError("anchor jumanji_to_gym_obs not found")
    vc = VFG(tree, Model(tree))
    ob = mk("param", cf.qual, cf.params[0])
    rc = uncopy(vc.apply_func(cf, None, None, [ob], {}, None, None))
    arr = [x for x in (rc.args[0] if rc.kind == "phi" else (rc,)) if ext_name(x) in ("numpy.asarray", "numpy.array", "jax.device_get", "jax.numpy.asarray")]
    okc = bool(arr) and all(x.args[1] == (ob,) and not dict(x.args[2]).get("dtype") and len(x.args[2]) == 0 for x in arr)
    res.add("C15.R3", cf.loc(), "wrappers.jumanji_to_gym_obs", "array leaves are converted with np.asarray(leaf) and keep their dtype", okc,
            f"{[txt(x, 3, 70) for x in arr]}" if arr else txt(rc, 3, 160))
    # ================================================================== MultiToSingleWrapper
    ci = tree.classes[W + "MultiToSingleWrapper"]
    self_t = mk("self", ci.qual)
    _, ia, ip = init_attrs(tree, ci)
    EA = env_attr(ia, ip, wrapper_env_attr(tree))
    E = mk("attr", self_t, EA)
    init = ci.methods.get("__init__")
    dflt = {}
    a = init.node.args
    names = [x.arg for x in a.args]
    for nm, d in zip(names[len(names) - len(a.defaults):], a.defaults):
        dflt[nm] = tree.resolve_expr(ci.module, d)
    res.add("C15.R3", init.loc(), "wrappers.MultiToSingleWrapper.__init__", "default aggregators are jnp.sum (reward) and jnp.max (discount)",
            dflt.get("reward_aggregator") == "jax.numpy.sum" and dflt.get("discount_aggregator") == "jax.numpy.max", f"{dflt}")
    ra = [k for k, v in ia.items() if [uncopy(x) for x in v] == [ip["reward_aggregator"]]]
    da = [k for k, v in ia.items() if [uncopy(x) for x in v] == [ip["discount_aggregator"]]]
    res.add("C15.R3", init.loc(), "wrappers.MultiToSingleWrapper.__init__", "each aggregator parameter is stored in its own attribute (which one reset/step apply to which field is decided below)",
            len(ra) == 1 and len(da) == 1 and ra != da, f"reward aggregator -> {ra}, discount aggregator -> {da}")
    attrs = fixed_attrs(ci, ia, EA)
    for meth in ("reset", "step"):
        r, st, pr, f, _ = run_method(tree, ci, meth, attrs)
        args = tuple(pr[p] for p in f.params[1:])
        ic = mk("call", mk("attr", E, meth), args, ())
        ts = mk("proj", ic, 1)
        TS = "jumanji.types.TimeStep"
        exp_ts = mk("construct", TS, (("step_type", mk("attr", ts, "step_type")),
                                      ("reward", mk("call", ip["reward_aggregator"], (mk("attr", ts, "reward"),), ())),
                                      ("discount", mk("call", ip["discount_aggregator"], (mk("attr", ts, "discount"),), ())),
                                      ("observation", mk("attr", ts, "observation")), ("extras", mk("attr", ts, "extras"))))
        ok = False
        why = txt(r, 5, 200)
        if r.kind == "tuple" and len(r.args[0]) == 2:
            v_ = VFG(tree, Model(tree))
            want = dict(exp_ts.args[1])
            got = {k: uncopy(v_.mk_attr(r.args[0][1], k)) for k in want}
            bad = {k: txt(got.get(k), 4, 70) for k in want if got.get(k) is not want[k]}
            state_ok = r.args[0][0] is mk("proj", ic, 0)
            ok = not bad and state_ok
            why = "as specified (field by field)" if ok else f"fields differing from the specification: {bad}; state passed through: {state_ok}"
        res.add("C15.R3", f.loc(), f"wrappers.MultiToSingleWrapper.{meth}",
                "returns (inner state, TimeStep(step_type, observation, extras unchanged; reward_aggregator(reward); discount_aggregator(discount)))", ok, why)
    # ================================================================== R4 conversions
    n = conversion_obligations(res, tree, "C15.R4")
    # ---- R5: "observations belong to the converted observation space": the converted space is built from the
    # declared spec, so the spec-conformance clauses decided by C01 (shapes, counter bounds, coordinate bounds) and the
    # extent/axis wiring of the generators (C07.R1) are necessary here as well
    from .common import borrow
    n_c01 = borrow(res, "c01", {"C01.R3": "C15.R5", "C01.R5": "C15.R5", "C01.R8": "C15.R5", "C01.R1": "C15.R5"})
    n_c01 += borrow(res, "c07", {"C07.R1": "C15.R5"})
    res.analysed = {"classes": [W + "JumanjiToDMEnvWrapper", W + "JumanjiToGymWrapper", W + "MultiToSingleWrapper"], "conversion_obligations": n}
    res.assumptions = ["jax.jit preserves the function; jax.random.split yields independent halves",
                       "the wrapped environment is abstract"]
    return res
