"""C13 -- AutoResetWrapper resets exactly when an episode ends, with a fresh instance.
The obligations are also instantiated on VmapAutoResetWrapper by c14.py."""
from __future__ import annotations

import ast
from typing import Dict, Optional, Tuple

from ..engine import VFG, get_tree
from ..loader import AnalysisError, Tree
from ..model import Model
from ..normal import ext_name, strip_cast
from ..report import Result
from ..terms import NONE, T, const, contains, mk, show, uncopy
from .common import step_types, txt, wrapper_env_attr

EXPLANATION = (
    "Decided on the value-flow graph of jumanji/wrappers.py (the wrapped environment is left abstract, so the result "
    "holds for every environment): (R1) step = inner step followed by a selection whose predicate is exactly the inner "
    "timestep's last(); the keep-branch returns the inner state unchanged and maybe_add(inner timestep); (R2) the "
    "auto-reset branch calls the inner reset with a key that is a projection of jax.random.split(terminal state's key) "
    "(not the key itself, not a constant), returns that reset's state, and returns replace(maybe_add(terminal "
    "timestep), observation = reset observation): the replaced-field set is exactly {observation}, so step_type, "
    "reward, discount and extras are the terminal step's, and maybe_add is applied before the observation is replaced "
    "so extras['next_obs'] is the true successor observation; (R3) add_obs_to_extras stores timestep.observation under "
    "NEXT_OBS_KEY_IN_EXTRAS and __init__ wires it to next_obs_in_extras=True and the identity to False; (R4) reset "
    "returns the inner reset's state unchanged and maybe_add of its timestep. (R6) precondition of the lax.cond between the auto-reset and the keep branch for every shipped environment: each State leaf with an inferable symbolic shape has the same shape after reset and after step. 'Successive resets use different keys' "
    "follows from R2 plus C10.R1 (State.key of every random generator derives from the reset key). "
    "Not decided: numerical agreement under jit/vmap/scan (XLA semantics).")
EXPLANATION += " (R5) every random generator's State.key derives from the key argument (shared with C10.R1a): the key split off at an automatic reset differs from episode to episode."

W = "jumanji.wrappers."


def is_last_pred(vfg: VFG, p: T, t1: T) -> bool:
    p = strip_cast(p)
    if p.kind == "call" and p.args[0].kind == "attr" and p.args[0].args[1] == "last" and p.args[0].args[0] is t1 \
            and not p.args[1] and not p.args[2]:
        return True
    LAST = step_types(vfg)["LAST"]
    if p.kind == "cmp" and p.args[0] == "==":
        a, b = p.args[1], p.args[2]
        st = mk("attr", t1, "step_type")
        return (a is st and b is LAST) or (b is st and a is LAST)
    return False


def unbatch(t: T) -> T:
    return t.args[0] if t.kind == "batched" else t


def is_add_obs(out: T, ts: T, key: T) -> Tuple[bool, str]:
    """out == ts with extras replaced by (ts.extras plus {key: ts.observation}) and nothing else changed."""
    out = uncopy(out)
    why = ""
    if out.kind == "update" and strip_cast(out.args[0]) is ts and out.args[1] == "extras":
        ex = out.args[2]
        if ext_name(ex) == "builtins.setitem":
            obj, k, v = ex.args[1]
            return (obj is mk("attr", ts, "extras") and k is key and v is mk("attr", ts, "observation")), why
        if ex.kind == "dict":
            d = dict(zip(ex.args[0], ex.args[1]))
            keeps = any(k.kind == "star" and k.args[0] is mk("attr", ts, "extras") for k in ex.args[0])
            if not keeps:
                why = " -- the inner environment's extras are dropped"
            return (d.get(key) is mk("attr", ts, "observation") and keeps), why
    return False, why


def base_wrapper_obligations(res: Result, rule: str, tree: Tree) -> int:
    """The base class every functional wrapper inherits from is a transparent proxy: reset/step/render hand their
    arguments on in the same order and return the inner result itself; the four spec accessors return the inner specs
    (AutoResetWrapper and the Vmap wrappers inherit all of them except reset/step/render)."""
    ci = tree.classes.get(W + "Wrapper")
    if ci is None:
        raise AnalysisError("anchor jumanji.wrappers.Wrapper not found")
    self_t = mk("self", ci.qual)
    E = mk("attr", self_t, wrapper_env_attr(tree))
    n = 0
    for meth in ("reset", "step", "render"):
        f = ci.methods.get(meth)
        if f is None:
            raise AnalysisError(f"Wrapper.{meth} not found")
        v = VFG(tree, Model(tree))
        ps = [mk("param", f.qual, p) for p in f.params[1:]]
        r = uncopy(v.apply_func(f, self_t, ci, ps, {}, None, None))
        exp = mk("call", mk("attr", E, meth), tuple(ps), ())
        res.add(rule, f.loc(), f"wrappers.Wrapper.{meth}", f"{meth}(*args) is env.{meth}(*args) with the arguments in the same order", r is exp, txt(r, 5, 160))
        n += 1
    for prop in ("observation_spec", "action_spec", "reward_spec", "discount_spec", "unwrapped"):
        f = ci.methods.get(prop)
        if f is None:
            raise AnalysisError(f"Wrapper.{prop} not found")
        v = VFG(tree, Model(tree))
        r = uncopy(v.apply_func(f, self_t, ci, [], {}, None, None))
        res.add(rule, f.loc(), f"wrappers.Wrapper.{prop}", f"{prop} is the wrapped environment's {prop}", r is mk("attr", E, prop), txt(r, 5, 160))
        n += 1
    return n


def autoreset_obligations(res: Result, rule: str, vfg: VFG, tree: Tree, clsname: str, batched: bool) -> Dict[str, object]:
    """Instantiates the C13 obligations on `clsname`; returns facts for sibling agreement.  The wrapper is evaluated
    twice, once per value of next_obs_in_extras, with the attributes its __init__ fixes for that value: whatever
    mechanism selects the maybe-add behaviour (a stored function, a flag tested in a method, a dict dispatch), the
    timesteps it returns must be the inner ones unchanged (False) or with extras[next_obs] = observation added (True)."""
    ci = tree.classes.get(W + clsname)
    if ci is None:
        raise AnalysisError(f"anchor {W}{clsname} not found")
    self_t = mk("self", ci.qual)
    EA = wrapper_env_attr(tree)
    E = mk("attr", self_t, EA)
    init = tree.find_method(ci, "__init__")
    addf = tree.functions.get(W + "add_obs_to_extras")
    key_t = vfg.resolve_qual(W + "NEXT_OBS_KEY_IN_EXTRAS")
    if init is None or key_t.kind != "const":
        raise AnalysisError("anchor __init__ / NEXT_OBS_KEY_IN_EXTRAS not found")
    step = tree.find_method(ci, "step")
    reset = tree.find_method(ci, "reset")
    if step is None or reset is None or step.cls.qual == W + "Wrapper":
        raise AnalysisError(f"{clsname}.step/reset not found")
    fn = f"wrappers.{clsname}"
    facts: Dict[str, object] = {}
    from .c15 import mutable_attrs
    mut = mutable_attrs(ci)

    def matches_maybe_add(flag: bool, x: T, t: T) -> Tuple[bool, str]:
        x = uncopy(x)
        if not flag:
            return (x is t), ""
        return is_add_obs(x, t, key_t)

    for flag in (True, False):
        tag = f"[next_obs_in_extras={flag}] "
        v0 = VFG(tree, Model(tree))
        v0.apply_func(init, self_t, init.cls, [mk("param", init.qual, "env"), const(flag)], {}, None, None)
        attrs: Dict[str, T] = {}
        for e in v0.events:
            if e.kind == "store_attr" and e.target is self_t and e.name != EA and e.name not in mut:
                attrs[e.name] = e.value
        v = VFG(tree, Model(tree))
        v.instance_attrs = dict(attrs)
        # ---------------- step
        S, A = mk("param", step.qual, step.params[1]), mk("param", step.qual, step.params[2])
        r = uncopy(v.apply_func(step, self_t, step.cls, [S, A], {}, None, None))
        s_in, a_in = (mk("elem", S), mk("elem", A)) if batched else (S, A)
        stepcall = mk("call", mk("attr", E, "step"), (s_in, a_in), ())
        s1, t1 = mk("proj", stepcall, 0), mk("proj", stepcall, 1)
        site = step.loc()
        if r.kind != "tuple" or len(r.args[0]) != 2:
            raise AnalysisError(f"{clsname}.step does not return a (state, timestep) pair: {txt(r)}")
        xs, xt = r.args[0]
        if batched:
            okb = xs.kind == "batched" and xt.kind == "batched"
            res.add(rule + ".R1", site, fn + ".step", tag + "per-element reset decision mapped over the batch", okb,
                    "both results are a map over the batch" if okb else f"state {xs.kind}, timestep {xt.kind}")
            xs, xt = unbatch(xs), unbatch(xt)
        if not (xs.kind == "choice" and xt.kind == "choice" and len(xs.args[2]) == 2 and len(xt.args[2]) == 2):
            # no selection at all: e.g. always reset / never reset
            res.add(rule + ".R1", site, fn + ".step", tag + "selection on timestep.last() between auto-reset and keep", False,
                    f"returned state {txt(xs, 3, 120)} / timestep {txt(xt, 3, 120)} is not a two-way selection")
            continue
        ps, pt = xs.args[1], xt.args[1]
        res.add(rule + ".R1", site, fn + ".step", tag + "selection predicate is the inner timestep's last()",
                ps is pt and is_last_pred(v, ps, t1), f"predicate {txt(ps, 5)}")
        As, Ks = xs.args[2]
        At, Kt = xt.args[2]
        res.add(rule + ".R1", site, fn + ".step", tag + "keep-branch returns the inner state unchanged", Ks is s1, f"{txt(Ks, 5)}")
        okk, wk = matches_maybe_add(flag, Kt, t1)
        res.add(rule + (".R1" if not flag else ".R3"), site, fn + ".step",
                tag + ("keep-branch returns the inner timestep unchanged" if not flag else "keep-branch returns the inner timestep with extras[next_obs] = its observation"),
                okk, f"{txt(Kt, 5)}{wk}")
        # ---------------- auto-reset branch
        ar = tree.find_method(ci, "_auto_reset")
        site2 = ar.loc() if ar is not None else site
        fn2 = fn + "._auto_reset"
        ok_state = False
        R = None
        idx = None
        if As.kind == "proj" and As.args[1] == 0 and As.args[0].kind == "call" and As.args[0].args[0] is mk("attr", E, "reset") \
                and len(As.args[0].args[1]) == 1 and not As.args[0].args[2]:
            R = As.args[0]
            ok_state = True
        res.add(rule + ".R2", site2, fn2, tag + "auto-reset returns the state produced by the inner reset", ok_state, f"{txt(As, 5)}")
        if R is not None:
            K = R.args[1][0]
            good = False
            why = f"key {txt(K, 6)}"
            if K.kind == "proj" and ext_name(K.args[0]) == "jax.random.split":
                sp = K.args[0]
                src = sp.args[1][0] if sp.args[1] else None
                if src is mk("attr", s1, "key"):
                    good = True
                    idx = K.args[1]
                else:
                    why += " -- split source is not the terminal state's key"
            elif K is mk("attr", s1, "key"):
                why += " -- the terminal state's key is reused unsplit"
            elif not contains(K, s1):
                why += " -- does not derive from the terminal state"
            res.add(rule + ".R2", site2, fn2, tag + "reset key is a projection of split(terminal state.key)", good, why)
            facts["split_index"] = idx
            exp_obs = mk("attr", mk("proj", R, 1), "observation")
            base_ok, wb = (False, "")
            if At.kind == "update" and At.args[1] == "observation":
                base_ok, wb = matches_maybe_add(flag, strip_cast(At.args[0]), t1)
            okt = At.kind == "update" and At.args[1] == "observation" and base_ok and At.args[2] is exp_obs
            why = f"{txt(At, 6, 300)}{wb}"
            if not okt:
                # diagnose the common wrong shapes
                fields = []
                x = At
                while x.kind in ("update", "copy"):
                    if x.kind == "update":
                        fields.append(x.args[1])
                    x = x.args[0]
                if flag and x is t1 and set(fields) == {"observation"}:
                    why += " -- next_obs is not added (or added after the replacement)"
                elif flag and "extras" in fields and fields.index("extras") < fields.index("observation") if ("extras" in fields and "observation" in fields) else False:
                    why += " -- next_obs is taken from the already modified timestep: it would be the reset observation"
                elif set(fields) - {"extras"} != {"observation"}:
                    why += f" -- replaced fields {sorted(set(fields))} != ['observation']"
            res.add(rule + ".R2", site2, fn2, tag + "timestep = replace(maybe_add(terminal timestep), observation=reset observation), nothing else replaced", okt, why)
            facts["replaced"] = ("observation",) if okt else None
        # ---------------- reset
        Kp = mk("param", reset.qual, reset.params[1])
        rr = uncopy(v.apply_func(reset, self_t, reset.cls, [Kp], {}, None, None))
        k_in = mk("elem", Kp) if batched else Kp
        rc = mk("call", mk("attr", E, "reset"), (k_in,), ())
        e_s, e_t = mk("proj", rc, 0), mk("proj", rc, 1)
        if batched:
            e_s, e_t = mk("batched", e_s), mk("batched", e_t)
        okr, wr = False, ""
        if rr.kind == "tuple" and len(rr.args[0]) == 2 and rr.args[0][0] is e_s:
            okr, wr = matches_maybe_add(flag, rr.args[0][1], e_t)
        res.add(rule + ".R4", reset.loc(), fn + ".reset", tag + "reset returns (inner state, maybe_add(inner timestep))", okr, f"{txt(rr, 6, 300)}{wr}")
        for q, f_ in v.visited_funcs.items():
            vfg.visited_funcs.setdefault(q, f_)
    facts["add_fn"] = addf.qual if addf is not None else None
    return facts


def add_obs_obligation(res: Result, rule: str, vfg: VFG, tree: Tree):
    addf = tree.functions.get(W + "add_obs_to_extras")
    key = vfg.resolve_qual(W + "NEXT_OBS_KEY_IN_EXTRAS")
    if key.kind != "const":
        raise AnalysisError("anchor NEXT_OBS_KEY_IN_EXTRAS not found")
    if addf is None:
        return   # the helper was inlined: its effect is decided at every use (R1/R2/R4 with next_obs_in_extras=True)
    ts = mk("param", addf.qual, addf.params[0])
    out = uncopy(vfg.apply_func(addf, None, None, [ts], {}, None, None))
    ok, why = is_add_obs(out, ts, key)
    res.add(rule + ".R3", addf.loc(), "wrappers.add_obs_to_extras",
            "stores timestep.observation under NEXT_OBS_KEY_IN_EXTRAS and changes only extras", ok, txt(out, 6, 300) + why)


def check(tier: str) -> Result:
    tree = get_tree()
    res = Result(explanation=EXPLANATION)
    vfg = VFG(tree, Model(tree))
    autoreset_obligations(res, "C13", vfg, tree, "AutoResetWrapper", batched=False)
    add_obs_obligation(res, "C13", vfg, tree)
    from . import shape_rules
    n_shapes = shape_rules.state_shape_obligations(res, tree, "C13.R6")
    from .common import borrow
    n_keys = borrow(res, "c10", {"C10.R1a": "C13.R5"})
    # ---- R7: the same obligations on the batched sibling (the property is quantified over jit / vmap / scan use)
    n_sib = borrow(res, "c14", {"C14.R2": "C13.R7"})
    # ---- R3 (default): without an explicit flag the wrapper adds nothing to the timestep: next_obs_in_extras defaults to False
    import ast as _ast
    for cname in ("AutoResetWrapper", "VmapAutoResetWrapper"):
        wci = tree.classes.get(W + cname)
        winit = wci.methods.get("__init__") if wci is not None else None
        if winit is None:
            continue
        a_ = winit.node.args
        names_ = [x.arg for x in a_.args]
        dflt_ = dict(zip(names_[len(names_) - len(a_.defaults):], a_.defaults))
        flagp = [n_ for n_ in names_[2:]] or []
        fl = flagp[0] if flagp else None
        d_ = dflt_.get(fl)
        okd = isinstance(d_, _ast.Constant) and d_.value is False
        res.add("C13.R3", winit.loc(), f"wrappers.{cname}.__init__", "the next-observation flag defaults to False (a plain wrapper returns the inner timesteps unchanged)", okd if d_ is not None else None,
                f"default of `{fl}` is {_ast.unparse(d_) if d_ is not None else None}")
    n_base = base_wrapper_obligations(res, "C13.R8", tree)
    res.analysed = {"generator_key_obligations": n_keys, "classes": ["jumanji.wrappers.AutoResetWrapper"], "functions": sorted(vfg.visited_funcs), "state_leaf_shapes_compared": n_shapes}
    res.assumptions = ["the wrapped environment is abstract (any Environment); lax.cond selects one branch result",
                       "jax.random.split yields keys distinct from its input"]
    if len(res.obligations) < 10:
        raise AnalysisError(f"only {len(res.obligations)} obligations instantiated (expected >= 10)")
    return res
