"""C13 -- AutoResetWrapper resets exactly when an episode ends, with a fresh instance.
The obligations are also instantiated on VmapAutoResetWrapper by c14.py."""
from __future__ import annotations

import ast
from typing import Dict, Optional, Tuple

from ..engine import VFG, get_tree
from ..loader import AnalysisError, Tree
from ..model import Model
from ..normal import ext_name, strip_cast
from ..report import Result
from ..terms import NONE, T, const, contains, mk, show, uncopy
from .common import step_types, txt, wrapper_env_attr

EXPLANATION = (
    "Decided on the value-flow graph of jumanji/wrappers.py (the wrapped environment is left abstract, so the result "
    "holds for every environment): (R1) step = inner step followed by a selection whose predicate is exactly the inner "
    "timestep's last(); the keep-branch returns the inner state unchanged and maybe_add(inner timestep); (R2) the "
    "auto-reset branch calls the inner reset with a key that is a projection of jax.random.split(terminal state's key) "
    "(not the key itself, not a constant), returns that reset's state, and returns replace(maybe_add(terminal "
    "timestep), observation = reset observation): the replaced-field set is exactly {observation}, so step_type, "
    "reward, discount and extras are the terminal step's, and maybe_add is applied before the observation is replaced "
    "so extras['next_obs'] is the true successor observation; (R3) add_obs_to_extras stores timestep.observation under "
    "NEXT_OBS_KEY_IN_EXTRAS and __init__ wires it to next_obs_in_extras=True and the identity to False; (R4) reset "
    "returns the inner reset's state unchanged and maybe_add of its timestep. (R6) precondition of the lax.cond between the auto-reset and the keep branch for every shipped environment: each State leaf with an inferable symbolic shape has the same shape after reset and after step. 'Successive resets use different keys' "
    "follows from R2 plus C10.R1 (State.key of every random generator derives from the reset key). "
    "Not decided: numerical agreement under jit/vmap/scan (XLA semantics).")

W = "jumanji.wrappers."


def is_last_pred(vfg: VFG, p: T, t1: T) -> bool:
    p = strip_cast(p)
    if p.kind == "call" and p.args[0].kind == "attr" and p.args[0].args[1] == "last" and p.args[0].args[0] is t1 \
            and not p.args[1] and not p.args[2]:
        return True
    LAST = step_types(vfg)["LAST"]
    if p.kind == "cmp" and p.args[0] == "==":
        a, b = p.args[1], p.args[2]
        st = mk("attr", t1, "step_type")
        return (a is st and b is LAST) or (b is st and a is LAST)
    return False


def unbatch(t: T) -> T:
    return t.args[0] if t.kind == "batched" else t


def autoreset_obligations(res: Result, rule: str, vfg: VFG, tree: Tree, clsname: str, batched: bool) -> Dict[str, object]:
    """Instantiates the C13 obligations on `clsname`; returns facts for sibling agreement."""
    ci = tree.classes.get(W + clsname)
    if ci is None:
        raise AnalysisError(f"anchor {W}{clsname} not found")
    self_t = mk("self", ci.qual)
    E = mk("attr", self_t, wrapper_env_attr(tree))
    init = tree.find_method(ci, "__init__")
    addf = tree.functions.get(W + "add_obs_to_extras")
    if init is None or addf is None:
        raise AnalysisError("anchor __init__/add_obs_to_extras not found")
    # the attribute holding the maybe-add function, by role: the one __init__ fills differently for the two flag values
    per_flag = {}
    for flag in (True, False):
        v2 = VFG(tree, Model(tree))
        v2.apply_func(init, self_t, ci, [mk("param", init.qual, "env"), const(flag)], {}, None, None)
        per_flag[flag] = {}
        for e in v2.events:
            if e.kind == "store_attr" and e.target is self_t:
                per_flag[flag].setdefault(e.name, []).append(e)
    m_names = [n for n in per_flag[True] if n in per_flag[False] and per_flag[True][n][-1].value is not per_flag[False][n][-1].value
               and not (per_flag[True][n][-1].value.kind == "const" and per_flag[False][n][-1].value.kind == "const")]
    if len(m_names) != 1:
        raise AnalysisError(f"{clsname}.__init__: expected exactly one attribute that depends on next_obs_in_extras, got {m_names}")
    M_NAME = m_names[0]
    M = mk("attr", self_t, M_NAME)
    step = tree.find_method(ci, "step")
    reset = tree.find_method(ci, "reset")
    if step is None or reset is None or step.cls is not ci:
        raise AnalysisError(f"{clsname}.step/reset not found")
    fn = f"wrappers.{clsname}"
    facts: Dict[str, object] = {}
    # ---------------- step
    S, A = mk("param", step.qual, step.params[1]), mk("param", step.qual, step.params[2])
    r = uncopy(vfg.apply_func(step, self_t, ci, [S, A], {}, None, None))
    s_in, a_in = (mk("elem", S), mk("elem", A)) if batched else (S, A)
    stepcall = mk("call", mk("attr", E, "step"), (s_in, a_in), ())
    s1, t1 = mk("proj", stepcall, 0), mk("proj", stepcall, 1)
    site = step.loc()
    if r.kind != "tuple" or len(r.args[0]) != 2:
        raise AnalysisError(f"{clsname}.step does not return a (state, timestep) pair: {txt(r)}")
    xs, xt = r.args[0]
    if batched:
        okb = xs.kind == "batched" and xt.kind == "batched"
        res.add(rule + ".R1", site, fn + ".step", "per-element reset decision mapped over the batch", okb,
                "both results are a map over the batch" if okb else f"state {xs.kind}, timestep {xt.kind}")
        xs, xt = unbatch(xs), unbatch(xt)
    if not (xs.kind == "choice" and xt.kind == "choice" and len(xs.args[2]) == 2 and len(xt.args[2]) == 2):
        # no selection at all: e.g. always reset / never reset
        res.add(rule + ".R1", site, fn + ".step", "selection on timestep.last() between auto-reset and keep", False,
                f"returned state {txt(xs, 3, 120)} / timestep {txt(xt, 3, 120)} is not a two-way selection")
        return facts
    ps, pt = xs.args[1], xt.args[1]
    res.add(rule + ".R1", site, fn + ".step", "selection predicate is the inner timestep's last()",
            ps is pt and is_last_pred(vfg, ps, t1), f"predicate {txt(ps, 5)}")
    As, Ks = xs.args[2]
    At, Kt = xt.args[2]
    res.add(rule + ".R1", site, fn + ".step", "keep-branch returns the inner state unchanged", Ks is s1, f"{txt(Ks, 5)}")
    keepts = mk("call", M, (t1,), ())
    res.add(rule + ".R1", site, fn + ".step", "keep-branch returns maybe_add(inner timestep)", Kt is keepts, f"{txt(Kt, 5)}")
    # ---------------- auto-reset branch
    ar = tree.find_method(ci, "_auto_reset")
    site2 = ar.loc() if ar is not None else site
    fn2 = fn + "._auto_reset"
    ok_state = False
    R = None
    idx = None
    if As.kind == "proj" and As.args[1] == 0 and As.args[0].kind == "call" and As.args[0].args[0] is mk("attr", E, "reset") \
            and len(As.args[0].args[1]) == 1 and not As.args[0].args[2]:
        R = As.args[0]
        ok_state = True
    res.add(rule + ".R2", site2, fn2, "auto-reset returns the state produced by the inner reset", ok_state, f"{txt(As, 5)}")
    if R is not None:
        K = R.args[1][0]
        good = False
        why = f"key {txt(K, 6)}"
        if K.kind == "proj" and ext_name(K.args[0]) == "jax.random.split":
            sp = K.args[0]
            src = sp.args[1][0] if sp.args[1] else None
            if src is mk("attr", s1, "key"):
                good = True
                idx = K.args[1]
            else:
                why += " -- split source is not the terminal state's key"
        elif K is mk("attr", s1, "key"):
            why += " -- the terminal state's key is reused unsplit"
        elif not contains(K, s1):
            why += " -- does not derive from the terminal state"
        res.add(rule + ".R2", site2, fn2, "reset key is a projection of split(terminal state.key)", good, why)
        facts["split_index"] = idx
        exp_obs = mk("attr", mk("proj", R, 1), "observation")
        okt = At.kind == "update" and At.args[1] == "observation" and strip_cast(At.args[0]) is keepts and At.args[2] is exp_obs
        why = f"{txt(At, 6, 300)}"
        if not okt:
            # diagnose the common wrong shapes
            fields = []
            x = At
            while x.kind in ("update", "copy"):
                if x.kind == "update":
                    fields.append(x.args[1])
                x = x.args[0]
            if x is t1 and "observation" in fields:
                why += " -- maybe_add is not applied (or applied after the replacement)"
            elif x.kind == "call" and x.args[0] is M and x.args[1] and x.args[1][0] is not t1:
                why += " -- maybe_add receives the already modified timestep: next_obs would be the reset observation"
            elif set(fields) != {"observation"}:
                why += f" -- replaced fields {sorted(set(fields))} != ['observation']"
        res.add(rule + ".R2", site2, fn2, "timestep = replace(maybe_add(terminal timestep), observation=reset observation), nothing else replaced", okt, why)
        facts["replaced"] = ("observation",) if okt else None
    # ---------------- reset
    Kp = mk("param", reset.qual, reset.params[1])
    rr = uncopy(vfg.apply_func(reset, self_t, ci, [Kp], {}, None, None))
    k_in = mk("elem", Kp) if batched else Kp
    rc = mk("call", mk("attr", E, "reset"), (k_in,), ())
    e_s, e_t = mk("proj", rc, 0), mk("proj", rc, 1)
    if batched:
        e_s, e_t = mk("batched", e_s), mk("batched", e_t)
    exp = mk("tuple", (e_s, mk("call", M, (e_t,), ())))
    res.add(rule + ".R4", reset.loc(), fn + ".reset", "reset returns (inner state, maybe_add(inner timestep))", rr is exp, f"{txt(rr, 6, 300)}")
    # ---------------- __init__ wiring of maybe_add
    for flag in (True, False):
        v2 = VFG(tree, Model(tree))
        stores = per_flag[flag][M_NAME]
        if len(stores) != 1:
            raise AnalysisError(f"{clsname}.__init__: expected one assignment of {M_NAME} for next_obs_in_extras={flag}, got {len(stores)}")
        f = stores[0].value
        ts = mk("param", "probe", "timestep")
        out = uncopy(v2.apply(f, [ts], {}, None, None))
        if flag:
            ok = f.kind == "fn" and f.meta.get("func") is addf
            why = "add_obs_to_extras" if ok else f"wired to {txt(f)}"
        else:
            ok = out is ts
            why = "identity" if ok else f"returns {txt(out, 5)}"
        res.add(rule + ".R3", stores[0].loc(), fn + ".__init__", f"next_obs_in_extras={flag} wires maybe_add to {'add_obs_to_extras' if flag else 'the identity'}", ok, why)
    facts["add_fn"] = addf.qual
    return facts


def add_obs_obligation(res: Result, rule: str, vfg: VFG, tree: Tree):
    addf = tree.functions.get(W + "add_obs_to_extras")
    key = vfg.resolve_qual(W + "NEXT_OBS_KEY_IN_EXTRAS")
    if addf is None or key.kind != "const":
        raise AnalysisError("anchor add_obs_to_extras / NEXT_OBS_KEY_IN_EXTRAS not found")
    ts = mk("param", addf.qual, addf.params[0])
    out = uncopy(vfg.apply_func(addf, None, None, [ts], {}, None, None))
    ok = False
    why = txt(out, 6, 300)
    if out.kind == "update" and strip_cast(out.args[0]) is ts and out.args[1] == "extras":
        ex = out.args[2]
        if ext_name(ex) == "builtins.setitem":
            obj, k, v = ex.args[1]
            ok = obj is mk("attr", ts, "extras") and k is key and v is mk("attr", ts, "observation")
        elif ex.kind == "dict":
            d = dict(zip(ex.args[0], ex.args[1]))
            keeps = any(k.kind == "star" and k.args[0] is mk("attr", ts, "extras") for k in ex.args[0])
            ok = d.get(key) is mk("attr", ts, "observation") and keeps
            if not keeps:
                why += " -- the inner environment's extras are dropped"
    res.add(rule + ".R3", addf.loc(), "wrappers.add_obs_to_extras",
            "stores timestep.observation under NEXT_OBS_KEY_IN_EXTRAS and changes only extras", ok, why)


def check(tier: str) -> Result:
    tree = get_tree()
    res = Result(explanation=EXPLANATION)
    vfg = VFG(tree, Model(tree))
    autoreset_obligations(res, "C13", vfg, tree, "AutoResetWrapper", batched=False)
    add_obs_obligation(res, "C13", vfg, tree)
    from . import shape_rules
    n_shapes = shape_rules.state_shape_obligations(res, tree, "C13.R6")
    res.analysed = {"classes": ["jumanji.wrappers.AutoResetWrapper"], "functions": sorted(vfg.visited_funcs), "state_leaf_shapes_compared": n_shapes}
    res.assumptions = ["the wrapped environment is abstract (any Environment); lax.cond selects one branch result",
                       "jax.random.split yields keys distinct from its input"]
    if len(res.obligations) < 10:
        raise AnalysisError(f"only {len(res.obligations)} obligations instantiated (expected >= 10)")
    return res
