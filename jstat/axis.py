"""Axis-kind inference over value-flow terms (DESIGN.md 2.5).

Every term may receive the axis 0 (first spatial axis: rows) or 1 (second: columns), either as
an index along that axis or as the extent of that axis -- a bounds test, a modulus, a flatten /
unflatten or a spec bound relates an index with the extent of the SAME axis, so only the axis
number matters.  A term may also be a 2-vector VEC = (axis-0 component, axis-1 component).

Facts come from the code: positions inside 2-D subscripts, shape tuples, `.shape` projections,
and the repository's naming convention for extents (num_rows/height -> 0, num_cols/width -> 1).
Facts propagate through +/- offsets, selections, casts, clip, mapped views.  Unknown or
ambiguous (both axes) = silent.  Reports are produced only by the check sites in
rules/axis_rules.py when BOTH sides have one definite axis and they differ."""
from __future__ import annotations

from typing import Dict, Iterable, List, Optional, Set, Tuple

from .normal import CAST_FUNCS, ext_name, linear, strip_cast
from .terms import T, children

NAME_AXIS = {"num_rows": 0, "n_rows": 0, "rows": 0, "height": 0, "maze_height": 0, "grid_height": 0, "nrows": 0,
             "num_cols": 1, "n_cols": 1, "cols": 1, "width": 1, "maze_width": 1, "grid_width": 1, "ncols": 1}
FIELD_AXIS = {"row": 0, "col": 1}
FILL_FUNCS = {"jax.numpy.zeros", "jax.numpy.ones", "jax.numpy.full", "jax.numpy.empty", "numpy.zeros", "numpy.ones",
              "numpy.full", "numpy.empty"}
PASS_THROUGH_CALLS = {"jax.numpy.clip", "jax.numpy.minimum", "jax.numpy.maximum", "jax.numpy.abs", "jax.numpy.mod",
                      "jax.numpy.remainder", "jax.numpy.squeeze"} | CAST_FUNCS
VEC = "VEC"


class Axes:
    def __init__(self, vfg, roots: Iterable[T], use_names: bool = True):
        self.vfg = vfg
        self.ax: Dict[int, Set[int]] = {}      # term id -> {0}, {1} or {0, 1}
        self.vec: Set[int] = set()             # ids of 2-vectors (axis0, axis1)
        self.terms: Dict[int, T] = {}
        self.why: Dict[Tuple[int, int], str] = {}
        self.why_all: Dict[Tuple[int, str, int], str] = {}
        self.use_names = use_names
        for r in roots:
            self._collect(r)
        self._seed()
        self._propagate()

    # ------------------------------------------------------------------ collection
    def _collect(self, root: T):
        stack = [root]
        while stack:
            n = stack.pop()
            if n.id in self.terms:
                continue
            self.terms[n.id] = n
            stack.extend(children(n))

    def core(self, t: T) -> T:
        """cast-stripped, offset-stripped core of an index / extent expression."""
        while True:
            t = strip_cast(t)
            b, k = linear(t)
            if b is not None and b is not t:
                t = b
                continue
            return t

    def add(self, t: T, axis: int, why: str, role: str = "idx") -> bool:
        t = self.core(t)
        if t.kind in ("const",):
            return False
        self.terms.setdefault(t.id, t)
        s = self.ax.setdefault(t.id, set())
        if (role, axis) in s:
            return False
        s.add((role, axis))
        self.why.setdefault((t.id, axis), why)
        self.why_all.setdefault((t.id, role, axis), why)
        return True

    def ext(self, t: T, axis: int, why: str) -> bool:
        return self.add(t, axis, why, role="ext")

    def add_vec(self, t: T, why: str) -> bool:
        t = self.core(t)
        if t.kind == "const" or t.id in self.vec:
            return False
        self.terms.setdefault(t.id, t)
        self.vec.add(t.id)
        self.why.setdefault((t.id, -1), why)
        return True

    def kind(self, t: T) -> Optional[Tuple[str, int]]:
        """('idx'|'ext', axis) when the term has exactly one definite kind."""
        s = self.ax.get(self.core(t).id)
        if s is not None and len(s) == 1:
            return next(iter(s))
        return None

    def axis(self, t: T, role: Optional[str] = None) -> Optional[int]:
        k = self.kind(t)
        if k is None or (role is not None and k[0] != role):
            return None
        return k[1]

    def reason(self, t: T) -> str:
        c = self.core(t)
        a = self.axis(t)
        return self.why.get((c.id, a), "?") if a is not None else "unknown"

    # ------------------------------------------------------------------ seeds
    @staticmethod
    def spatial_positions(items: Tuple[T, ...]) -> Optional[Tuple[int, int]]:
        n = len(items)
        def is_c(x):
            return x.kind == "const" or (x.kind == "ext" and x.args[0].endswith("Ellipsis")) or x.kind == "slice"
        if n == 2 and not is_c(items[0]) and not is_c(items[1]):
            return (0, 1)
        if n == 3:
            non = [i for i, x in enumerate(items) if not is_c(x)]
            if len(non) == 2 and non[1] == non[0] + 1:
                return (non[0], non[1])
        return None

    def _seed(self):
        self._shape_indices: Dict[int, Set[int]] = {}
        for t in self.terms.values():
            if t.kind == "index" and t.args[0].kind == "attr" and t.args[0].args[1] == "shape" and t.args[1].kind == "const" \
                    and isinstance(t.args[1].args[0], int):
                self._shape_indices.setdefault(t.args[0].id, set()).add(t.args[1].args[0])
            elif t.kind == "proj" and t.args[0].kind == "attr" and t.args[0].args[1] == "shape" and isinstance(t.args[1], int):
                self._shape_indices.setdefault(t.args[0].id, set()).add(t.args[1])
        for t in list(self.terms.values()):
            k = t.kind
            if k == "index":
                base, idx = t.args
                if base.kind == "attr" and base.args[1] == "shape":
                    # x.shape[i]
                    if idx.kind == "const" and isinstance(idx.args[0], int):
                        i = idx.args[0]
                        if i in (-1, -2):
                            self.ext(t, 2 + i, "x.shape[%d]" % i)
                        elif i in (0, 1) and self._is_2d(base.args[0]):
                            self.ext(t, i, "x.shape[%d] of a 2-D array" % i)
                    continue
                if idx.kind == "tuple":
                    pos = self.spatial_positions(idx.args[0])
                    if pos is not None:
                        self.add(idx.args[0][pos[0]], 0, "first spatial subscript of " + self._name(base))
                        self.add(idx.args[0][pos[1]], 1, "second spatial subscript of " + self._name(base))
                elif ext_name(idx) == "builtins.tuple" and idx.args[1]:
                    self.add_vec(idx.args[1][0], "used as a whole multi-index of " + self._name(base))
                elif base.kind == "index" and base.args[1].kind not in ("tuple", "slice", "const") and idx.kind not in ("tuple", "slice", "const"):
                    # G[a][b]
                    g = base.args[0]
                    if not (g.kind == "attr" and g.args[1] in ("shape", "at")):
                        self.add(base.args[1], 0, "first subscript of " + self._name(g) + "[a][b]")
                        self.add(idx, 1, "second subscript of " + self._name(g) + "[a][b]")
            elif k == "proj":
                v, i = t.args
                if v.kind == "attr" and v.args[1] == "shape":
                    n = self.vfg.shape_unpack.get(v.id)
                    if n == 2 and i in (0, 1):
                        self.ext(t, i, "a, b = x.shape")
                    elif n == 3 and i in (1, 2):
                        self.ext(t, i - 1, "_, a, b = x.shape")
                    elif i in (-1, -2):
                        self.ext(t, 2 + i, "x.shape[%d]" % i)
            elif k == "attr" and self.use_names:
                from .shapes import canon
                nm = t.args[1].lstrip("_")
                if nm not in NAME_AXIS and nm not in FIELD_AXIS:
                    nm = canon(self.vfg, nm)   # a private storage name of a conventionally named extent
                if nm in NAME_AXIS:
                    self.ext(t, NAME_AXIS[nm], f"attribute name '{t.args[1]}'")
                elif nm in FIELD_AXIS:
                    self.add(t, FIELD_AXIS[nm], f"field name '{t.args[1]}'")
            elif k == "call":
                n = ext_name(t)
                args, kw = t.args[1], dict(t.args[2])
                shp = None
                if n in FILL_FUNCS:
                    shp = kw.get("shape", args[0] if args else None)
                if shp is not None:
                    self._shape_tuple(shp, n.split(".")[-1] + "(shape)")
                if n in ("jax.numpy.unravel_index", "numpy.unravel_index") and len(args) >= 2:
                    self._shape_tuple(args[1], "unravel_index shape")
                    self.add_vec(t, "result of unravel_index")
                if n in ("jax.numpy.reshape",) and len(args) >= 2:
                    pass
            elif k == "new":
                cq = t.args[0]
                if cq.startswith("jumanji.specs.") and cq.split(".")[-1] in ("Array", "BoundedArray"):
                    args, kw = t.args[1], dict(t.args[2])
                    shp = kw.get("shape", args[0] if args else None)
                    if shp is not None:
                        self._shape_tuple(shp, "spec shape")
            elif k == "construct":
                ci = self.vfg.tree.classes.get(t.args[0])
                if ci is not None and self.use_names:
                    for fn_, v in t.args[1]:
                        if fn_ in FIELD_AXIS:
                            self.add(v, FIELD_AXIS[fn_], f"stored in field '{fn_}' of {ci.name}")
        # parameter-name facts are applied after a first propagation (see bind_conflicts)

    def _shape_tuple(self, shp: T, why: str):
        shp = strip_cast(shp)
        if shp.kind not in ("tuple", "list"):
            return
        items = [x for x in shp.args[0] if self.core(x).kind != "const"]
        if len(items) == 2 and len(shp.args[0]) <= 3:
            # the two non-constant extents, in order
            idx = [i for i, x in enumerate(shp.args[0]) if self.core(x).kind != "const"]
            if idx[1] == idx[0] + 1:
                self.ext(items[0], 0, "first extent in " + why)
                self.ext(items[1], 1, "second extent in " + why)

    def _is_2d(self, g: T) -> bool:
        """g is known to be 2-D: its .shape was unpacked into two names, or the code itself uses .shape[-1] and
        .shape[-2] of it and never a third axis."""
        if g is None:
            return False
        sh = self.vfg.mk_attr(g, "shape")
        if self.vfg.shape_unpack.get(sh.id) == 2:
            return True
        used = self._shape_indices.get(sh.id)
        return bool(used) and {-1, -2} <= used and not (used - {-1, -2, 0, 1})

    def _name(self, g: T) -> str:
        from .terms import show
        return show(g, 2)[:40]

    # ------------------------------------------------------------------ propagation
    def _propagate(self):
        terms = list(self.terms.values())
        changed = True
        rounds = 0
        while changed and rounds < 12:
            changed = False
            rounds += 1
            for t in terms:
                changed |= self._step(t)
            terms = list(self.terms.values())

    def _flow(self, a: T, b: T, why: str) -> bool:
        """a and b lie on the same axis (or are both vectors)."""
        ch = False
        ca, cb = self.core(a), self.core(b)
        for x, y in ((ca, cb), (cb, ca)):
            for role, axis in list(self.ax.get(x.id, ())):
                if len(self.ax.get(x.id, ())) == 1:
                    ch |= self.add(y, axis, why + " <- " + self.why.get((x.id, axis), ""), role)
            if x.id in self.vec:
                ch |= self.add_vec(y, why)
        return ch

    def _step(self, t: T) -> bool:
        k = t.kind
        ch = False
        if k == "bin" and t.args[0] in ("+", "-"):
            a, b = t.args[1], t.args[2]
            if self.core(a).kind != "const" and self.core(b).kind != "const":
                # position +/- displacement: the result lives on the axis of the position operand
                ch |= self._flow(t, a, "sum")
                if t.args[0] == "+":
                    ch |= self._flow(t, b, "sum")
        elif k == "bin" and t.args[0] == "%":
            ch |= self._flow(t, t.args[1], "modulus operand")
        elif k == "choice":
            for a in t.args[2]:
                ch |= self._flow(t, a, "selection")
        elif k == "phi":
            for a in t.args[0]:
                ch |= self._flow(t, a, "join")
        elif k in ("elem", "batched", "loopin", "leaf", "copy"):
            ch |= self._flow(t, t.args[0], k)
        elif k == "loop":
            ch |= self._flow(t, t.args[0], "loop")
            ch |= self._flow(t, t.args[1], "loop")
        elif k == "call":
            n = ext_name(t)
            if n in PASS_THROUGH_CALLS and t.args[1]:
                ch |= self._flow(t, t.args[1][0], n.split(".")[-1])
            elif n in ("jax.numpy.array", "jax.numpy.stack", "jax.numpy.asarray", "jax.numpy.hstack") and t.args[1] and t.args[1][0].kind in ("list", "tuple") \
                    and len(t.args[1][0].args[0]) == 2:
                a, b = t.args[1][0].args[0]
                # vector literal [a, b]
                if t.id in self.vec or self.core(t).id in self.vec:
                    ch |= self.add(a, 0, "component 0 of a position vector")
                    ch |= self.add(b, 1, "component 1 of a position vector")
                if self.axis(a, "idx") == 0 and self.axis(b, "idx") == 1:
                    ch |= self.add_vec(t, "array([axis0, axis1])")
            elif n in ("jax.numpy.divmod", "builtins.divmod") and len(t.args[1]) == 2:
                pass
        elif k == "tuple" and len(t.args[0]) == 2:
            a, b = t.args[0]
            if t.id in self.vec:
                ch |= self.add(a, 0, "component 0 of a position pair")
                ch |= self.add(b, 1, "component 1 of a position pair")
        elif k == "proj":
            v, i = t.args
            cv = self.core(v)
            if cv.id in self.vec and i in (0, 1, -1, -2):
                ch |= self.add(t, i if i >= 0 else 2 + i, "component of a position vector")
            if ext_name(strip_cast(v)) in ("jax.numpy.divmod", "builtins.divmod") and i in (0, 1):
                ch |= self.add(t, i, "divmod(flat, num_cols) -> (row, col)")
        elif k == "index":
            base, idx = t.args
            cb = self.core(base)
            if cb.id in self.vec and idx.kind == "const" and idx.args[0] in (0, 1, -1, -2):
                i = idx.args[0]
                ch |= self.add(t, i if i >= 0 else 2 + i, "component of a position vector")
        # components typed 0 and 1 => the container is a vector
        if k == "proj" or k == "index":
            pass
        return ch

    def note_vectors_from_components(self):
        """v#0 on axis 0 and v#1 on axis 1 => v is a position vector (then other uses are typed)."""
        by_base: Dict[int, Dict[int, T]] = {}
        for t in self.terms.values():
            if t.kind == "proj" and t.args[1] in (0, 1):
                by_base.setdefault(self.core(t.args[0]).id, {})[t.args[1]] = t
            elif t.kind == "index" and t.args[1].kind == "const" and t.args[1].args[0] in (0, 1):
                by_base.setdefault(self.core(t.args[0]).id, {})[t.args[1].args[0]] = t
        ch = False
        for bid, comps in by_base.items():
            if len(comps) == 2 and self.axis(comps[0], "idx") == 0 and self.axis(comps[1], "idx") == 1:
                ch |= self.add_vec(self.terms[bid], "components used on axis 0 and axis 1")
        if ch:
            self._propagate()
        return ch

    def bind_conflicts(self):
        """Arguments whose extent axis (known from the code) contradicts the axis implied by the name of
        the parameter they are bound to; afterwards the parameter-name facts are added as seeds."""
        out = []
        if not self.use_names:
            return out
        for f, pn, pv, caller, node in self.vfg.bindings:
            nm = pn.lstrip("_")
            want = NAME_AXIS.get(nm)
            if want is None:
                continue
            if self.core(pv).id not in self.terms:
                continue
            have = self.axis(pv, "ext")
            if have is not None:
                out.append((f, pn, pv, caller, node, have, want))
        for f, pn, pv, caller, node in self.vfg.bindings:
            nm = pn.lstrip("_")
            if self.core(pv).id not in self.terms:
                continue
            if nm in NAME_AXIS and self.kind(pv) is None:
                self.ext(pv, NAME_AXIS[nm], f"bound to parameter '{pn}' of {f.name}")
            elif nm in FIELD_AXIS and self.kind(pv) is None:
                self.add(pv, FIELD_AXIS[nm], f"bound to parameter '{pn}' of {f.name}")
        self._propagate()
        return out

    def contradictions(self):
        """Terms that are the extent of axis 0 by one fact and of axis 1 by another, one of the facts
        being the naming convention (attribute / parameter name) and the other structural."""
        out = []
        for tid, kinds in self.ax.items():
            if ("ext", 0) in kinds and ("ext", 1) in kinds:
                w0, w1 = self.why_all.get((tid, "ext", 0), ""), self.why_all.get((tid, "ext", 1), "")
                named = [("name" in w or "parameter" in w) and "<-" not in w for w in (w0, w1)]
                if named[0] != named[1]:
                    out.append((self.terms[tid], w0, w1))
        return out
