"""Analysis driver: builds the value-flow graph of an environment's reset/step closure."""
from __future__ import annotations

import time
from dataclasses import dataclass, field
from typing import Dict, List, Optional

from . import terms as tm
from .loader import AnalysisError, ClassInfo, FuncInfo, Tree
from .model import Model
from .terms import T, mk
from .vfg import Evaluator
from .vfg_calls import CallMixin
from .vfg_stmts import StmtMixin


class VFG(Evaluator, StmtMixin, CallMixin):
    pass


@dataclass
class EnvAnalysis:
    cls: ClassInfo
    state_cls: Optional[ClassInfo]
    obs_cls: Optional[ClassInfo]
    self_t: T
    key: T
    state: T
    action: T
    reset_result: T
    step_result: T
    reset_state: T
    reset_ts: T
    step_state: T
    step_ts: T
    vfg: VFG
    reset_funcs: Dict[str, FuncInfo] = field(default_factory=dict)
    step_funcs: Dict[str, FuncInfo] = field(default_factory=dict)


_TREE: Optional[Tree] = None


def get_tree() -> Tree:
    global _TREE
    if _TREE is None:
        _TREE = Tree()
    return _TREE


_ENV_CACHE: Dict[str, EnvAnalysis] = {}


def analyse_env(tree: Tree, ci: ClassInfo) -> EnvAnalysis:
    if ci.qual in _ENV_CACHE:
        return _ENV_CACHE[ci.qual]
    vfg = VFG(tree, Model(tree))
    self_t = mk("self", ci.qual)
    reset = tree.find_method(ci, "reset")
    step = tree.find_method(ci, "step")
    if reset is None or step is None:
        raise AnalysisError(f"{ci.qual}: reset/step not found")
    s_cls, o_cls = tree.env_type_args(ci)
    key = mk("param", reset.qual, reset.params[1])
    r = vfg.apply_func(reset, self_t, reset.cls, [key], {}, None, None)
    reset_funcs = dict(vfg.visited_funcs)
    vfg.visited_funcs = {}
    state = mk("param", step.qual, step.params[1])
    action = mk("param", step.qual, step.params[2])
    if s_cls is not None:
        vfg.set_type(state, s_cls)
    s = vfg.apply_func(step, self_t, step.cls, [state, action], {}, None, None)
    step_funcs = dict(vfg.visited_funcs)
    ea = EnvAnalysis(ci, s_cls, o_cls, self_t, key, state, action, r, s,
                     vfg.mk_proj(r, 0, 2), vfg.mk_proj(r, 1, 2), vfg.mk_proj(s, 0, 2), vfg.mk_proj(s, 1, 2),
                     vfg, reset_funcs, step_funcs)
    _ENV_CACHE[ci.qual] = ea
    return ea
