"""Analysis driver: builds the value-flow graph of an environment's reset/step closure."""
from __future__ import annotations

import time
from dataclasses import dataclass, field
from typing import Dict, List, Optional

from . import terms as tm
from .loader import AnalysisError, ClassInfo, FuncInfo, Tree
from .model import Model
from .terms import T, mk
from .vfg import Evaluator
from .vfg_calls import CallMixin
from .vfg_stmts import StmtMixin


class VFG(Evaluator, StmtMixin, CallMixin):
    pass


@dataclass
class EnvAnalysis:
    cls: ClassInfo
    state_cls: Optional[ClassInfo]
    obs_cls: Optional[ClassInfo]
    self_t: T
    key: T
    state: T
    action: T
    reset_result: T
    step_result: T
    reset_state: T
    reset_ts: T
    step_state: T
    step_ts: T
    vfg: VFG
    reset_funcs: Dict[str, FuncInfo] = field(default_factory=dict)
    step_funcs: Dict[str, FuncInfo] = field(default_factory=dict)


def split_selection(vfg: VFG, ts: T) -> T:
    """A TimeStep built field by field with the SAME predicate selecting each field,
    TimeStep(step_type=where(p, LAST, MID), discount=where(p, 0, 1), reward=r, ...), is the selection
    where(p, TimeStep(LAST, 0, r, ...), TimeStep(MID, 1, r, ...)) -- the form the termination / transition
    constructors under lax.cond give.  Fields not selected on p are shared by both alternatives."""
    if ts.kind in ("choice", "phi"):
        alts = ts.args[2] if ts.kind == "choice" else ts.args[0]
        new = tuple(split_selection(vfg, a) for a in alts)
        if all(x is y for x, y in zip(new, alts)):
            return ts
        return mk("choice", ts.args[0], ts.args[1], new) if ts.kind == "choice" else vfg.mk_phi(list(new))
    if ts.kind != "construct" or not ts.args[0].endswith("types.TimeStep"):
        return ts
    fields = dict(ts.args[1])
    st = fields.get("step_type")
    while st is not None and st.kind == "copy":
        st = st.args[0]
    if st is None or st.kind != "choice" or len(st.args[2]) != 2 or st.args[0] not in ("where", "select", "ifexp", "cond"):
        return ts
    how, pred = st.args[0], st.args[1]

    def pick(v: T, i: int) -> T:
        w = v
        while w.kind == "copy":
            w = w.args[0]
        if w.kind == "choice" and w.args[1] is pred and len(w.args[2]) == 2:
            return w.args[2][i]
        return v
    alts = tuple(mk("construct", ts.args[0], tuple((n, pick(v, i)) for n, v in ts.args[1])) for i in (0, 1))
    return mk("choice", how, pred, alts)


_TREE: Optional[Tree] = None


def get_tree() -> Tree:
    global _TREE
    if _TREE is None:
        _TREE = Tree()
    return _TREE


_ENV_CACHE: Dict[str, EnvAnalysis] = {}


def analyse_env(tree: Tree, ci: ClassInfo) -> EnvAnalysis:
    if ci.qual in _ENV_CACHE:
        return _ENV_CACHE[ci.qual]
    vfg = VFG(tree, Model(tree))
    self_t = mk("self", ci.qual)
    reset = tree.find_method(ci, "reset")
    step = tree.find_method(ci, "step")
    if reset is None or step is None:
        raise AnalysisError(f"{ci.qual}: reset/step not found")
    s_cls, o_cls = tree.env_type_args(ci)
    key = mk("param", reset.qual, reset.params[1])
    r = vfg.apply_func(reset, self_t, reset.cls, [key], {}, None, None)
    reset_funcs = dict(vfg.visited_funcs)
    vfg.visited_funcs = {}
    state = mk("param", step.qual, step.params[1])
    action = mk("param", step.qual, step.params[2])
    if s_cls is not None:
        vfg.set_type(state, s_cls)
    s = vfg.apply_func(step, self_t, step.cls, [state, action], {}, None, None)
    step_funcs = dict(vfg.visited_funcs)
    ea = EnvAnalysis(ci, s_cls, o_cls, self_t, key, state, action, r, s,
                     vfg.mk_proj(r, 0, 2), vfg.mk_proj(r, 1, 2), vfg.mk_proj(s, 0, 2), split_selection(vfg, vfg.mk_proj(s, 1, 2)),
                     vfg, reset_funcs, step_funcs)
    _ENV_CACHE[ci.qual] = ea
    return ea
