"""python -m jstat <ID> [quick|thorough] | <ID> --replay <path>"""
import importlib
import os
import sys

from .report import run


def main(argv):
    if not argv:
        print("usage: python -m jstat <ID> [quick|thorough] [--replay path]")
        return 2
    pid = argv[0].upper()
    tier = os.environ.get("VERIF_TIER", "quick")
    replay = None
    rest = argv[1:]
    i = 0
    while i < len(rest):
        if rest[i] == "--replay":
            replay = rest[i + 1]
            i += 2
        else:
            tier = rest[i]
            i += 1
    if tier not in ("quick", "thorough"):
        tier = "quick"
    try:
        mod = importlib.import_module(f"jstat.rules.{pid.lower()}")
    except ModuleNotFoundError:
        print(f"ANALYSIS-ERROR property={pid} no rule module")
        return 2
    return run(pid, tier, mod.check, replay)


if __name__ == "__main__":
    sys.exit(main(sys.argv[1:]))
