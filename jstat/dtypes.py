"""Dtype-category inference on value-flow terms: 'bool' | 'int' | 'float' | None (unknown).
Only facts that follow from literals, explicit dtype arguments and JAX's promotion rules are used;
anything else is unknown (and unknown never produces a report)."""
from __future__ import annotations

from typing import Dict, Optional

from .normal import ext_name
from .terms import T

BOOL_FUNCS = {"any", "all", "array_equal", "isin", "logical_and", "logical_or", "logical_not", "logical_xor", "isnan", "isfinite",
              "greater", "less", "equal", "not_equal", "greater_equal", "less_equal", "allclose", "isclose"}
FLOAT_FUNCS = {"mean", "sqrt", "exp", "log", "true_divide", "divide", "linalg.norm", "norm", "sin", "cos", "tanh", "std", "var"}
SAME_AS_FIRST = {"sum", "max", "min", "maximum", "minimum", "clip", "abs", "negative", "reshape", "squeeze", "transpose", "flip", "roll",
                 "rot90", "take", "expand_dims", "tile", "repeat", "stack", "concatenate", "cumsum", "prod", "diag", "tril", "triu", "sort",
                 "swapaxes", "ravel", "flatten", "broadcast_to", "where_first"}
INT_FUNCS = {"argmax", "argmin", "argsort", "arange", "nonzero", "count_nonzero", "floor_divide", "searchsorted"}


def cat_of_dtype(t: Optional[T]) -> Optional[str]:
    if t is None:
        return None
    if t.kind == "ext":
        n = t.args[0].split(".")[-1]
        if n in ("bool", "bool_"):
            return "bool"
        if n.startswith("uint") or n.startswith("int") or n == "integer":
            return "int"
        if n.startswith("float") or n in ("bfloat16", "double", "floating"):
            return "float"
    if t.kind == "const" and isinstance(t.args[0], str):
        return cat_of_dtype_name(t.args[0])
    return None


def cat_of_dtype_name(n: str) -> Optional[str]:
    if n.startswith("bool"):
        return "bool"
    if n.startswith("int") or n.startswith("uint"):
        return "int"
    if n.startswith("float"):
        return "float"
    return None


def promote(a: Optional[str], b: Optional[str]) -> Optional[str]:
    if a is None or b is None:
        return None
    order = {"bool": 0, "int": 1, "float": 2}
    return a if order[a] >= order[b] else b


def dtype_cat(t: T, memo: Optional[Dict[int, Optional[str]]] = None, depth: int = 0) -> Optional[str]:
    if memo is None:
        memo = {}
    if t.id in memo:
        return memo[t.id]
    memo[t.id] = None
    r = _dt(t, memo, depth)
    memo[t.id] = r
    return r


def _dt(t: T, memo, depth) -> Optional[str]:
    if depth > 60:
        return None
    k = t.kind
    d = depth + 1
    if k == "const":
        v = t.args[0]
        if isinstance(v, bool):
            return "bool"
        if isinstance(v, int):
            return "int"
        if isinstance(v, float):
            return "float"
        return None
    if k == "cmp":
        return "bool"
    if k == "bool":
        return None  # python and/or returns one of its operands
    if k == "un":
        if t.args[0] == "not":
            return "bool"
        return dtype_cat(t.args[1], memo, d)
    if k == "bin":
        op, a, b = t.args
        if op == "/":
            return "float"
        ca, cb = dtype_cat(a, memo, d), dtype_cat(b, memo, d)
        if op in ("&", "|", "^"):
            # jnp.logical_and/or are normalised to & / | by the builder and always yield bool: only the
            # unmixed case is certain
            return ca if ca == cb else None
        if op in ("+", "-", "*", "//", "%", "**"):
            p = promote(ca, cb)
            if p == "bool":
                return None  # bool arithmetic: avoid guessing
            return p
        return None
    if k == "choice":
        out = None
        first = True
        for a in t.args[2]:
            c = dtype_cat(a, memo, d)
            if c is None:
                return None
            out = c if first else promote(out, c)
            first = False
        return out
    if k in ("copy", "elem", "batched", "loopin", "leaf"):
        return dtype_cat(t.args[0], memo, d)
    if k == "loop":
        a, b = dtype_cat(t.args[0], memo, d), dtype_cat(t.args[1], memo, d)
        return a if a == b else None
    if k == "index":
        return dtype_cat(t.args[0], memo, d)
    if k == "call":
        n = ext_name(t)
        args, kw = t.args[1], dict(t.args[2])
        if n is None:
            # x.at[i].set(v) keeps the dtype of x
            f = t.args[0]
            if f.kind == "attr" and f.args[1] in ("set", "add", "multiply", "min", "max") and f.args[0].kind == "index" \
                    and f.args[0].args[0].kind == "attr" and f.args[0].args[0].args[1] == "at":
                return dtype_cat(f.args[0].args[0].args[0], memo, d)
            return None
        short = n.split(".")[-1]
        if not (n.startswith("jax.numpy.") or n.startswith("jax.lax.") or n.startswith("numpy.") or n.startswith("builtins.") or n.startswith("jax.nn.")):
            return None
        if n in ("builtins.float",):
            return "float"
        if n in ("builtins.int",):
            return "int"
        if n in ("builtins.bool",):
            return "bool"
        if short in ("array", "asarray"):
            dt = kw.get("dtype", args[1] if len(args) > 1 else None)
            if dt is not None:
                return cat_of_dtype(dt)
            return dtype_cat(args[0], memo, d) if args else None
        if short == "astype":
            return cat_of_dtype(kw.get("dtype", args[1] if len(args) > 1 else None))
        if short in ("zeros", "ones", "empty"):
            dt = kw.get("dtype", args[1] if len(args) > 1 else None)
            return cat_of_dtype(dt) if dt is not None else "float"
        if short in ("zeros_like", "ones_like"):
            dt = kw.get("dtype", args[1] if len(args) > 1 else None)
            return cat_of_dtype(dt) if dt is not None else (dtype_cat(args[0], memo, d) if args else None)
        if short == "full":
            dt = kw.get("dtype", args[2] if len(args) > 2 else None)
            if dt is not None:
                return cat_of_dtype(dt)
            return dtype_cat(args[1], memo, d) if len(args) > 1 else None
        if cat_of_dtype_name(short) and args:
            return cat_of_dtype_name(short)
        if short in BOOL_FUNCS:
            return "bool"
        if short in FLOAT_FUNCS or n.endswith("linalg.norm"):
            return "float"
        if short in INT_FUNCS:
            return "int"
        if short in ("sum", "cumsum", "prod"):
            dt = kw.get("dtype")
            if dt is not None:
                return cat_of_dtype(dt)
            c = dtype_cat(args[0], memo, d) if args else None
            return "int" if c == "bool" else c
        if short in SAME_AS_FIRST:
            if short in ("stack", "concatenate") and "dtype" in kw:
                return cat_of_dtype(kw["dtype"])
            a0 = args[0] if args else None
            if a0 is not None and a0.kind in ("list", "tuple"):
                out, first = None, True
                for x in a0.args[0]:
                    c = dtype_cat(x, memo, d)
                    if c is None:
                        return None
                    out = c if first else promote(out, c)
                    first = False
                return out
            if short in ("maximum", "minimum", "clip") and len(args) >= 2:
                c = dtype_cat(args[0], memo, d)
                for x in args[1:]:
                    c = promote(c, dtype_cat(x, memo, d))
                return c
            return dtype_cat(a0, memo, d) if a0 is not None else None
        if short in ("dot", "matmul", "multiply", "add", "subtract"):
            return promote(dtype_cat(args[0], memo, d), dtype_cat(args[1], memo, d)) if len(args) >= 2 else None
        return None
    return None
