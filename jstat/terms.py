"""Hash-consed value-flow terms.

A term is an immutable DAG node `T(kind, args)`.  Two terms are "the same value" iff they
are the same object (structural equality after hash-consing).  Kinds:

  self(classqual)                 the environment / object under analysis
  param(funcqual, name)           symbolic parameter of an analysed entry point
  const(value)                    python literal (int, float, str, bool, None, bytes)
  ext(qualname)                   external name (jax.numpy.where, builtins.len, ...)
  cls(classqual)                  class object of the analysed tree
  mod(modname)                    module object of the analysed tree
  attr(v, name)                   attribute read
  index(v, i)                     subscript read
  slice(lo, hi, step)             slice object
  call(f, args, kw)               call of an external / unresolved callable
  construct(classqual, fields)    record construction (fields: tuple of (name, T))
  new(classqual, args, kw)        instantiation of a non-record class
  update(obj, field, v)           functional update of a record whose base is not a construct
  choice(how, pred, alts)         lax.cond / switch / select / jnp.where / IfExp
  tuple(items) list(items) dict(keys, vals) set(items)
  proj(v, i)                      i-th element of an unpacked value
  bin(op, a, b) un(op, a) cmp(op, a, b) bool(op, items)
  phi(alts)                       join of python-level control flow
  elem(v)                         one element of v along a mapped axis (vmap/scan/map/for)
  batched(v)                      result of mapping: stack of v over the mapped axis
  loopin(init, uid)               loop-carried value on entry of a loop body
  loop(init, out)                 loop-carried value after the loop
  leaf(v)                         generic leaf of pytree v (tree_map)
  fn(uid)                         function value (closure); payload in .meta
  star(v)                         *v in an argument list
  opaque(reason, uid)             not modelled
"""
from __future__ import annotations

import itertools
from typing import Any, Callable, Dict, Iterable, List, Optional, Tuple

_uid = itertools.count(1)


class T:
    __slots__ = ("kind", "args", "id", "meta", "_deps")

    def __init__(self, kind: str, args: tuple, ident: int):
        self.kind = kind
        self.args = args
        self.id = ident
        self.meta = None
        self._deps = None

    def __repr__(self) -> str:
        return show(self, 3)

    def __hash__(self) -> int:
        return self.id

    def __eq__(self, other) -> bool:
        return self is other


class TermTable:
    def __init__(self):
        self.table: Dict[tuple, T] = {}

    @staticmethod
    def _key(x):
        if isinstance(x, T):
            return ("T", x.id)
        if isinstance(x, tuple):
            return ("t",) + tuple(TermTable._key(y) for y in x)
        if isinstance(x, float):
            return ("f", repr(x))
        return (type(x).__name__, x)

    def mk(self, kind: str, *args) -> T:
        key = (kind,) + tuple(self._key(a) for a in args)
        t = self.table.get(key)
        if t is None:
            t = T(kind, args, next(_uid))
            self.table[key] = t
        return t

    def fresh(self, kind: str, *args) -> T:
        return self.mk(kind, *args, next(_uid))


TT = TermTable()
mk = TT.mk


def const(v) -> T:
    return mk("const", v)


NONE = const(None)
TRUE = const(True)
FALSE = const(False)
NORETURN = mk("ext", "<noreturn>")   # result of a call that always raises


def is_const(t: T) -> bool:
    return t.kind == "const"


def children(t: T) -> Iterable[T]:
    def walk(a):
        if isinstance(a, T):
            yield a
        elif isinstance(a, tuple):
            for x in a:
                yield from walk(x)

    for a in t.args:
        yield from walk(a)
    if t.kind == "fn" and t.meta is not None:
        # a closure depends on what it captures (conservatively: nothing here; callers that
        # apply the function get the real dependencies)
        return


def deps(t: T, stop: Optional[Callable[[T], bool]] = None) -> set:
    """All sub-terms reachable from t (including t).  `stop(n)` True => do not descend."""
    seen = set()
    out = set()
    stack = [t]
    while stack:
        n = stack.pop()
        if n.id in seen:
            continue
        seen.add(n.id)
        out.add(n)
        if stop is not None and n is not t and stop(n):
            continue
        stack.extend(children(n))
    return out


def contains(t: T, needle: T, stop=None) -> bool:
    seen = set()
    stack = [t]
    while stack:
        n = stack.pop()
        if n is needle:
            return True
        if n.id in seen:
            continue
        seen.add(n.id)
        if stop is not None and n is not t and stop(n):
            continue
        stack.extend(children(n))
    return False


_BIN = {"+", "-", "*", "/", "//", "%", "|", "&", "^", "<<", ">>", "**", "@"}


def show(t: T, depth: int = 6) -> str:
    if not isinstance(t, T):
        if isinstance(t, tuple):
            return "(" + ", ".join(show(x, depth) for x in t) + ")"
        return repr(t)
    k, a = t.kind, t.args
    if k == "const":
        return repr(a[0])
    if k in ("ext", "cls", "mod"):
        return a[0].replace("jumanji.environments.", "").replace("jax.numpy.", "jnp.")
    if k == "self":
        return "self"
    if k == "param":
        return a[1]
    if depth <= 0:
        return "…"
    d = depth - 1
    if k == "attr":
        return f"{show(a[0], d)}.{a[1]}"
    if k == "index":
        return f"{show(a[0], d)}[{show(a[1], d)}]"
    if k == "slice":
        return ":".join("" if x is NONE else show(x, d) for x in a)
    if k == "call":
        args = [show(x, d) for x in a[1]] + [f"{n}={show(v, d)}" for n, v in a[2]]
        return f"{show(a[0], d)}({', '.join(args)})"
    if k == "construct":
        return f"{a[0].split('.')[-1]}({', '.join(f'{n}={show(v, d)}' for n, v in a[1])})"
    if k == "new":
        args = [show(x, d) for x in a[1]] + [f"{n}={show(v, d)}" for n, v in a[2]]
        return f"new {a[0].split('.')[-1]}({', '.join(args)})"
    if k == "update":
        return f"{show(a[0], d)}.replace({a[1]}={show(a[2], d)})"
    if k == "choice":
        return f"{a[0]}({show(a[1], d)} ? {' : '.join(show(x, d) for x in a[2])})"
    if k in ("tuple", "list", "set"):
        o, c = {"tuple": "()", "list": "[]", "set": "{}"}[k]
        return o + ", ".join(show(x, d) for x in a[0]) + c
    if k == "dict":
        return "{" + ", ".join(f"{show(x, d)}: {show(y, d)}" for x, y in zip(a[0], a[1])) + "}"
    if k == "proj":
        return f"{show(a[0], d)}#{a[1]}"
    if k == "bin":
        return f"({show(a[1], d)} {a[0]} {show(a[2], d)})"
    if k == "un":
        return f"{a[0]}{show(a[1], d)}"
    if k == "cmp":
        return f"({show(a[1], d)} {a[0]} {show(a[2], d)})"
    if k == "bool":
        return "(" + f" {a[0]} ".join(show(x, d) for x in a[1]) + ")"
    if k == "phi":
        return "φ(" + ", ".join(show(x, d) for x in a[0]) + ")"
    if k in ("elem", "batched", "leaf", "star", "copy"):
        return f"{k}({show(a[0], d)})"
    if k == "loopin":
        return f"loopin({show(a[0], d)})"
    if k == "loop":
        return f"loop({show(a[0], d)} -> {show(a[1], d)})"
    if k == "fn":
        m = t.meta or {}
        return f"<fn {m.get('name', '?')}>"
    if k == "opaque":
        return f"<opaque {a[0]}>"
    return f"{k}{a}"


_uncopy_memo: Dict[int, "T"] = {}


def uncopy(t: T) -> T:
    """The same term with every `copy` node removed (copies are value-preserving)."""
    r = _uncopy_memo.get(t.id)
    if r is not None:
        return r

    def conv(a):
        if isinstance(a, T):
            return uncopy(a)
        if isinstance(a, tuple):
            return tuple(conv(x) for x in a)
        return a

    if t.kind == "copy":
        r = uncopy(t.args[0])
    elif t.kind in ("fn", "opaque"):
        r = t
    else:
        new_args = tuple(conv(a) for a in t.args)
        r = t if all(x is y for x, y in zip(new_args, t.args)) and _same(new_args, t.args) else mk(t.kind, *new_args)
    _uncopy_memo[t.id] = r
    return r


def _same(a, b) -> bool:
    if isinstance(a, tuple) and isinstance(b, tuple):
        return len(a) == len(b) and all(_same(x, y) for x, y in zip(a, b))
    return a is b or (not isinstance(a, T) and a == b)
