#!/usr/bin/env python3
"""Quick look: run all claimed checks on raw seed patches (/tmp/seed*_<PID>/_seed/patch*.diff) without the suite."""
import json, os, shutil, subprocess, sys, glob, tempfile
sys.path.insert(0, '/verif')
from jstat.selftest.run import copy_tree
claimed = [c["property_id"] for c in json.load(open('/verif/MANIFEST.json'))["checks"]]
for pf in sorted(sum([glob.glob(f'{d}/_seed/patch*.diff') for d in sys.argv[1:]], [])):
    tmp = tempfile.mkdtemp(prefix='jstat_q_')
    try:
        copy_tree(tmp)
        r = subprocess.run(['patch', '-p1', '-s', '-d', tmp], stdin=open(pf), capture_output=True, text=True)
        if r.returncode != 0:
            print(pf, 'patch failed'); continue
        env = dict(os.environ, JSTAT_REPO=tmp, JSTAT_EVIDENCE_DIR=tmp + '/ev', PYTHONPATH='/verif', JSTAT_REPO_IS_VARIANT='1')
        hits, errs = [], []
        first = {}
        for c in claimed:
            rr = subprocess.run(['/venv/bin/python', '-m', 'jstat', c, 'quick'], env=env, cwd='/verif', capture_output=True, text=True)
            if rr.returncode == 1:
                hits.append(c); first[c] = [l.strip()[:200] for l in rr.stdout.splitlines() if l.startswith('  ')][:1]
            elif rr.returncode == 2:
                errs.append(c); first[c] = [l.strip()[:200] for l in rr.stdout.splitlines() if 'ANALYSIS' in l][:1]
        print(pf.replace('/tmp/', ''), 'CAUGHT' if hits else 'missed', hits, 'err', errs)
        for c in hits[:1] + errs[:1]:
            print('      ', first[c])
    finally:
        shutil.rmtree(tmp, ignore_errors=True)
