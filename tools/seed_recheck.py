#!/usr/bin/env python3
"""Re-run every claimed check against every archived seeded change (scratch copy + patch) and record the
current verdicts in meta.json under 'checks_now' / 'caught_by_now'.  Development tool (8 seeds in parallel)."""
import json, os, shutil, subprocess, sys, glob, tempfile
from concurrent.futures import ThreadPoolExecutor
sys.path.insert(0, '/verif')
from jstat.selftest.run import copy_tree
claimed = [c["property_id"] for c in json.load(open('/verif/MANIFEST.json'))["checks"]]


def one(d):
    meta = json.load(open(d + '/meta.json'))
    tmp = tempfile.mkdtemp(prefix='jstat_seed_')
    try:
        copy_tree(tmp)
        r = subprocess.run(['patch', '-p1', '-s', '-d', tmp], stdin=open(d + '/patch.diff'), capture_output=True, text=True)
        if r.returncode != 0:
            return os.path.basename(d) + ' patch failed ' + r.stdout[-200:]
        env = dict(os.environ, JSTAT_REPO=tmp, JSTAT_EVIDENCE_DIR=tmp + '/ev', PYTHONPATH='/verif', JSTAT_REPO_IS_VARIANT='1')
        out = {}
        for c in claimed:
            rr = subprocess.run(['/venv/bin/python', '-m', 'jstat', c, 'quick'], env=env, cwd='/verif', capture_output=True, text=True)
            out[c] = {"exit": rr.returncode, "reports": [l.strip()[:300] for l in rr.stdout.splitlines() if l.startswith('  ') or l.startswith('ANALYSIS')][:4]}
        meta['checks_now'] = {k: v for k, v in out.items() if v['exit'] != 0}
        meta['caught_by_now'] = [c for c, v in out.items() if v['exit'] == 1]
        meta['analysis_error_now'] = [c for c, v in out.items() if v['exit'] == 2]
        json.dump(meta, open(d + '/meta.json', 'w'), indent=1)
        return f"{os.path.basename(d)} {'confirmed' if meta.get('confirmed') else 'unconfirmed'} caught_by {meta['caught_by_now']} err {meta['analysis_error_now']}"
    finally:
        shutil.rmtree(tmp, ignore_errors=True)


dirs = [d for d in sorted(glob.glob('/verif/seeded/C*-*')) if not sys.argv[1:] or os.path.basename(d) in sys.argv[1:]]
with ThreadPoolExecutor(8) as ex:
    for line in ex.map(one, dirs):
        print(line, flush=True)
