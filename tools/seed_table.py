#!/usr/bin/env python3
"""Print the markdown rows of DESIGN.md section 11 from seeded/*/meta.json (verdicts of the current checks) and the
hand-written one-line descriptions below.  Development tool."""
import glob, json, os, re, sys
DESC = {
 "C01-1": "GraphColoring drops the `% num_nodes` wrap of current_node_index (last step only)",
 "C01-2": "SlidingTile SparseRewardFn returns jnp.where(solved, 1, 0) (int reward, float spec)",
 "C05-1": "GraphColoring reward via jnp.select with 'all coloured' before 'invalid' (priority inversion)",
 "C05-2": "FlatPack placed_blocks.at[i].set(action_is_legal) writes False on an illegal action",
 "C06-1": "MMST validity loses the INVALID_TIE_BREAK clause",
 "C06-2": "MultiCVRP de-duplication by shifted comparison instead of unique+scatter",
 "C09-1": "Minesweeper explored_mine stride shape[0] instead of shape[-1] (non-square)",
 "C09-2": "LBF movement blocked by eaten food (lost `& ~eaten`)",
 "C10-1": "FlatPack generator scan starts its block-id counter from num_row_blocks",
 "C10-2": "Maze generator divmod(flat, num_rows)",
 "C17-1": "Rubik do_rotation rotates the face for every depth",
 "C17-2": "RubiksCube.step calls flatten_action with a default cube_size=3",
 "C19-1": "tree_slice via dynamic_slice + axis-less squeeze",
 "C19-2": "is_equal_pytree with np.all(a == b) (broadcasting)",
 "C01-r2-1": "Maze generator divmod(flat, num_rows) (positions leave their spec bounds)",
 "C01-r2-2": "Tetris padded_num_cols = num_rows + 3",
 "C01-r2-3": "Sudoku DatabaseGenerator subtracts 1 in the database dtype (uint8 wrap)",
 "C02-r2-1": "VmapAutoReset: cond on any(last) then auto_reset for every element (wrappers.py)",
 "C02-r2-2": "Tetris.reset full_lines sized by padded_num_cols (reset/step shapes differ)",
 "C02-r2-3": "Sudoku apply_action jitted with donate_argnames",
 "C03-r2-1": "MultiToSingleWrapper default discount aggregator jnp.min (wrappers.py)",
 "C03-r2-2": "LBF discount_spec shape (num_food,)",
 "C03-r2-3": "RubiksCube.reset returns termination(...) when the scramble is solved",
 "C04-r2-1": "Snake mask tests body_state (tail cell not freed)",
 "C04-r2-2": "Tetris mask computed from the colour grid instead of the binarised grid",
 "C04-r2-3": "RobotWarehouse mask from the pre-step grid",
 "C05-r2-1": "Tetris reward loses `* is_valid`",
 "C05-r2-2": "Connector `~agent.connected` moved from is_valid_position into the mask only",
 "C05-r2-3": "Minesweeper DefaultRewardFn stores revealed_mine_reward as invalid_action_reward",
 "C06-r2-1": "FlatPack mask meshgrid rows/cols swapped, reshape unchanged",
 "C06-r2-2": "Connector UniformRandomGenerator draws starts and targets independently (generator.py)",
 "C06-r2-3": "JobShop keeps remaining time when job_ids == machines_job_ids",
 "C07-r2-1": "Snake samples the new fruit against state.body (stale)",
 "C07-r2-2": "RobotWarehouse shelf writes reordered (cur_pos == new_pos)",
 "C07-r2-3": "LBF occupancy test loses axis=1",
 "C09-r2-1": "Snake mask tests body_state (tail cell not freed)",
 "C09-r2-2": "Knapsack step uses weight < budget, mask uses <=",
 "C09-r2-3": "SlidingTile sparse reward reads the board before the move",
 "C10-r2-1": "BinPack split boundaries int(i * (len/num)) (rounding)",
 "C10-r2-2": "MMST sub-graph label offset by a running sum of the wrong sizes",
 "C10-r2-3": "Sudoku DatabaseGenerator subtracts 1 before the int32 cast",
 "C11-r2-1": "make() without .copy(): overrides leak into later makes (registration.py)",
 "C11-r2-2": "PacMan termination reads the state before step_count is incremented",
 "C11-r2-3": "MultiCVRP horizon num_customers * num_vehicles",
 "C12-r2-1": "BinPack largest-EMS ranking ignores ems_mask",
 "C12-r2-2": "MMST utility-node relabelling moved after the connected-node loop",
 "C12-r2-3": "LBF grid observer shows eaten food",
 "C13-r2-1": "VmapAutoReset resets every element when any ends",
 "C13-r2-2": "JobShop RandomGenerator state key = PRNGKey(0) via a shared helper",
 "C13-r2-3": "Tetris.reset full_lines sized by padded_num_cols",
 "C14-r2-1": "VmapAutoReset skips the map unless all(last)",
 "C14-r2-2": "render strips ndim(key)-1 leading dims",
 "C14-r2-3": "AutoResetWrapper resets self.unwrapped, the Vmap sibling self._env",
 "C15-r2-1": "gym reset `if seed:` (seed=0 ignored)",
 "C15-r2-2": "scalar integer BoundedArray -> Discrete(n) without start",
 "C15-r2-3": "Maze step_count spec bounded by the default limit",
 "C16-r2-1": "is_equal_pytree via flatten + zip (truncates, ignores keys)",
 "C16-r2-2": "Array.validate dtype test via can_cast",
 "C16-r2-3": "jumanji_to_gym_obs casts float leaves to float32",
 "C17-r2-1": "solved cube made absorbing in RubiksCube.step",
 "C17-r2-2": "RandomWalkGenerator swaps two tiles when the walk ends solved",
 "C17-r2-3": "rotate_cube via a gather table built in the cube dtype (int8 wrap)",
 "C18-r2-1": "register checks the raw id but stores under the canonical id",
 "C18-r2-2": "Sudoku caches the default generator in a class attribute",
 "C18-r2-3": "make merges {**kwargs, **registered}",
 "C19-r2-1": "tree_add_element via an un-reshaped where mask",
 "C19-r2-2": "is_equal_pytree casts the second leaf to the first leaf's dtype",
 "C19-r2-3": "assert_trees_are_different via assert_trees_all_close",
}
only = sys.argv[1:]
for d in sorted(glob.glob('/verif/seeded/C*-*')):
    b = os.path.basename(d)
    if b not in DESC:
        continue
    if only and not any(b.startswith(o) or o in b for o in only):
        continue
    m = json.load(open(d + '/meta.json'))
    pid = m['property']
    rules = []
    for c, v in sorted(m.get('checks_now', {}).items(), key=lambda kv: (kv[0] != pid, kv[0])):
        if v['exit'] != 1:
            continue
        rs = sorted({re.match(r'(C\d\d\.[A-Za-z0-9.]+)', r).group(1) for r in v['reports'] if re.match(r'C\d\d\.', r)})
        rules.append(', '.join(rs) if rs else c)
    if pid in m.get('caught_by_now', []):
        rep = ' · '.join(rules)
    elif rules:
        rep = '*(own check silent)* ' + ' · '.join(rules)
    else:
        rep = '**not reported**'
    print(f"| {b} | {DESC[b]} | {rep} |")
