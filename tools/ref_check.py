#!/usr/bin/env python3
"""Run every claimed check on each behaviour-preserving refactoring patch (/tmp/ref_<G>/_ref/patch<i>.diff, or the
archived copy under /verif/seeded/refactors/<G>-<i>/); any exit 1 is a false alarm to fix, exit 2 is fail-closed
(acceptable but noted).  Archives new patches with the verdicts.  Development tool (8 patches in parallel)."""
import json, os, shutil, subprocess, sys, glob, tempfile
from concurrent.futures import ThreadPoolExecutor
sys.path.insert(0, '/verif')
from jstat.selftest.run import copy_tree
claimed = [c["property_id"] for c in json.load(open('/verif/MANIFEST.json'))["checks"]]
groups = sys.argv[1:] or sorted({os.path.basename(d).split('-')[0] for d in glob.glob('/verif/seeded/refactors/*-*')})
jobs = []
for g in groups:
    for pf in sorted(glob.glob(f'/tmp/ref_{g}/_ref/patch*.diff')) or sorted(glob.glob(f'/verif/seeded/refactors/{g}-*/patch.diff')):
        if 'seeded' in pf:
            i = os.path.basename(os.path.dirname(pf)).split('-')[1]
        else:
            i = ''.join(ch for ch in os.path.basename(pf) if ch.isdigit())
        out = f'/verif/seeded/refactors/{g}-{i}'
        os.makedirs(out, exist_ok=True)
        if 'seeded' not in pf:
            shutil.copy(pf, out + '/patch.diff')
            nf = pf.replace('patch', 'note').replace('.diff', '.txt')
            if os.path.exists(nf):
                shutil.copy(nf, out + '/note.txt')
        jobs.append((g, i, out))


def one(job):
    g, i, out = job
    tmp = tempfile.mkdtemp(prefix='jstat_ref_')
    lines = []
    try:
        copy_tree(tmp)
        r = subprocess.run(['patch', '-p1', '-s', '-d', tmp], stdin=open(out + '/patch.diff'), capture_output=True, text=True)
        if r.returncode != 0:
            return [f'{g} {i} patch failed {r.stdout[-200:]}']
        env = dict(os.environ, JSTAT_REPO=tmp, JSTAT_EVIDENCE_DIR=tmp + '/ev', PYTHONPATH='/verif', JSTAT_REPO_IS_VARIANT='1')
        bad = {}
        for c in claimed:
            rr = subprocess.run(['/venv/bin/python', '-m', 'jstat', c, 'quick'], env=env, cwd='/verif', capture_output=True, text=True)
            if rr.returncode != 0:
                bad[c] = {"exit": rr.returncode, "reports": [l.strip()[:400] for l in rr.stdout.splitlines() if l.startswith('  ') or l.startswith('ANALYSIS')][:4]}
        json.dump({"kind": "behaviour-preserving refactoring (independent sub-agent)", "non_zero_checks": bad}, open(out + '/meta.json', 'w'), indent=1)
        lines.append(f"{g} {i} " + ('SILENT' if not bad else str({c: v['exit'] for c, v in bad.items()})))
        for c, v in bad.items():
            for l in v['reports'][:2]:
                lines.append(f'       {c} {l[:300]}')
        return lines
    finally:
        shutil.rmtree(tmp, ignore_errors=True)


with ThreadPoolExecutor(8) as ex:
    for lines in ex.map(one, jobs):
        for l in lines:
            print(l, flush=True)
