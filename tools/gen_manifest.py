#!/usr/bin/env python3
"""Regenerate /verif/MANIFEST.json from the table below (development tool)."""
import json, os, subprocess
V = "/verif"
props = [json.loads(l) for l in open(f"{V}/properties.jsonl")]
CHECKS = json.load(open(f"{V}/tools/manifest_checks.json"))
fix_commits = subprocess.run(["git", "-C", "/repo", "log", "--format=%H %s", "5bc804d0..HEAD"], capture_output=True, text=True).stdout.strip().splitlines()
fix_commits = [l.split()[0] for l in fix_commits if l.split(" ", 1)[1].startswith("fix:")]
checks, na = [], []
for p in props:
    pid = p["id"]
    c = CHECKS.get(pid)
    if c is None or c.get("not_applicable"):
        na.append({"property_id": pid, "reason": (c or {}).get("not_applicable", "check not built yet (implementation in progress)")})
        continue
    checks.append({
        "property_id": pid,
        "quick_cmd": f"./check {pid} quick",
        "thorough_cmd": f"./check {pid} thorough",
        "evidence_file": f"/verif/evidence/{pid}.json",
        "replay_cmd_template": f"./check {pid} --replay {{path}}",
        "engine": "jstat",
        "level_claimed": {"category": "other", "text": c["text"], "design_ref": c.get("design_ref", f"DESIGN.md section 3, {pid}")},
        "level_note": c["note"],
        "technique": c["technique"],
    })
m = {
    "version": 1,
    "setup_cmd": "true",
    "hooks": {"guard": "INSTADEEPAI_JUMANJI_VERIF", "enable": "no hooks: every check parses /repo's current working tree with the Python standard library (ast); the guard variable is unused",
              "baseline_off_cmd": "cd /repo && /venv/bin/python -m pytest -ra -q -p no:cacheprovider --timeout=900 --continue-on-collection-errors -n 12",
              "source_commits": list(reversed(fix_commits)), "add_only": True},
    "engines": [{"name": "jstat", "path": "/verif/jstat", "serves_properties": [c["property_id"] for c in checks],
                 "kind_free_text": "repository-specific static analyser: ast loader + class hierarchy + call resolution, interprocedural value-flow graph with hash-consed terms, normal forms, freshness typestate, axis-kind inference, literal-table evaluation. Standard library only; nothing under /repo is imported or executed."}],
    "checks": checks,
    "not_applicable": na,
    "notes": "Static analysis only. Every claimed check decides a structural necessary condition of its property (stated in level_claimed.text and in the evidence explanation), not the whole behaviour. Exit 2 = ANALYSIS-ERROR (fail closed).",
}
json.dump(m, open(f"{V}/MANIFEST.json", "w"), indent=1)
print("checks:", [c["property_id"] for c in checks], "n/a:", [x["property_id"] for x in na])
