#!/usr/bin/env python3
"""Development tool: run checks against a scratch copy of /repo with a patch applied
(or a commit reverted).  try_patch.py (--revert <commit> | --patch <file> | --sed 'file::old::new') ID...
Nothing in /repo is touched; the scratch copy is removed afterwards."""
import os, shutil, subprocess, sys, tempfile
args = sys.argv[1:]
mode, what = args[0], args[1]
ids = args[2:]
tmp = tempfile.mkdtemp(prefix="jstat_variant_")
try:
    subprocess.run(["rsync", "-a", "--include=*/", "--include=*.py", "--exclude=*", "/repo/jumanji", tmp + "/"], check=True)
    if mode == "--revert":
        d = subprocess.run(["git", "-C", "/repo", "show", what], capture_output=True, text=True, check=True).stdout
        subprocess.run(["patch", "-R", "-p1", "-s", "-d", tmp], input=d, text=True, check=True)
    elif mode == "--patch":
        subprocess.run(["patch", "-p1", "-s", "-d", tmp], stdin=open(what), check=True)
    elif mode == "--py":
        subprocess.run(["python3", what, tmp], check=True)
    elif mode == "--sed":
        f, old, new = what.split("::")
        p = os.path.join(tmp, f)
        s = open(p).read()
        assert old in s, "pattern not found"
        open(p, "w").write(s.replace(old, new, 1))
    env = dict(os.environ, JSTAT_REPO=tmp, JSTAT_EVIDENCE_DIR=tmp + "/evidence", PYTHONPATH="/verif")
    rc = 0
    for i in ids:
        r = subprocess.run(["/venv/bin/python", "-m", "jstat", i], env=env, cwd="/verif")
        print(f"--> {i} exit={r.returncode}")
finally:
    shutil.rmtree(tmp, ignore_errors=True)
