#!/usr/bin/env python3
"""Re-run only the baseline-suite part of the confirmation for archived seeds whose suite run was
disturbed (shared pytest temp dir removed by a concurrent run).  Sequential, private --basetemp."""
import json, os, shutil, subprocess, sys, glob, xml.etree.ElementTree as ET
base = json.load(open('/root/.vp/BASELINE.json')); stable = set(base['stable_pass'])
env = dict(os.environ, JAX_PLATFORMS="cpu", PYTHONDONTWRITEBYTECODE="1")
for d in sorted(glob.glob('/verif/seeded/*-*')):
    meta = json.load(open(d + '/meta.json'))
    if meta.get('confirmed') or 'suite_stable_missing' not in meta or not meta['suite_stable_missing']:
        continue
    if sys.argv[1:] and os.path.basename(d) not in sys.argv[1:]:
        continue
    pid = meta['property']; wt = f"/tmp/seed{'2' if '-r2-' in d else ''}_{pid}"
    if not os.path.isdir(wt):
        print(d, 'worktree gone'); continue
    def sh(cmd): return subprocess.run(cmd, shell=True, capture_output=True, text=True, cwd=wt, env=env)
    sh("git checkout -- . && git clean -fdq -e _seed")
    if sh(f"git apply {d}/patch.diff").returncode != 0:
        print(d, 'patch does not apply'); continue
    xml = f"/tmp/junit_re_{os.path.basename(d)}.xml"; bt = f"/tmp/pytest_bt_re_{os.path.basename(d)}"
    sh(f"/venv/bin/python -m pytest -q -p no:cacheprovider --timeout=900 --continue-on-collection-errors -n 12 --basetemp={bt} --junitxml={xml}")
    passed = set()
    for tc in ET.parse(xml).getroot().iter('testcase'):
        if not any(ch.tag in ('failure', 'error', 'skipped') for ch in tc):
            passed.add(f"{tc.get('classname')}::{tc.get('name')}")
    os.remove(xml); shutil.rmtree(bt, ignore_errors=True)
    missing = sorted(stable - passed)
    meta['suite_passed'] = len(passed); meta['suite_stable_missing'] = missing[:10]
    meta['confirmed'] = meta.get('demo_clean_exit') == 0 and meta.get('demo_patched_exit') != 0 and not missing
    meta['suite_rerun'] = "suite re-run sequentially with a private --basetemp (first run was disturbed by a concurrent run removing the shared pytest temp dir)"
    json.dump(meta, open(d + '/meta.json', 'w'), indent=1)
    sh("git checkout -- . && git clean -fdq -e _seed")
    print(os.path.basename(d), 'confirmed' if meta['confirmed'] else 'NOT-CONFIRMED', missing[:4], flush=True)
