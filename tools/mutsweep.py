#!/usr/bin/env python3
"""Mutation sweep (development tool): generic small AST mutants of selected library files, each applied to a scratch
copy of the tree and analysed by every claimed check.  Prints one line per mutant with the checks that report it;
the uncaught ones are candidates for missing rules (or equivalent mutants / value-level changes).

usage: mutsweep.py <relpath> [<relpath> ...] [--func NAME] [--max N] [--jobs N] [--props C13,C14]
"""
import ast, copy, json, os, shutil, subprocess, sys, tempfile
from concurrent.futures import ThreadPoolExecutor
sys.path.insert(0, '/verif')
from jstat.selftest.run import copy_tree
REPO = os.environ.get('JSTAT_REPO', '/repo')
claimed = [c["property_id"] for c in json.load(open('/verif/MANIFEST.json'))["checks"]]

CMP = {ast.Lt: ast.LtE, ast.LtE: ast.Lt, ast.Gt: ast.GtE, ast.GtE: ast.Gt, ast.Eq: ast.NotEq, ast.NotEq: ast.Eq,
       ast.Is: ast.IsNot, ast.IsNot: ast.Is, ast.In: ast.NotIn, ast.NotIn: ast.In}
BIN = {ast.BitAnd: ast.BitOr, ast.BitOr: ast.BitAnd, ast.Add: ast.Sub, ast.Sub: ast.Add, ast.Mult: ast.FloorDiv, ast.Mod: ast.FloorDiv}
BOOL = {ast.And: ast.Or, ast.Or: ast.And}


def sites(tree, only_func=None):
    """yield (description, mutator(node) -> None applied on a deep copy located by index)"""
    nodes = list(ast.walk(tree))
    fn_of = {}
    for f in nodes:
        if isinstance(f, (ast.FunctionDef, ast.AsyncFunctionDef)):
            for x in ast.walk(f):
                fn_of.setdefault(id(x), f.name)
    out = []
    for i, n in enumerate(nodes):
        fn = fn_of.get(id(n), '<module>')
        if only_func and fn != only_func:
            continue
        ln = getattr(n, 'lineno', 0)
        if isinstance(n, ast.Compare) and len(n.ops) == 1 and type(n.ops[0]) in CMP:
            out.append((i, ln, fn, 'cmp', f"{ast.unparse(n)[:60]} -> {CMP[type(n.ops[0])].__name__}"))
        elif isinstance(n, ast.BinOp) and type(n.op) in BIN:
            out.append((i, ln, fn, 'bin', f"{ast.unparse(n)[:60]} -> {BIN[type(n.op)].__name__}"))
        elif isinstance(n, ast.BoolOp) and type(n.op) in BOOL:
            out.append((i, ln, fn, 'bool', f"{ast.unparse(n)[:60]} -> {BOOL[type(n.op)].__name__}"))
        elif isinstance(n, ast.UnaryOp) and isinstance(n.op, (ast.Invert, ast.Not)):
            out.append((i, ln, fn, 'dropneg', f"{ast.unparse(n)[:60]} -> operand"))
        elif isinstance(n, ast.Constant) and isinstance(n.value, int) and not isinstance(n.value, bool) and n.value in (0, 1, 2):
            out.append((i, ln, fn, 'const', f"{n.value} -> {n.value + 1}"))
        elif isinstance(n, ast.Constant) and isinstance(n.value, bool):
            out.append((i, ln, fn, 'boolconst', f"{n.value} -> {not n.value}"))
        elif isinstance(n, ast.Call) and len(n.args) >= 2 and not any(isinstance(a, ast.Starred) for a in n.args[:2]):
            out.append((i, ln, fn, 'swapargs', f"{ast.unparse(n)[:60]} -> first two args swapped"))
        elif isinstance(n, ast.Tuple) and len(n.elts) == 2 and isinstance(n.ctx, ast.Load):
            out.append((i, ln, fn, 'swaptuple', f"{ast.unparse(n)[:60]} -> swapped"))
        elif isinstance(n, (ast.Assign,)) and isinstance(n.value, ast.Call) and len(n.targets) == 1 and isinstance(n.targets[0], ast.Name) \
                and any(isinstance(x, ast.Name) and x.id == n.targets[0].id for x in ast.walk(n.value)):
            out.append((i, ln, fn, 'delstmt', f"delete `{ast.unparse(n)[:60]}`"))
        elif isinstance(n, ast.IfExp):
            out.append((i, ln, fn, 'swapifexp', f"{ast.unparse(n)[:60]} -> branches swapped"))
        elif isinstance(n, ast.keyword) and n.arg in ('axis',) and isinstance(n.value, ast.Constant) and n.value.value in (0, 1, -1):
            out.append((i, ln, fn, 'axis', f"axis={n.value.value} -> other"))
    return out


def apply(tree, idx, kind):
    t = copy.deepcopy(tree)
    n = list(ast.walk(t))[idx]
    if kind == 'cmp':
        n.ops = [CMP[type(n.ops[0])]()]
    elif kind == 'bin':
        n.op = BIN[type(n.op)]()
    elif kind == 'bool':
        n.op = BOOL[type(n.op)]()
    elif kind == 'dropneg':
        # replace in parent
        for p in ast.walk(t):
            for f, v in ast.iter_fields(p):
                if v is n:
                    setattr(p, f, n.operand)
                elif isinstance(v, list):
                    for j, x in enumerate(v):
                        if x is n:
                            v[j] = n.operand
    elif kind == 'const':
        n.value = n.value + 1
    elif kind == 'boolconst':
        n.value = not n.value
    elif kind == 'swapargs':
        n.args[0], n.args[1] = n.args[1], n.args[0]
    elif kind == 'swaptuple':
        n.elts[0], n.elts[1] = n.elts[1], n.elts[0]
    elif kind == 'swapifexp':
        n.body, n.orelse = n.orelse, n.body
    elif kind == 'axis':
        n.value = ast.Constant(value={0: 1, 1: 0, -1: 0}[n.value.value])
    elif kind == 'delstmt':
        for p in ast.walk(t):
            for f in ('body', 'orelse', 'finalbody'):
                lst = getattr(p, f, None)
                if isinstance(lst, list) and n in lst:
                    lst.remove(n)
                    if not lst:
                        lst.append(ast.Pass())
    ast.fix_missing_locations(t)
    return ast.unparse(t) + "\n"


def run_one(job):
    rel, idx, ln, fn, kind, desc, src, props = job
    tmp = tempfile.mkdtemp(prefix='jstat_sw_')
    try:
        copy_tree(tmp)
        open(os.path.join(tmp, rel), 'w').write(src)
        try:
            compile(src, rel, 'exec')
        except SyntaxError:
            return f"{rel}:{ln} {fn} [{kind}] {desc} => SYNTAX"
        env = dict(os.environ, JSTAT_REPO=tmp, JSTAT_EVIDENCE_DIR=tmp + '/ev', PYTHONPATH='/verif', JSTAT_REPO_IS_VARIANT='1')
        hits, errs = [], []
        for c in props:
            rr = subprocess.run(['/venv/bin/python', '-m', 'jstat', c, 'quick'], env=env, cwd='/verif', capture_output=True, text=True)
            if rr.returncode == 1:
                hits.append(c)
            elif rr.returncode == 2:
                errs.append(c)
        tag = 'CAUGHT' if hits else ('FAILCLOSED' if errs else 'uncaught')
        return f"{tag:10s} {rel}:{ln} {fn} [{kind}] {desc} => {hits} err {errs}"
    finally:
        shutil.rmtree(tmp, ignore_errors=True)


def main():
    args = sys.argv[1:]
    files, only_func, mx, jobs, props = [], None, 10**9, 16, claimed
    i = 0
    while i < len(args):
        if args[i] == '--func':
            only_func = args[i + 1]; i += 2
        elif args[i] == '--max':
            mx = int(args[i + 1]); i += 2
        elif args[i] == '--jobs':
            jobs = int(args[i + 1]); i += 2
        elif args[i] == '--props':
            props = args[i + 1].split(','); i += 2
        else:
            files.append(args[i]); i += 1
    todo = []
    for rel in files:
        src = open(os.path.join(REPO, rel)).read()
        tree = ast.parse(src)
        for idx, ln, fn, kind, desc in sites(tree, only_func)[:mx]:
            try:
                new = apply(tree, idx, kind)
            except Exception as e:
                continue
            todo.append((rel, idx, ln, fn, kind, desc, new, props))
    print(f"{len(todo)} mutants", flush=True)
    with ThreadPoolExecutor(jobs) as ex:
        for line in ex.map(run_one, todo):
            print(line, flush=True)


if __name__ == '__main__':
    main()
