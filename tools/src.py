#!/usr/bin/env python3
"""print python source without docstrings/comments: src.py file [name ...]"""
import ast, sys
p = sys.argv[1]; names = set(sys.argv[2:])
t = ast.parse(open(p).read())
for n in ast.walk(t):
    if isinstance(n, (ast.FunctionDef, ast.ClassDef, ast.Module)):
        if n.body and isinstance(n.body[0], ast.Expr) and isinstance(getattr(n.body[0], 'value', None), ast.Constant) and isinstance(n.body[0].value.value, str):
            n.body = n.body[1:] or [ast.Pass()]
if names:
    for n in ast.walk(t):
        if isinstance(n, (ast.FunctionDef, ast.ClassDef)) and n.name in names:
            print(ast.unparse(n)); print()
else:
    print(ast.unparse(t))
