#!/usr/bin/env python3
"""Confirm and archive seeded changes produced by an independent sub-agent.
usage: seed_confirm.py <PID> [--no-suite]
For each /tmp/seed_<PID>/_seed/patch<i>.diff: demo passes on clean HEAD, fails with the patch; the
pinned baseline suite still passes with the patch (junit compared with BASELINE stable_pass); then all
claimed checks are run against the patched worktree (JSTAT_REPO) and the verdicts recorded.
Archives to /verif/seeded/<PID>-<i>/ (patch.diff, demo.py, note.txt, meta.json).  Development tool."""
import json, os, shutil, subprocess, sys, xml.etree.ElementTree as ET
pid = sys.argv[1]
suite = "--no-suite" not in sys.argv
rnd = "2" if "--round2" in sys.argv else ""
if "--round" in sys.argv:
    rnd = sys.argv[sys.argv.index("--round") + 1]
wt = f"/tmp/seed{rnd}_{pid}"
sd = f"{wt}/_seed"
base = json.load(open('/root/.vp/BASELINE.json'))
stable = set(base['stable_pass'])
env = dict(os.environ, JAX_PLATFORMS="cpu", PYTHONDONTWRITEBYTECODE="1")
manifest = json.load(open('/verif/MANIFEST.json'))
claimed = [c["property_id"] for c in manifest["checks"]]
def sh(cmd, **k):
    return subprocess.run(cmd, shell=True, capture_output=True, text=True, cwd=wt, env=env, **k)
for i in (1, 2, 3, 4):
    pf = f"{sd}/patch{i}.diff"
    if not os.path.exists(pf):
        continue
    meta = {"property": pid, "seed": i, "source": "independent sub-agent, given only the property text"}
    sh("git checkout -- . && git clean -fdq -e _seed")
    r0 = sh(f"/venv/bin/python _seed/demo{i}.py", timeout=1800)
    meta["demo_clean_exit"] = r0.returncode
    a = sh(f"git apply _seed/patch{i}.diff")
    if a.returncode != 0:
        meta["error"] = "patch does not apply: " + a.stderr[-300:]
        print(pid, i, meta["error"]); continue
    r1 = sh(f"/venv/bin/python _seed/demo{i}.py", timeout=1800)
    meta["demo_patched_exit"] = r1.returncode
    meta["demo_patched_tail"] = (r1.stdout + r1.stderr)[-400:]
    if suite:
        xml = f"/tmp/junit_seed{rnd}_{pid}_{i}.xml"
        bt = f"/tmp/pytest_bt{rnd}_{pid}_{i}"
        sh(f"/venv/bin/python -m pytest -q -p no:cacheprovider --timeout=900 --continue-on-collection-errors -n 10 --basetemp={bt} --junitxml={xml}", timeout=3600)
        shutil.rmtree(bt, ignore_errors=True)
        passed = set()
        try:
            for tc in ET.parse(xml).getroot().iter('testcase'):
                if not any(ch.tag in ('failure', 'error', 'skipped') for ch in tc):
                    passed.add(f"{tc.get('classname')}::{tc.get('name')}")
            os.remove(xml)
        except Exception as e:
            meta["suite_error"] = repr(e)
        missing = sorted(stable - passed)
        meta["suite_passed"] = len(passed); meta["suite_stable_missing"] = missing[:10]
    verdicts = {}
    for c in claimed:
        e2 = dict(env, JSTAT_REPO=wt, JSTAT_EVIDENCE_DIR=f"/tmp/seed_ev_{pid}_{i}", PYTHONPATH="/verif", JSTAT_REPO_IS_VARIANT="1")
        r = subprocess.run(["/venv/bin/python", "-m", "jstat", c, "quick"], capture_output=True, text=True, cwd="/verif", env=e2)
        lines = [l.strip()[:300] for l in r.stdout.splitlines() if l.startswith("  ") or l.startswith("ANALYSIS")]
        verdicts[c] = {"exit": r.returncode, "reports": lines[:6]}
    shutil.rmtree(f"/tmp/seed_ev_{pid}_{i}", ignore_errors=True)
    meta["checks"] = verdicts
    meta["caught_by"] = [c for c, v in verdicts.items() if v["exit"] == 1]
    meta["analysis_error_in"] = [c for c, v in verdicts.items() if v["exit"] == 2]
    meta["files_touched"] = sh("git diff --stat | head -5").stdout
    sh("git checkout -- . && git clean -fdq -e _seed")
    ok = meta["demo_clean_exit"] == 0 and meta["demo_patched_exit"] != 0 and (not suite or not meta.get("suite_stable_missing"))
    meta["confirmed"] = ok
    out = f"/verif/seeded/{pid}-{('r' + rnd + '-') if rnd else ''}{i}"
    os.makedirs(out, exist_ok=True)
    shutil.copy(pf, f"{out}/patch.diff"); shutil.copy(f"{sd}/demo{i}.py", f"{out}/demo.py")
    if os.path.exists(f"{sd}/note{i}.txt"): shutil.copy(f"{sd}/note{i}.txt", f"{out}/note.txt")
    meta["what_i_ran"] = "demo on clean HEAD and with the patch in the scratch worktree; pinned baseline suite with the patch (pytest -n 10, junit vs BASELINE stable_pass); every claimed check with JSTAT_REPO=<patched worktree>"
    json.dump(meta, open(f"{out}/meta.json", "w"), indent=1)
    print(pid, i, "confirmed" if ok else "NOT-CONFIRMED", "caught_by", meta["caught_by"], "err", meta["analysis_error_in"], "suite_missing", meta.get("suite_stable_missing"))
