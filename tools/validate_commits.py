#!/usr/bin/env python3
"""Run the pinned baseline suite on each given /repo commit in a scratch worktree and
compare with BASELINE.json stable_pass. Usage: validate_commits.py <commit>... ; writes
/verif/notes/fix_validation.txt. Development tool, not a registered check."""
import json, subprocess, sys, os, shutil, xml.etree.ElementTree as ET
base = json.load(open('/root/.vp/BASELINE.json'))
stable = set(base['stable_pass'])
out = open('/verif/notes/fix_validation.txt', 'a')
for c in sys.argv[1:]:
    wt = f'/tmp/wt_{c[:8]}'
    subprocess.run(['git', '-C', '/repo', 'worktree', 'add', '--detach', wt, c], check=True, capture_output=True)
    xml = f'/tmp/junit_{c[:8]}.xml'
    env = dict(os.environ, JAX_PLATFORMS='cpu')
    subprocess.run(['/venv/bin/python', '-m', 'pytest', '-q', '-p', 'no:cacheprovider', '--timeout=900',
                    '--continue-on-collection-errors', '-n', '10', f'--junitxml={xml}'], cwd=wt, env=env,
                   capture_output=True)
    passed = set()
    for tc in ET.parse(xml).getroot().iter('testcase'):
        if not any(ch.tag in ('failure', 'error', 'skipped') for ch in tc):
            passed.add(f"{tc.get('classname')}::{tc.get('name')}")
    missing = sorted(stable - passed)
    line = f"{c} passed={len(passed)} stable_missing={len(missing)} {missing[:5]}"
    print(line, flush=True); out.write(line + '\n'); out.flush()
    subprocess.run(['git', '-C', '/repo', 'worktree', 'remove', '--force', wt])
    os.remove(xml)
