#!/usr/bin/env python3
"""Tree-wide behaviour-preserving rewrites (development tool): every claimed check must stay
silent (exit 0) on each variant.  Variants: 'unparse' (ast.unparse round trip of every module:
formatting and comments gone, line numbers changed), 'flipcmp' (a < b -> b > a etc. everywhere),
'commute' (x & y -> y & x, x | y -> y | x for bitwise ops), 'funcops' (a | b -> jnp.logical_or(a, b),
~a -> jnp.logical_not(a) inside modules that import jax.numpy as jnp)."""
import ast, json, os, shutil, subprocess, sys, tempfile
sys.path.insert(0, '/verif')
from jstat.selftest.run import copy_tree

class Flip(ast.NodeTransformer):
    M = {ast.Lt: ast.Gt, ast.Gt: ast.Lt, ast.LtE: ast.GtE, ast.GtE: ast.LtE}
    def visit_Compare(self, n):
        self.generic_visit(n)
        if len(n.ops) == 1 and type(n.ops[0]) in self.M:
            return ast.Compare(left=n.comparators[0], ops=[self.M[type(n.ops[0])]()], comparators=[n.left])
        return n

class Commute(ast.NodeTransformer):
    def visit_BinOp(self, n):
        self.generic_visit(n)
        if isinstance(n.op, (ast.BitAnd, ast.BitOr)):
            return ast.BinOp(left=n.right, op=n.op, right=n.left)
        return n

class FuncOps(ast.NodeTransformer):
    def visit_BinOp(self, n):
        self.generic_visit(n)
        if isinstance(n.op, ast.BitOr):
            return ast.Call(func=ast.Attribute(value=ast.Name(id='jnp', ctx=ast.Load()), attr='logical_or', ctx=ast.Load()), args=[n.left, n.right], keywords=[])
        if isinstance(n.op, ast.BitAnd):
            return ast.Call(func=ast.Attribute(value=ast.Name(id='jnp', ctx=ast.Load()), attr='logical_and', ctx=ast.Load()), args=[n.left, n.right], keywords=[])
        return n
    def visit_UnaryOp(self, n):
        self.generic_visit(n)
        if isinstance(n.op, ast.Invert):
            return ast.Call(func=ast.Attribute(value=ast.Name(id='jnp', ctx=ast.Load()), attr='logical_not', ctx=ast.Load()), args=[n.operand], keywords=[])
        return n

class RenameLocals(ast.NodeTransformer):
    """Rename local variables (not parameters) of every function: x -> x_rn."""
    def visit_FunctionDef(self, f):
        params = set()
        for node in ast.walk(f):
            if isinstance(node, (ast.FunctionDef, ast.Lambda)):
                a = node.args
                for x in a.posonlyargs + a.args + a.kwonlyargs + ([a.vararg] if a.vararg else []) + ([a.kwarg] if a.kwarg else []):
                    params.add(x.arg)
            if isinstance(node, (ast.Global, ast.Nonlocal)):
                params.update(node.names)
            if isinstance(node, ast.FunctionDef) and node is not f:
                params.add(node.name)
            if isinstance(node, ast.comprehension):
                for t in ast.walk(node.target):
                    if isinstance(t, ast.Name):
                        params.add(t.id)
        assigned = {n.id for n in ast.walk(f) if isinstance(n, ast.Name) and isinstance(n.ctx, ast.Store)} - params - {"self", "_"}
        for n in ast.walk(f):
            if isinstance(n, ast.Name) and n.id in assigned:
                n.id = n.id + "_rn"
        return f

class PrivAttr(ast.NodeTransformer):
    """Consistently rename private attributes and methods: obj._x -> obj._x_pv, def _x(self) -> def _x_pv(self),
    class-level _x = ... -> _x_pv = ... (dunder names and module-level private functions are left alone)."""
    def _p(self, n):
        return n.startswith('_') and not n.startswith('__') and n not in ('_', '_replace', '_asdict', '_fields', '_make', '_src')
    def visit_Attribute(self, n):
        self.generic_visit(n)
        if self._p(n.attr) and not (isinstance(n.value, ast.Name) and n.value.id in ('jax', 'np', 'jnp', 'chex', 'matplotlib', 'plt', 'os', 'sys')):
            n.attr = n.attr + '_pv'
        return n
    def visit_ClassDef(self, c):
        for st in c.body:
            if isinstance(st, ast.FunctionDef) and self._p(st.name):
                st.name = st.name + '_pv'
            if isinstance(st, ast.Assign):
                for t in st.targets:
                    if isinstance(t, ast.Name) and self._p(t.id):
                        t.id = t.id + '_pv'
            if isinstance(st, ast.AnnAssign) and isinstance(st.target, ast.Name) and self._p(st.target.id):
                st.target.id = st.target.id + '_pv'
        self.generic_visit(c)
        return c

class PrivFunc(ast.NodeTransformer):
    """Rename module-level private functions and constants (_x -> _x_pf) at their definition, at every Name use and in
    `from m import _x` lists (applied to every module, so cross-module imports stay consistent)."""
    def _p(self, n):
        return n.startswith('_') and not n.startswith('__') and n != '_'
    def visit_Module(self, m):
        self.names = set()
        for st in m.body:
            if isinstance(st, (ast.FunctionDef, ast.ClassDef)) and self._p(st.name):
                self.names.add(st.name)
            if isinstance(st, ast.Assign):
                for t in st.targets:
                    if isinstance(t, ast.Name) and self._p(t.id):
                        self.names.add(t.id)
            if isinstance(st, ast.AnnAssign) and isinstance(st.target, ast.Name) and self._p(st.target.id):
                self.names.add(st.target.id)
            if isinstance(st, ast.ImportFrom) and st.module and st.module.startswith('jumanji'):
                for a in st.names:
                    if self._p(a.name) and a.asname is None:
                        self.names.add(a.name)
        for n in ast.walk(m):
            if isinstance(n, ast.Name) and n.id in self.names:
                n.id += '_pf'
            elif isinstance(n, (ast.FunctionDef, ast.ClassDef)) and n in m.body and n.name in self.names:
                n.name += '_pf'
            elif isinstance(n, ast.ImportFrom) and n.module and n.module.startswith('jumanji'):
                for a in n.names:
                    if a.name in self.names:
                        a.name += '_pf'
            elif isinstance(n, ast.Global):
                n.names = [x + '_pf' if x in self.names else x for x in n.names]
        return m

VARIANTS = {'unparse': None, 'flipcmp': Flip, 'commute': Commute, 'funcops': FuncOps, 'rename': RenameLocals, 'privattr': PrivAttr, 'privfunc': PrivFunc}
checks = [c['property_id'] for c in json.load(open('/verif/MANIFEST.json'))['checks']]
want = sys.argv[1:] or list(VARIANTS)
for name in want:
    tmp = tempfile.mkdtemp(prefix='jstat_twin_')
    try:
        copy_tree(tmp)
        n = 0
        for dp, dn, fn in os.walk(tmp):
            for f in fn:
                if not f.endswith('.py') or f.endswith('_test.py') or f in ('conftest.py',):
                    continue
                p = os.path.join(dp, f)
                src = open(p).read()
                mod = ast.parse(src)
                T = VARIANTS[name]
                if T is not None:
                    if T is FuncOps and 'import jax.numpy as jnp' not in src and 'from jax import numpy as jnp' not in src:
                        continue
                    if T is FuncOps and ('specs.py' in p or 'registration' in p):
                        continue
                    mod = T().visit(mod)
                    ast.fix_missing_locations(mod)
                open(p, 'w').write(ast.unparse(mod) + '\n')
                n += 1
        env = dict(os.environ, JSTAT_REPO=tmp, JSTAT_EVIDENCE_DIR=tmp + '/ev', PYTHONPATH='/verif', JSTAT_REPO_IS_VARIANT='1')
        bad = []
        for c in checks:
            r = subprocess.run(['/venv/bin/python', '-m', 'jstat', c, 'quick'], env=env, cwd='/verif', capture_output=True, text=True)
            if r.returncode != 0:
                bad.append((c, r.returncode, [l.strip()[:230] for l in r.stdout.splitlines() if l.startswith('  ') or 'ANALYSIS' in l][:3]))
        print(f'{name}: {n} files rewritten; non-zero checks: {len(bad)}')
        for b in bad:
            print('   ', b)
    finally:
        shutil.rmtree(tmp, ignore_errors=True)
